#!/bin/bash
# usage: test_seed.sh <seed-id e.g. C15-A> [prop id, default from seed id]
# Runs the property's quick check against a scratch worktree of /repo with the seeded patch applied (never /repo itself).
SID=$1; PID=${2:-${SID%%-*}}
WT=/var/tmp/seedtest-$SID
git -C /repo worktree remove --force $WT 2>/dev/null
git -C /repo worktree add -q --detach $WT HEAD || exit 2
git -C $WT apply /verif/seeded/$SID/patch.diff || { echo "patch does not apply"; git -C /repo worktree remove --force $WT; exit 3; }
cd /verif; VERIF_REPO=$WT ./check $PID > work/seedtest-$SID.log 2>&1; RC=$?
grep -E "^VIOLATION|^KNOWN-FINDING|tier=" work/seedtest-$SID.log | cut -c1-260
echo "exit=$RC"
git -C /repo worktree remove --force $WT
