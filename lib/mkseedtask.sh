#!/bin/bash
# usage: mkseedtask.sh Cxx  -> creates worktree /tmp/seed-Cxx with TASK.md
p=$1
git -C /repo worktree add -q --detach /tmp/seed-$p HEAD || exit 1
python3 - "$p" <<'PY'
import sys
p=sys.argv[1]
t=open('/verif/work/seedprompts/TEMPLATE.txt').read().replace('{WT}','/tmp/seed-'+p).replace('{PROP}',open('/verif/work/seedprompts/'+p+'.txt').read())
t+="\n\nNote: `go build ./...` of the unchanged tree fails only in three third-party avalanchego packages (Go 1.23 vs x/exp slices); ignore those. The machine is heavily shared: run only the tests of the packages you touch and their obvious dependants (not `./...`), with `-p 4` and timeouts. Remove any *_verif.go files' influence: they are build-tagged and irrelevant to you.\n"
open('/tmp/seed-'+p+'/TASK.md','w').write(t)
PY
echo ready /tmp/seed-$p
