#!/bin/bash
# usage: validate_seed.sh <worktree> <seeddir> <pkgdir(rel)> [demo file name in seeddir] [extra test pkgs...]
# Confirms: demo passes on clean tree; with patch: package builds, existing tests pass, demo fails.
set -u
WT=$1; SD=$2; PKG=$3; DEMO=${4:-demo_test.go}; shift 4 || true
EXTRA="$@"
export GOFLAGS=-mod=mod GOPROXY=off GOSUMDB=off GOTOOLCHAIN=local
cd $WT || exit 2
git checkout -q -- . ; rm -f $PKG/zz_seed_*_test.go
NEWDIR=0; [ -d $PKG ] || { mkdir -p $PKG; NEWDIR=1; }
BASEPKG=./$PKG/; [ $NEWDIR = 1 ] && BASEPKG=""
NAMES=$(grep -ohE '^func (Test[A-Za-z0-9_]+)' $SD/*_test.go | awk '{print $2}' | paste -sd'|')
[ -n "$NAMES" ] || NAMES='Seed|Demo|seed|demo'
run() { timeout 1200 go test -vet=off -count=1 -p 4 "$@" 2>&1 | tail -5; return ${PIPESTATUS[0]}; }
echo "== existing tests, clean tree"; run $BASEPKG $EXTRA; R0=$?
for f in $SD/*_test.go; do cp $f $PKG/zz_seed_$(basename $f); done
echo "== demo on clean tree (expect pass)"; run ./$PKG/ -run "^($NAMES)\$"; R1=$?
git apply $SD/patch.diff || { echo "PATCH DOES NOT APPLY"; exit 3; }
echo "== demo with patch (expect FAIL)"; run ./$PKG/ -run "^($NAMES)\$"; R2=$?
rm -f $PKG/zz_seed_*_test.go
echo "== existing tests with patch (expect pass)"; run $BASEPKG $EXTRA; R3=$?
git checkout -q -- .; [ $NEWDIR = 1 ] && rm -rf $PKG
echo "RESULT clean_tests=$R0 demo_clean=$R1 demo_patched=$R2 tests_patched=$R3"
[ $R0 = 0 ] && [ $R1 = 0 ] && [ $R2 != 0 ] && [ $R3 = 0 ] && echo VALID || echo INVALID
