"""Shared driver for the per-property checks (see DESIGN.md sections 2, 3, 11).

A property plugin props/Cxx.py defines SPEC (a dict) and optional hooks:

  SPEC = {
    'id': 'C20',
    'harness': 'hC20',                  # Go command under harness/cmd (None: no Go side)
    'coq_dir': 'C20',                   # coq/theories/<coq_dir>/{Model,Check,Properties,...}.v
    'theorems': ['C20_decode_recode', ...],   # must all be proved in Properties.v and Print-Assumption'ed
    'allowed_axioms': [],               # names Print Assumptions may list for this property
    'shard': 1000,                      # cases per cases_k.v
    'rule': '...',                      # how cases are generated / what is non-trivial
    'trusted_base': [...], 'assumptions': [...],
    'harness_args': {'quick': [...], 'thorough': [...]},   # optional extra argv
    'harness_timeout': {'quick': 300, 'thorough': 3000},
    'taskset': None,                    # optional
  }
  def extra(ctx) -> list of dict(kind, what, case)   # optional additional implementation-side checks
"""
import fcntl
import glob
import hashlib
import importlib.util
import json
import os
import re
import shutil
import subprocess
import sys
import time
from concurrent.futures import ThreadPoolExecutor

VERIF = os.path.dirname(os.path.dirname(os.path.abspath(__file__)))
REPO = os.environ.get('VERIF_REPO', '/repo')
COQ = os.path.join(VERIF, 'coq')
HARNESS = os.path.join(VERIF, 'harness')
WORK = os.path.join(VERIF, 'work')
EVID = os.path.join(VERIF, 'evidence')
GOENV = dict(os.environ, GOFLAGS='-mod=mod', GOPROXY='off', GOSUMDB='off', GOTOOLCHAIN='local')

FORBIDDEN = re.compile(
    r'\b(Admitted|admit|Axiom|Axioms|Parameter|Parameters|Conjecture|Conjectures)\b'
    r'|Admit\s+Obligations|Unset\s+Guard|bypass_check|type-in-type|impredicative-set'
    r'|Unset\s+Positivity|Unset\s+Universe\s+Checking|native_compute')

COQ_KERNEL = 'Coq 8.16.1 kernel (coqc, full .vo build; vm_compute used, native_compute not used)'


def log(msg):
    print(msg, flush=True)


def strip_comments(src):
    """Remove (possibly nested) Coq comments and string literals."""
    out = []
    depth = 0
    i = 0
    n = len(src)
    instr = False
    while i < n:
        if instr:
            if src[i] == '"':
                instr = False
            i += 1
            continue
        if src.startswith('(*', i):
            depth += 1
            i += 2
            continue
        if depth and src.startswith('*)', i):
            depth -= 1
            i += 2
            continue
        if depth == 0:
            if src[i] == '"':
                instr = True
                i += 1
                continue
            out.append(src[i])
        i += 1
    return ''.join(out)


class Lock:
    def __init__(self, name):
        os.makedirs(WORK, exist_ok=True)
        self.path = os.path.join(WORK, '.' + name + '.lock')

    def __enter__(self):
        self.f = open(self.path, 'w')
        fcntl.flock(self.f, fcntl.LOCK_EX)
        return self

    def __exit__(self, *a):
        fcntl.flock(self.f, fcntl.LOCK_UN)
        self.f.close()


# --------------------------------------------------------------------------- Coq side

def coq_files():
    fs = sorted(glob.glob(os.path.join(COQ, 'theories', '**', '*.v'), recursive=True))
    return [os.path.relpath(f, COQ) for f in fs]


def coq_prepare():
    """(Re)generate _CoqProject and Makefile.coq when the file list changed."""
    base = open(os.path.join(COQ, '_CoqProject.in')).read()
    want = base + '\n'.join(coq_files()) + '\n'
    cp = os.path.join(COQ, '_CoqProject')
    mk = os.path.join(COQ, 'Makefile.coq')
    cur = open(cp).read() if os.path.exists(cp) else ''
    if cur != want or not os.path.exists(mk):
        open(cp, 'w').write(want)
        subprocess.run(['coq_makefile', '-f', '_CoqProject', '-o', 'Makefile.coq'], cwd=COQ,
                       check=True, stdout=subprocess.DEVNULL, stderr=subprocess.DEVNULL)


def coq_make(targets, timeout=3000, keep_going=False):
    """Full .vo build of the given targets (None = all). Returns (ok, log)."""
    with Lock('coq'):
        coq_prepare()
        cmd = ['make', '-f', 'Makefile.coq', '-j16']
        if keep_going:
            cmd.append('-k')
        if targets:
            cmd += targets
        try:
            p = subprocess.run(cmd, cwd=COQ, stdout=subprocess.PIPE, stderr=subprocess.STDOUT,
                               timeout=timeout, text=True)
            return p.returncode == 0, p.stdout
        except subprocess.TimeoutExpired as e:
            out = e.stdout or ''
            if isinstance(out, bytes):
                out = out.decode('utf8', 'replace')
            return False, out + '\nTIMEOUT'


def coq_dep_closure(vfile):
    """Transitive closure of theories/ files that vfile depends on (incl. itself)."""
    seen = set()
    todo = [vfile]
    while todo:
        f = todo.pop()
        if f in seen or not os.path.exists(os.path.join(COQ, f)):
            continue
        seen.add(f)
        src = strip_comments(open(os.path.join(COQ, f)).read())
        for m in re.finditer(r'From\s+C33\s+Require\s+(?:Import\s+|Export\s+)?([\w.\s]+?)\.\s', src + ' '):
            for mod in m.group(1).split():
                todo.append('theories/' + mod.replace('.', '/') + '.v')
        for m in re.finditer(r'Require\s+(?:Import|Export)?\s*((?:C33\.[\w.]+\s*)+)\.', src):
            for mod in m.group(1).split():
                todo.append('theories/' + mod[len('C33.'):].replace('.', '/') + '.v')
    return sorted(seen)


def scan_forbidden(files):
    hits = []
    for f in files:
        src = strip_comments(open(os.path.join(COQ, f)).read())
        for ln, line in enumerate(src.split('\n'), 1):
            if FORBIDDEN.search(line):
                hits.append('%s:%d: %s' % (f, ln, line.strip()[:100]))
        # Variable / Hypothesis outside a Section
        depth = 0
        for ln, line in enumerate(src.split('\n'), 1):
            s = line.strip()
            if re.match(r'(Section|Module)\s+\w+', s) and ':=' not in s:
                if s.startswith('Section'):
                    depth += 1
            elif re.match(r'End\s+\w+\s*\.', s) and depth > 0:
                depth -= 1
            elif depth == 0 and re.match(r'(Variable|Variables|Hypothesis|Hypotheses|Context)\b', s):
                hits.append('%s:%d: %s outside Section' % (f, ln, s[:80]))
    return hits


def count_obligations(files):
    n = 0
    for f in files:
        src = strip_comments(open(os.path.join(COQ, f)).read())
        n += len(re.findall(r'^\s*(?:Local\s+|Global\s+|Program\s+)?(?:Theorem|Lemma|Corollary|Example|Fact|Remark|Proposition)\s+\w+',
                            src, re.M))
    return n


def print_assumptions(coq_dir):
    """Compile Properties.v to a scratch .vo and parse its Print Assumptions output.
    Returns (ok, {theorem: [axiom names]}, raw)."""
    props = 'theories/%s/Properties.v' % coq_dir
    outdir = os.path.join(WORK, coq_dir)
    os.makedirs(outdir, exist_ok=True)
    os.makedirs(os.path.join(outdir, 'pa'), exist_ok=True)
    scratch = os.path.join(outdir, 'pa', 'Properties.vo')
    p = subprocess.run(['coqc', '-q', '-Q', 'theories', 'C33', '-o', scratch, props], cwd=COQ,
                       stdout=subprocess.PIPE, stderr=subprocess.STDOUT, text=True, timeout=1200)
    raw = p.stdout
    for ext in ('.vo', '.glob', '.vos', '.vok'):
        try:
            os.remove(scratch[:-3] + ext)
        except OSError:
            pass
    if p.returncode != 0:
        return False, {}, raw
    src = strip_comments(open(os.path.join(COQ, props)).read())
    order = re.findall(r'Print\s+Assumptions\s+(\w+)\s*\.', src)
    # split output into blocks: each is "Closed under the global context" or "Axioms:\n..."
    blocks = []
    cur = None
    for line in raw.split('\n'):
        if line.startswith('Closed under the global context'):
            if cur is not None:
                blocks.append(cur)
                cur = None
            blocks.append([])
        elif line.startswith('Axioms:'):
            if cur is not None:
                blocks.append(cur)
            cur = []
        elif cur is not None:
            m = re.match(r'^([A-Za-z_][\w.\']*)\s*(:|$)', line)
            if m and not line.startswith(' '):
                cur.append(m.group(1))
    if cur is not None:
        blocks.append(cur)
    if len(blocks) != len(order):
        return False, {}, raw + '\n[could not match Print Assumptions blocks: %d vs %d]' % (len(blocks), len(order))
    return True, dict(zip(order, blocks)), raw


def proved_theorems(coq_dir):
    src = strip_comments(open(os.path.join(COQ, 'theories/%s/Properties.v' % coq_dir)).read())
    return re.findall(r'(?:Theorem|Example|Corollary)\s+(\w+)', src)


# --------------------------------------------------------------------------- Go side

ALT = REPO != '/repo'   # self-validation only: build against a scratch copy of the repository


def bin_name(cmdname):
    return cmdname + ('.alt' if ALT else '')


def go_build(cmdname, timeout=1500):
    with Lock('go'):
        os.makedirs(os.path.join(HARNESS, 'bin'), exist_ok=True)
        cmd = ['go', 'build', '-tags', 'verif']
        if ALT:
            mod = open(os.path.join(HARNESS, 'go.mod')).read().replace('=> /repo', '=> ' + REPO)
            open(os.path.join(HARNESS, 'go.alt.mod'), 'w').write(mod)
            shutil.copyfile(os.path.join(REPO, 'go.sum'), os.path.join(HARNESS, 'go.alt.sum'))
            cmd += ['-modfile=go.alt.mod']
        else:
            shutil.copyfile(os.path.join(REPO, 'go.sum'), os.path.join(HARNESS, 'go.sum'))
        cmd += ['-o', 'bin/' + bin_name(cmdname), './cmd/' + cmdname]
        p = subprocess.run(cmd, cwd=HARNESS, env=GOENV, stdout=subprocess.PIPE, stderr=subprocess.STDOUT,
                           text=True, timeout=timeout)
    return p.returncode == 0, p.stdout


def run_harness(cmdname, outdir, seed, tier, extra_args=(), replay=None, timeout=600, taskset=None, env=None):
    os.makedirs(outdir, exist_ok=True)
    cmd = [os.path.join(HARNESS, 'bin', bin_name(cmdname)), '--seed', str(seed), '--tier', tier, '--out', outdir]
    if replay:
        cmd += ['--replay', replay]
    cmd += list(extra_args)
    if taskset:
        cmd = ['taskset', '-c', taskset] + cmd
    e = dict(GOENV)
    if env:
        e.update(env)
    try:
        p = subprocess.run(cmd, cwd=outdir, env=e, stdout=subprocess.PIPE, stderr=subprocess.STDOUT,
                           text=True, timeout=timeout, errors='replace')
        return p.returncode, p.stdout
    except subprocess.TimeoutExpired as ex:
        out = ex.stdout
        if isinstance(out, bytes):
            out = out.decode('utf8', 'replace')
        return 124, (out or '') + '\nHARNESS TIMEOUT'


def load_cases(outdir):
    cases = []
    path = os.path.join(outdir, 'cases.jsonl')
    if not os.path.exists(path):
        return cases
    with open(path) as f:
        for line in f:
            line = line.strip()
            if line:
                try:
                    cases.append(json.loads(line))
                except ValueError:
                    break   # harness was killed in the middle of a line
    return cases


# --------------------------------------------------------------------------- model evaluation in the kernel

VERDICT_RE = re.compile(r'\(\s*(\d+)(?:%N)?\s*,\s*\(?\s*\(?\s*(true|false)\s*,\s*(true|false)\s*\)?\s*,\s*(\d+)(?:%N)?\s*\)?\s*\)')


def eval_shard(coq_dir, outdir, k, cases, spec):
    mod = spec.get('check_module', 'C33.%s.Check' % coq_dir)
    imports = spec.get('check_imports', 'From Coq Require Import List NArith ZArith String Ascii Bool.\n'
                                        'From C33 Require Import Lib.Harness.\n')
    name = 'cases_%d' % k
    path = os.path.join(outdir, name + '.v')
    with open(path, 'w') as f:
        f.write(imports)
        f.write('Require Import %s.\nImport ListNotations.\nOpen Scope string_scope.\n' % mod)
        f.write(spec.get('check_preamble', ''))
        f.write('Definition cases : list (N * %s) := [\n' % spec.get('case_type', 'case'))
        f.write(';\n'.join('(%d%%N, %s)' % (c['id'], c['coq']) for c in cases))
        f.write('\n].\n')
        f.write('Definition R := Eval vm_compute in bad_cases %s cases.\nPrint R.\n' % spec.get('check_fn', 'check_case'))
    t0 = time.time()
    try:
        p = subprocess.run(['coqc', '-q', '-Q', os.path.join(COQ, 'theories'), 'C33', name + '.v'], cwd=outdir,
                           stdout=subprocess.PIPE, stderr=subprocess.STDOUT, text=True,
                           timeout=spec.get('coqc_timeout', 1500))
        out, rc = p.stdout, p.returncode
    except subprocess.TimeoutExpired:
        out, rc = 'TIMEOUT', 124
    for ext in ('.vo', '.glob', '.vos', '.vok', '.aux'):
        for fn in (name + ext, '.' + name + ext):
            try:
                os.remove(os.path.join(outdir, fn))
            except OSError:
                pass
    if rc != 0 or 'R = ' not in out:
        return {'error': out[-3000:], 'bad': [], 'n': len(cases), 'wall': time.time() - t0, 'file': path}
    body = out[out.index('R = '):]
    bad = [(int(a), b == 'true', c == 'true', int(d)) for a, b, c, d in VERDICT_RE.findall(body)]
    # sanity: "R = []" iff no verdict tuples
    empty = re.search(r'R\s*=\s*\[\s*\]', body) is not None
    if empty != (len(bad) == 0):
        return {'error': 'unparsable result: ' + body[:2000], 'bad': [], 'n': len(cases), 'wall': time.time() - t0, 'file': path}
    os.remove(path)
    return {'error': None, 'bad': bad, 'n': len(cases), 'wall': time.time() - t0}


def eval_cases(coq_dir, outdir, cases, spec, jobs=16):
    size = spec.get('shard', 1000)
    shards = [cases[i:i + size] for i in range(0, len(cases), size)]
    results = []
    with ThreadPoolExecutor(max_workers=jobs) as ex:
        futs = [ex.submit(eval_shard, coq_dir, outdir, k, sh, spec) for k, sh in enumerate(shards)]
        for f in futs:
            results.append(f.result())
    bad = []
    errors = []
    for r in results:
        bad += r['bad']
        if r['error']:
            errors.append(r['error'])
    return bad, errors


# --------------------------------------------------------------------------- known findings

def known_findings(pid):
    """Entries for pid from KNOWN_FINDINGS.json (canonical, committed) and known_findings/<pid>.json."""
    out = {}
    for path in (os.path.join(VERIF, 'KNOWN_FINDINGS.json'), os.path.join(VERIF, 'known_findings', pid + '.json')):
        if os.path.exists(path):
            for e in json.load(open(path)).get('findings', []):
                if e.get('property') == pid:
                    out[e.get('id')] = e
    return list(out.values())


# --------------------------------------------------------------------------- evidence / driver

def write_evidence(pid, ev):
    if ALT:   # never overwrite real evidence with a run against a scratch copy
        json.dump(ev, open(os.path.join(WORK, pid, 'evidence-alt.json'), 'w'), indent=1, sort_keys=True)
        return
    os.makedirs(EVID, exist_ok=True)
    tmp = os.path.join(EVID, pid + '.json.tmp')
    json.dump(ev, open(tmp, 'w'), indent=1, sort_keys=True)
    os.replace(tmp, os.path.join(EVID, pid + '.json'))


def write_replay(pid, n, obj):
    d = os.path.join(WORK, pid)
    os.makedirs(d, exist_ok=True)
    path = os.path.join(d, 'replay-%d.json' % n)
    json.dump(obj, open(path, 'w'), indent=1)
    return path


def load_plugin(pid):
    path = os.path.join(VERIF, 'props', pid + '.py')
    spec = importlib.util.spec_from_file_location('prop_' + pid, path)
    mod = importlib.util.module_from_spec(spec)
    spec.loader.exec_module(mod)
    return mod


class Ctx:
    pass


def run_check(pid, tier, seed, replay=None):
    # one run per property at a time (work/<pid>/ and evidence/<pid>.json are per property)
    with Lock('run-' + pid):
        try:
            return _run_check(pid, tier, seed, replay)
        except Exception:
            import traceback
            tb = traceback.format_exc()
            path = write_replay(pid, 99, {'property': pid, 'kind': 'no-failing-input-found',
                                          'theorem_or_correspondence': 'check driver crashed while checking %s (the property is not shown on this tree)' % pid,
                                          'what': tb[-3000:], 'seed': seed, 'tier': tier, 'case': None})
            log('VIOLATION property=%s replay=%s no-failing-input-found' % (pid, path))
            return 1


def _run_check(pid, tier, seed, replay=None):
    t0 = time.time()
    mod = load_plugin(pid)
    spec = mod.SPEC
    coq_dir = spec.get('coq_dir', pid)
    outdir = os.path.join(WORK, pid)
    os.makedirs(outdir, exist_ok=True)
    for old in glob.glob(os.path.join(outdir, 'replay-*.json')) + glob.glob(os.path.join(outdir, 'cases_*.v')):
        if replay and os.path.abspath(old) == os.path.abspath(replay):
            continue
        os.remove(old)
    violations = []      # dicts: kind, theorem_or_correspondence, case, what, found(bool)
    known_lines = []
    notes = []

    # ---- 1. proof obligations
    closure = coq_dep_closure('theories/%s/Properties.v' % coq_dir)
    check_closure = coq_dep_closure('theories/%s/Check.v' % coq_dir)
    forb = scan_forbidden(sorted(set(closure) | set(check_closure)))
    targets = ['theories/%s/Properties.vo' % coq_dir]
    has_check = os.path.exists(os.path.join(COQ, 'theories/%s/Check.v' % coq_dir))
    if has_check:
        targets.append('theories/%s/Check.vo' % coq_dir)
    ok_build, buildlog = coq_make(targets, timeout=spec.get('coq_build_timeout', 3000))
    proof_problems = []
    axioms = {}
    if forb:
        proof_problems.append('forbidden construct(s): ' + '; '.join(forb[:5]))
    if not ok_build:
        m = re.findall(r'File "([^"]+)", line (\d+)', buildlog)
        proof_problems.append('Coq build failed' + (' at %s:%s' % m[-1] if m else '') + ': ' + buildlog[-600:].replace('\n', ' | '))
    else:
        ok_pa, axioms, raw = print_assumptions(coq_dir)
        if not ok_pa:
            proof_problems.append('Print Assumptions run failed: ' + raw[-400:].replace('\n', ' | '))
        else:
            allowed = set(spec.get('allowed_axioms', []))
            for thm in spec.get('theorems', []):
                if thm not in axioms:
                    proof_problems.append('theorem %s is not proved/printed in %s/Properties.v' % (thm, coq_dir))
            for thm, ax in axioms.items():
                extra_ax = [a for a in ax if a not in allowed]
                if extra_ax:
                    proof_problems.append('theorem %s depends on unexpected axioms %s' % (thm, extra_ax))
    obligations = count_obligations(closure)
    discharged = obligations if not proof_problems else 0

    # thorough tier: independent re-check of the compiled theorems (and everything they depend on) by coqchk
    coqchk_report = None
    if tier == 'thorough' and ok_build and not replay and not os.environ.get('VERIF_NO_COQCHK'):
        try:
            with Lock('coq'):
                pc = subprocess.run(['coqchk', '-silent', '-o', '-Q', 'theories', 'C33', 'C33.%s.Properties' % coq_dir], cwd=COQ,
                                    stdout=subprocess.PIPE, stderr=subprocess.STDOUT, text=True, timeout=5400)
            out = pc.stdout
            ax = []
            if '* Axioms:' in out:
                seg = out[out.index('* Axioms:'):]
                for line in seg.split('\n')[1:]:
                    if line.startswith('*') or not line.strip():
                        break
                    ax.append(line.strip())
            ours = [a for a in ax if a.startswith('C33.')]
            coqchk_report = {'exit': pc.returncode, 'axioms_of_loaded_libraries': ax, 'axioms_in_C33': ours}
            if pc.returncode != 0 or ours:
                proof_problems.append('coqchk failed or found axioms in the development: exit %d %s %s' % (pc.returncode, ours, out[-300:].replace('\n', ' | ')))
                discharged = 0
        except subprocess.TimeoutExpired:
            coqchk_report = {'exit': 'timeout'}
            notes.append('coqchk timed out (90 min); not counted as a failure')

    # if only the proofs are broken, the model may still compile: try to build Check.vo alone
    check_ok = ok_build
    if not ok_build and has_check:
        check_ok, _ = coq_make(['theories/%s/Check.vo' % coq_dir])

    # ---- 2./3. implementation side
    cases = []
    harness_out = ''
    seeds_used = [seed]
    bad = []
    eval_errors = []
    hname = spec.get('harness')
    by_id = {}

    def one_round(sd, sub, rp=None):
        od = os.path.join(outdir, sub) if sub else outdir
        args = list(spec.get('harness_args', {}).get(tier, []))
        rc, out = run_harness(hname, od, sd, tier, args, replay=rp,
                              timeout=max(spec.get('harness_timeout', {}).get(tier, 0), 1500 if tier == 'quick' else 7200),
                              taskset=spec.get('taskset'), env=spec.get('harness_env'))
        cs = load_cases(od)
        return rc, out, cs

    if hname:
        okb, blog = go_build(hname)
        if not okb:
            # the implementation no longer builds with the harness: the tie cannot be checked
            violations.append({'kind': 'no-failing-input-found', 'theorem_or_correspondence':
                               'harness build (cmd/%s) against /repo' % hname, 'what': blog[-1500:], 'case': None})
        else:
            rc, harness_out, cases = one_round(seed, '', replay)
            if rc != 0:
                violations.append({'kind': 'no-failing-input-found' if not cases else 'failing-input',
                                   'theorem_or_correspondence': 'harness run cmd/%s exited %d' % (hname, rc),
                                   'what': harness_out[-2000:], 'case': cases[-1] if cases else None})
            by_id = {c['id']: c for c in cases}
            if cases and check_ok and has_check:
                bad, eval_errors = eval_cases(coq_dir, outdir, cases, spec)
            elif cases and has_check and not check_ok:
                notes.append('model does not compile: cases were not evaluated')

    for e in eval_errors:
        violations.append({'kind': 'no-failing-input-found', 'theorem_or_correspondence': 'evaluation of %s.Check in the kernel' % coq_dir,
                           'what': e[-1500:], 'case': None})

    # ---- 4. classify
    kf = {e.get('code'): e for e in known_findings(pid)}
    kf_hits = {}
    s_bad = []   # spec violated (not a known finding)
    m_bad = []   # model disagreement only
    for (i, mok, sok, code) in bad:
        c = by_id.get(i)
        if not sok:
            ent = kf.get(code) if code else None
            if ent and ent.get('status') == 'open' and mok:
                kf_hits.setdefault(code, []).append(i)
            else:
                s_bad.append((i, mok, sok, code))
        elif not mok:
            m_bad.append((i, mok, sok, code))

    # optional plugin checks on the implementation alone (Go-side oracles, process-level checks)
    ctx = Ctx()
    ctx.pid, ctx.tier, ctx.seed, ctx.outdir, ctx.cases, ctx.spec, ctx.replay = pid, tier, seed, outdir, cases, spec, replay
    ctx.harness_out = harness_out
    ctx.run_harness = run_harness
    ctx.notes = notes
    extra_cov = {}
    if hasattr(mod, 'extra') and not replay:
        try:
            res = mod.extra(ctx)
        except Exception as ex:  # a crashing plugin is a broken check, not a pass
            res = {'violations': [{'kind': 'no-failing-input-found', 'theorem_or_correspondence': 'plugin extra() crashed', 'what': repr(ex), 'case': None}]}
        if res:
            for v in res.get('violations', []):
                violations.append(v)
            for k in res.get('known', []):
                known_lines.append(k)
            extra_cov = res.get('coverage', {})

    def smallest(lst):
        return min(lst, key=lambda t: len(by_id[t[0]]['coq']) if t[0] in by_id else 1 << 30)

    if s_bad:
        i, mok, sok, code = smallest(s_bad)
        violations.append({'kind': 'failing-input', 'theorem_or_correspondence':
                           'spec oracle of %s (impl observable contradicts the property)%s' % (coq_dir, '' if mok else '; model also disagrees'),
                           'what': '%d case(s) violate the spec; smallest shown' % len(s_bad), 'case': by_id.get(i),
                           'verdict': {'model_agrees': mok, 'spec_holds': sok, 'kf_code': code}})
    elif m_bad and not replay:
        # correspondence broken, property not contradicted so far: extra search budget (4 more seeds)
        found = None
        if hname:
            for extra_seed in range(1, 5):
                sd = seed * 1000003 + extra_seed
                seeds_used.append(sd)
                rc, out2, cs2 = one_round(sd, 'search%d' % extra_seed)
                if not cs2:
                    continue
                bad2, err2 = eval_cases(coq_dir, os.path.join(outdir, 'search%d' % extra_seed), cs2, spec)
                id2 = {c['id']: c for c in cs2}
                sb = [(i, a, b, cd) for (i, a, b, cd) in bad2 if not b and not (kf.get(cd) and kf[cd].get('status') == 'open' and a)]
                if sb:
                    i, a, b, cd = min(sb, key=lambda t: len(id2[t[0]]['coq']))
                    found = (id2[i], a, b, cd, sd)
                    break
        if found:
            c, a, b, cd, sd = found
            violations.append({'kind': 'failing-input', 'theorem_or_correspondence': 'spec oracle of %s (found by extended search, seed %d)' % (coq_dir, sd),
                               'what': 'correspondence broke and the search found an input on which the property fails', 'case': c,
                               'verdict': {'model_agrees': a, 'spec_holds': b, 'kf_code': cd}})
        else:
            i, mok, sok, code = smallest(m_bad)
            violations.append({'kind': 'no-failing-input-found', 'theorem_or_correspondence':
                               'correspondence C33.%s.Model vs /repo (%d of %d cases disagree; property no longer shown)' % (coq_dir, len(m_bad), len(cases)),
                               'what': 'model and implementation disagree; no input violating the property found in %d extra rounds' % (len(seeds_used) - 1),
                               'case': by_id.get(i), 'verdict': {'model_agrees': mok, 'spec_holds': sok, 'kf_code': code}})
    elif m_bad and replay:
        i, mok, sok, code = m_bad[0]
        violations.append({'kind': 'no-failing-input-found', 'theorem_or_correspondence': 'correspondence C33.%s.Model vs /repo' % coq_dir,
                           'what': 'replayed case: model and implementation disagree', 'case': by_id.get(i),
                           'verdict': {'model_agrees': mok, 'spec_holds': sok, 'kf_code': code}})

    if proof_problems:
        # a proof obligation no longer checks. If the search above found a failing input it is already reported.
        if not any(v['kind'] == 'failing-input' for v in violations):
            thm = '; '.join(proof_problems)
            violations.append({'kind': 'no-failing-input-found', 'theorem_or_correspondence': 'proof obligations of %s: %s' % (coq_dir, thm[:1500]),
                               'what': 'a theorem of this property no longer checks', 'case': None})

    for code, ids in sorted(kf_hits.items()):
        known_lines.append('KNOWN-FINDING: property=%s %s [%d case(s) this run, e.g. case %d]' % (pid, kf[code]['what'], len(ids), ids[0]))

    # ---- 5. output
    nviol = 0
    replay_paths = []
    for n, v in enumerate(violations):
        obj = {'property': pid, 'kind': v['kind'], 'theorem_or_correspondence': v['theorem_or_correspondence'],
               'what': v.get('what'), 'seed': seed, 'tier': tier, 'case': v.get('case'), 'verdict': v.get('verdict'),
               'replay_cmd': './check %s --replay <this file>' % pid}
        path = write_replay(pid, n, obj)
        replay_paths.append(path)
        tail = ' no-failing-input-found' if v['kind'] == 'no-failing-input-found' else ''
        log('VIOLATION property=%s replay=%s%s' % (pid, path, tail))
        nviol += 1
    for k in known_lines:
        log(k)

    # ---- 6. evidence
    kinds = {}
    for c in cases:
        kinds[c.get('kind', '?')] = kinds.get(c.get('kind', '?'), 0) + 1
    distinct = len({c['coq'] for c in cases if c.get('nontrivial')})
    samples = []
    seen_k = set()
    for c in cases:
        if c.get('kind') not in seen_k and len(samples) < 6:
            seen_k.add(c.get('kind'))
            s = {'kind': c.get('kind'), 'input': c.get('input'), 'impl': c.get('impl')}
            js = json.dumps(s)
            if len(js) > 3000:
                s = {'kind': c.get('kind'), 'coq_prefix': c['coq'][:1500]}
            samples.append(s)
    if not samples:
        samples = [{'note': 'no generated cases in this run', 'proof_obligations': spec.get('theorems', [])}]
    ax_list = sorted({a for ax in axioms.values() for a in ax})
    tb = [COQ_KERNEL,
          'axioms reported by Print Assumptions for %s: %s' % (', '.join(sorted(axioms)) or '(none compiled)', ', '.join(ax_list) if ax_list else 'none (Closed under the global context)'),
          'no extraction: the model is evaluated by vm_compute inside coqc on the cases the Go harness wrote (cases_k.v)',
          'hand-written Gallina model C33.%s.Model tied to /repo by this run\'s correspondence check; Go harness cmd/%s + hlib (generators, canonicalisation); Python driver lib/vcheck.py (sharding, parsing of the printed verdict list)' % (coq_dir, hname)]
    tb += spec.get('trusted_base', [])
    cov = {
        'obligations': max(obligations, 1), 'discharged': discharged,
        'checker_cmd': 'make -f Makefile.coq -j16 %s && coqc -Q theories C33 theories/%s/Properties.v (Print Assumptions) ; cases: coqc cases_k.v (vm_compute of bad_cases check_case)' % (' '.join(targets), coq_dir),
        'trusted_base': tb,
        'theorems': sorted(axioms) if axioms else spec.get('theorems', []),
        'evaluations': len(cases), 'distinct_nontrivial': distinct,
        'rule': spec.get('rule', ''), 'samples': samples, 'input_distribution': kinds,
        'model_disagreements': len(m_bad), 'spec_violations': len(s_bad),
        'known_finding_cases': {str(k): len(v) for k, v in kf_hits.items()},
        'seeds_used': seeds_used, 'notes': notes, 'proof_problems': proof_problems,
        'dep_closure': closure,
        'coqchk': coqchk_report,
    }
    cov.update(extra_cov)
    ev = {'property_id': pid, 'tier': tier, 'seed': seed, 'level': 'proof', 'coverage': cov,
          'assumptions': spec.get('assumptions', []), 'wall_s': round(time.time() - t0, 2), 'violations': nviol,
          'known_findings_printed': known_lines}
    if not replay:
        write_evidence(pid, ev)
    log('%s tier=%s seed=%d: theorems=%d obligations=%d discharged=%d cases=%d model-disagreements=%d spec-violations=%d known=%d violations=%d wall=%.1fs'
        % (pid, tier, seed, len(axioms), obligations, discharged, len(cases), len(m_bad), len(s_bad), len(known_lines), nviol, time.time() - t0))
    if replay and cases:
        log('replayed case: ' + json.dumps({'input': cases[0].get('input'), 'impl': cases[0].get('impl')})[:3000])
        log('verdict (case id, model agrees, spec holds, known-finding code): %s' % (bad if bad else 'all ok'))
    return 1 if nviol else 0


def claimed_props():
    out = []
    for f in sorted(glob.glob(os.path.join(VERIF, 'props', 'C*.py'))):
        pid = os.path.basename(f)[:-3]
        try:
            sp = load_plugin(pid).SPEC
        except Exception:
            continue
        if sp.get('claimed', True):
            out.append((pid, sp))
    return out


def setup():
    """Build everything the claimed checks need: their Coq targets (full .vo build) and their harness commands."""
    t0 = time.time()
    rc = 0
    props = claimed_props()
    targets = []
    for pid, sp in props:
        d = sp.get('coq_dir', pid)
        for f in ('Properties', 'Check'):
            if os.path.exists(os.path.join(COQ, 'theories', d, f + '.v')):
                targets.append('theories/%s/%s.vo' % (d, f))
    ok, out = coq_make(targets, timeout=10800, keep_going=True)
    log('coq build of %d targets for %d claimed properties: %s (%.0fs)' % (len(targets), len(props), 'ok' if ok else 'FAILED', time.time() - t0))
    if not ok:
        log(out[-3000:])
        rc = 1
    t1 = time.time()
    cmds = sorted({sp.get('harness') for _, sp in props if sp.get('harness')} | {'hwarm'})
    for c in cmds:
        if not os.path.isdir(os.path.join(HARNESS, 'cmd', c)):
            continue
        okb, blog = go_build(c)
        if not okb:
            log('go build %s FAILED:\n%s' % (c, blog[-2000:]))
            rc = 1
    log('go build of %d harness commands: %.0fs' % (len(cmds), time.time() - t1))
    return rc
