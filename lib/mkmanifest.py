#!/usr/bin/env python3
"""Regenerate MANIFEST.json from props/*.py (SPEC['manifest'] fields) and NOT_APPLICABLE.json."""
import glob
import importlib.util
import json
import os
import subprocess

V = os.path.dirname(os.path.dirname(os.path.abspath(__file__)))
ALL = ['C%02d' % i for i in range(1, 40)]


def load(path):
    spec = importlib.util.spec_from_file_location('p', path)
    mod = importlib.util.module_from_spec(spec)
    spec.loader.exec_module(mod)
    return mod


def main():
    checks = []
    claimed = []
    for pid in ALL:
        path = os.path.join(V, 'props', pid + '.py')
        if not os.path.exists(path):
            continue
        sp = load(path).SPEC
        if not sp.get('claimed', True):
            continue
        mf = sp.get('manifest', {})
        claimed.append(pid)
        checks.append({
            'property_id': pid,
            'quick_cmd': './check %s --tier quick' % pid,
            'thorough_cmd': './check %s --tier thorough' % pid,
            'evidence_file': 'evidence/%s.json' % pid,
            'replay_cmd_template': './check %s --replay {path}' % pid,
            'engine': 'coq-model+correspondence',
            'level_claimed': {
                'category': 'proof',
                'text': mf.get('level_text', 'Theorems about a hand-written Gallina model, tied to /repo by differential execution on every run.'),
                'design_ref': mf.get('design_ref', 'DESIGN.md section 7, ' + pid),
            },
            'level_note': mf.get('level_note', '; '.join(sp.get('trusted_base', []) + sp.get('assumptions', []))),
            'technique': mf.get('technique', 'machine-checked proof in Coq 8.16 about an executable model + in-kernel correspondence check against the Go code'),
        })
    na_path = os.path.join(V, 'NOT_APPLICABLE.json')
    na_reasons = json.load(open(na_path)) if os.path.exists(na_path) else {}
    na = []
    for pid in ALL:
        if pid not in claimed:
            na.append({'property_id': pid, 'reason': na_reasons.get(pid, 'not yet covered by the Coq development in this tree (no model/theorem/correspondence committed); see DESIGN.md section 7 for the planned design')})
    try:
        hooks_commits = subprocess.run(['git', '-C', '/repo', 'log', '--reverse', '--format=%h', '--grep=^verif hook:'],
                                       stdout=subprocess.PIPE, text=True).stdout.split()
    except Exception:
        hooks_commits = []
    man = {
        'version': 1,
        'setup_cmd': './check --setup',
        'hooks': {
            'guard': 'verif',
            'enable': 'go build -tags verif (harness module /verif/harness with replace github.com/33cn/chain33 => /repo)',
            'baseline_off_cmd': 'cd /repo && go test -vet=off -count=1 -timeout 25m ./...',
            'source_commits': hooks_commits,
            'add_only': True,
        },
        'engines': [{
            'name': 'coq-model+correspondence',
            'path': 'check',
            'serves_properties': claimed,
            'kind_free_text': 'Coq 8.16.1 theorems over executable Gallina models (coq/theories/Cxx); Go harness (harness/cmd/hCxx) runs /repo on generated inputs/histories; the model and the spec oracle are evaluated on the same cases by vm_compute inside coqc; lib/vcheck.py compares and reports',
        }],
        'checks': checks,
        'notes': 'See DESIGN.md. KNOWN_FINDINGS.json lists recorded defects of the unchanged tree; seeded/ holds validated breaking changes used to test the checks.',
        'not_applicable': na,
    }
    json.dump(man, open(os.path.join(V, 'MANIFEST.json'), 'w'), indent=1)
    # canonical known-findings file = union of known_findings/*.json
    merged = []
    for f in sorted(glob.glob(os.path.join(V, 'known_findings', '*.json'))):
        merged += json.load(open(f)).get('findings', [])
    json.dump({'findings': merged}, open(os.path.join(V, 'KNOWN_FINDINGS.json'), 'w'), indent=1)
    print('claimed:', ' '.join(claimed))


if __name__ == '__main__':
    main()
