#!/bin/bash
# usage: import_seed.sh <pid> <letter> <worktree> <pkgdir> <needs text> <ran text>
PID=$1; L=$2; WT=$3; PKG=$4; NEEDS=$5; RAN=$6
D=/verif/seeded/$PID-$L; mkdir -p $D
cp $WT/SEED/$L/patch.diff $D/patch.diff
cp $WT/SEED/$L/*_test.go $D/ 2>/dev/null
cp $WT/SEED/$L/notes.md $D/notes.md 2>/dev/null
python3 - "$PID" "$L" "$PKG" "$NEEDS" "$RAN" > $D/meta.json <<'PY'
import json,sys
pid,l,pkg,needs,ran=sys.argv[1:6]
print(json.dumps({"id":pid+"-"+l,"property":pid,"breaks":pid,"demo_target":pkg+"/zz_seed_demo_test.go","needs_to_manifest":needs,
 "validated_by_coordinator":ran,"detected_by":None},indent=1))
PY
echo imported $D
