#!/bin/bash
# usage: seed_pipeline.sh <pid> <pkgdir> [extra test pkgs]   (expects /tmp/seed-<pid>/SEED/{A,B})
# validate both seeds, import the valid ones, run the property's check against each, record the outcome in meta.json
PID=$1; PKGS=$2; shift 2; EXTRA="$@"   # PKGS may be "pkgA,pkgB"
WT=/tmp/seed-$PID
for L in A B; do
  [ -f $WT/SEED/$L/patch.diff ] || continue
  PKG=${PKGS%%,*}; [ $L = B ] && PKG=${PKGS##*,}
  DEMO=$(cd $WT/SEED/$L && ls *_test.go 2>/dev/null | head -1)
  OUT=$(/verif/lib/validate_seed.sh $WT $WT/SEED/$L $PKG $DEMO $EXTRA 2>&1 | tail -2)
  echo "## $PID-$L validate: $OUT"
  echo "$OUT" | grep -q "^VALID" || { KEEP=1; continue; }
  NEEDS=$(python3 - "$WT/SEED/$L/notes.md" <<'PY'
import sys,re
t=open(sys.argv[1]).read()
m=re.search(r'(?is)(needs?[^\n]*manifest[^\n]*\n+)(.{0,500})',t)
s=(m.group(2) if m else t[:400])
print(' '.join(s.split())[:420])
PY
)
  /verif/lib/import_seed.sh $PID $L $WT $PKG "$NEEDS" "lib/validate_seed.sh in scratch worktree: existing tests of $PKG $EXTRA pass clean and patched; demo passes clean, fails patched" >/dev/null
  RES=$(/verif/lib/test_seed.sh $PID-$L 2>&1 | grep -v "^KNOWN")
  echo "$RES" | cut -c1-220
  python3 - "$PID-$L" "$RES" <<'PY'
import json,sys,re
sid,res=sys.argv[1],sys.argv[2]
p='/verif/seeded/%s/meta.json'%sid; m=json.load(open(p))
line=[l for l in res.split('\n') if 'tier=' in l]
viol=[l for l in res.split('\n') if l.startswith('VIOLATION')]
if viol:
    kind='no-failing-input-found' if 'no-failing-input-found' in viol[0] else 'failing-input'
    m['detected_by']='./check %s quick: VIOLATION %s (%s)'%(sid.split('-')[0],kind,(line[0].split(': ',1)[1] if line else '').strip()[:160])
else:
    m['detected_by']='NOT DETECTED by ./check %s quick (%s)'%(sid.split('-')[0],(line[0] if line else res[-200:]).strip()[:200])
m['checked_with']='lib/test_seed.sh %s (scratch worktree + VERIF_REPO)'%sid
json.dump(m,open(p,'w'),indent=1)
PY
done
[ -f $WT/SEED/PREEXISTING.md ] && cp $WT/SEED/PREEXISTING.md /verif/seeded/$PID-PREEXISTING.md
[ -n "$KEEP" ] && { echo "## $PID: worktree kept (an invalid seed needs a look)"; exit 0; }
git -C /repo worktree remove --force $WT
