SPEC = {
    'id': 'C06', 'harness': 'hC06', 'coq_dir': 'C06',
    'claimed': True,
    'theorems': [
        'C06_batch_is_fold', 'C06_read_your_writes', 'C06_read_after_batch',
        'C06_iter_refines', 'C06_iter_collect_spec', 'C06_seek_spec', 'C06_prefix_range',
        'C06_badger_iter_refines', 'C06_badger_iter_collect', 'C06_badger_seek_spec',
    ],
    'allowed_axioms': [],
    'shard': 45,
    'rule': 'one case = one operation history (2..22 ops: Set incl. nil/empty values, Delete, Batch of 1..5 mixed '
            'set/delete with repeated keys, Get, Iterator(start,end,reverse) with end = nil (prefix) / EmptyValue / bytes '
            '(incl. stored keys and, unrestricted stream only, the empty non-nil slice) followed by Rewind|Seek first and then '
            'Next/Seek/Rewind mixes and drains; two final full scans) run on one backend, from an empty store; keys 1..3 bytes over '
            'the alphabets {a,b}, {a,b,c,1}, {00,01,fe}, {00,ff,61}, {fe,ff}; the same history runs on memdb, leveldb and (alphabets '
            'without 0xff only, fewer histories) gobadgerdb. stream "inside": no stored key equals the resolved end bound and every '
            'Seek target is non-empty and inside [start,end) (calls are valid more often); stream "any": anything, incl. stored keys '
            'equal to the end bound and empty / out-of-range Seek targets. Any spec failure on any backend is a violation (no open '
            'finding). Plus two fixed cases on all three backends: the inputs of the two repaired Badger findings (stored key = end '
            'bound; Seek with empty / below-start / at-or-above-end targets, key 00 stored). non-trivial = some Get found a value or '
            'some iterator call was valid; distinct = distinct Gallina case terms',
    'trusted_base': [
        'goleveldb leveldb.DB / memdb.DB: Get/Put/Delete are a map; Batch replay in order; range iterator contract '
        '(SOI/EOI, First/Last/Seek/Next/Prev as stated in C06/Model.v) - oracle, validated by every run',
        'badger v1.6.2: Txn Set/Delete/Commit (last write per key wins), Iterator Seek/Next/Valid contract as stated in '
        'C06/Model.v - oracle, validated by every run (keys/bounds without 0xff)',
        'the harness issues no writes while an iterator is open and never calls Next on a not-valid badger iterator '
        '(that call dereferences nil inside badger); Key()/Value() are read only while Valid()',
    ],
    'assumptions': [
        'iterator call sequences start with Rewind or Seek (Next on a fresh iterator is backend specific: leveldb forward = first, '
        'leveldb reverse = not valid, badger = second entry; the property says nothing about it)',
        'errors returned by Delete/Batch.Write are not observables of this property (memdb Delete of an absent key returns '
        '"not found"); Get and Iterator results are',
        'keys are non-empty (badger rejects empty keys: the Badger refinement theorem carries keys_nonempty m = true, needed '
        'only for a reverse Seek with an empty target; Example badger_empty_key_outside_domain shows the model differs outside it)',
    ],
    'manifest': {
        'level_text': 'full for all three wrappers (batch = fold, read-your-writes, iterator refinement of the sorted-map '
                      'iterator for arbitrary maps, bounds and call sequences). The Badger wrapper, after the fixes 2b9b4c3 (end bound '
                      'exclusive) and be4d3e4 (Seek clamped into the range), refines the same abstract iterator as LevelDB/memdb for '
                      'every store without an empty key (Badger cannot hold one); its collect theorem needs no condition',
        'level_note': 'the key/value libraries are oracles with a stated contract that every run validates; the model is the '
                      'chain33 wrapper logic (bytesPrefix, checkKey, Rewind/Seek/Next, reverse-seek adjustment, batches, Get)',
        'technique': 'Coq proof (simulation between the wrapper over a library cursor and a position in the list of in-range '
                     'entries, for the goleveldb zipper cursor and for the badger whole-store cursor; batch by extensionality of '
                     'sorted maps) + in-kernel correspondence check over operation histories',
    },
    'harness_timeout': {'quick': 300, 'thorough': 3000},
}
