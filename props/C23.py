SPEC = {
    'id': 'C23',
    'harness': 'hC23',
    'coq_dir': 'C23',
    'claimed': True,
    'theorems': ['C23_length_le_count', 'C23_event_reply', 'C23_no_duplicates',
                 'C23_pooled_not_excluded_not_expired', 'C23_non_eth_keep_order', 'C23_prefork_arrival_order',
                 'C23_eth_runs_consecutive', 'C23_eth_runs_consecutive_nowrap', 'C23_eth_runs_maximal',
                 'C23_sender_order_irrelevant', 'C23_oracle_accepts_model', 'C23_hypotheses_satisfiable'],
    'allowed_axioms': [],
    'shard': 350,
    'check_preamble': 'From C33 Require Import C23.Model C23.Spec.\nOpen Scope Z_scope.\n',
    'rule': 'scenarios = a real Mempool (NewMempool + SimpleQueue, no node) filled through PushTx under a virtual clock with '
            '0-10 transactions of 4 senders: signature types eth-sign id / secp256k1 / eth crypto with default address / '
            'secp256k1 with eth address / ed25519, execers none / user.p.verif.none / user.p. / near misses, plain and 2-3 member groups, nonces around the '
            'sender\'s current nonce (below, at, runs, gaps, duplicates, identical bodies under another signature), Expire 0 / '
            'by height around next height (incl. negative) / by block time around the last block time / TxHeight style, pool '
            'age around the expiry interval; header present or never set. Per scenario: EventTxList with every count -1..n+2 '
            '(with and without exclusion lists of pooled and unknown hashes), plus random getTxList calls (count <= 0 allowed) '
            'and EventGetMempool with IsAll true/false. Streams: mixed, prefork (ForkCheckEthTxSort at height..height+2, header '
            'height -1), wrap (current nonces at MaxInt64/MinInt64), replies (rpc stub answers error / wrong type), txheight '
            '(TxHeight enabled, window boundaries, ForkTxHeight around the height), timeout (rpc stub silent: 2 s), starved (a count '
            'used up by eth transactions with nonce gaps: documented observation, see assumptions). One case = '
            'one request; observables: the reply as list of transaction ids (or the error reply) and the order of the nonce '
            'requests seen by the stub rpc subscriber (= Go map iteration order, fed to the model as the permutation). '
            'non-trivial = the pool is non-empty; distinct = distinct Gallina case terms',
    'trusted_base': [
        'transactions are abstract records (hash id, IsEthSignID(sig.Ty), execer has prefix user.p., From() id, Nonce, Expire '
        'per group member, EnterTime); the harness computes these with the same accessors the pool uses '
        '(types.IsEthSignID, Transaction.From/GetNonce/GetTxGroup/Hash) and maps hashes/addresses to small ids',
        'the pool is given to the model as the list VerifWalk yields (queue order of SimpleQueue = arrival order); the queue '
        'itself is property C21',
        'getCurrentNonce is an input function (theorems: any function into int64); in the check it is the table of the stub '
        'rpc subscriber (answer / error / wrong type / silence -> 0)',
        'Go map iteration order over ethsignTxs is the permutation parameter; in the check it is the observed request order',
        'hook files (build tag verif): /repo/system/mempool/access23_verif.go (getTxList, eventTxList, eventGetMempool) and '
        'C21\'s /repo/system/mempool/access_verif.go (VerifSetClient, VerifSetHeader, VerifWalk, VerifSetExpiredInterval, '
        'VerifSetClientNil)',
    ],
    'assumptions': [
        'pool hashes are pairwise distinct (hypothesis of C23_no_duplicates / C23_oracle_accepts_model; it is part of C21\'s '
        'proved pool invariant and checked on every case)',
        'fewer than 2^64 pooled transactions and int64 nonce answers (Go typing; needed only for the no-duplicates and '
        'maximal-run theorems because the nonce loop wraps around at MaxInt64)',
        'consecutive means consecutive in int64 arithmetic (nonce++); C23_eth_runs_consecutive_nowrap gives current+k whenever '
        'the run does not cross MaxInt64',
        'header height + 1 does not overflow int64; main-chain configuration (cfg.IsPara() false); LowAllowPackHeight = 200, '
        'HighAllowPackHeight = 600 (package variables at their defaults)',
        'the exclusion list is matched against pool-level hashes (a group is known by its head transaction\'s hash), as coded',
        'the eth-run clause holds from ForkCheckEthTxSort on (height 0 in every shipped configuration); before it '
        'C23_prefork_arrival_order holds instead',
        'sequential requests; getTxList holds the pool lock while it waits (up to 2 s per sender) for the rpc module',
        'observation outside the property text (safety only): the count is applied before the nonce sort, so eth-signed '
        'transactions with a nonce gap (or a low nonce) at the head of the queue use up the count and packable transactions '
        'behind them are not handed out until those expire (Example ex_starved; reproduced on the Go code by the starved stream)',
    ],
    'manifest': {
        'level_text': 'full: every clause of the property proved for all pools, requests, nonce functions and sender orders, '
                      'tied to the Go code by per-request correspondence of the reply and of the nonce requests',
        'level_note': 'model = hand-written Gallina transcription of getTxList/filterTxList/sortEthSignTyTx/isExpired/'
                      'Transaction.isExpire/eventTxList/eventGetMempool; transactions abstract; nonce answers and map order inputs; '
                      'hook file exports three internals',
        'technique': 'Coq proof (induction over the walk, fold invariant for the two-level nonce map, pigeonhole-free run '
                     'termination argument) + in-kernel correspondence check',
    },
    'harness_timeout': {'quick': 300, 'thorough': 3000},
}
