SPEC = {
    'id': 'C07',
    'harness': 'hC07',
    'coq_dir': 'C07',
    'claimed': True,
    'theorems': ['C07_merged_eq_overlay', 'C07_list_spec_partial', 'C07_db_list_spec_partial',
                 'C07_paging_complete_partial', 'C07_db_paging_complete_partial',
                 'C07_expected_char', 'C07_expected_nodup',
                 'C07_prefix_count_partial', 'C07_db_prefix_count_partial',
                 'C07_paging_complete_refuted', 'C07_paging_emptykey_refuted'],
    'allowed_axioms': [],
    'shard': 80,
    'rule': 'key sets over the alphabet {00, a, b, ff} around a chosen prefix ("", a, ab, ff, ffff, a ff, b, a ff ff, 00): keys = prefix + '
            '0..2 random bytes, the prefix itself, its exclusive upper bound, and unrelated keys; 30% of the stored values are empty '
            '(tombstones); 1 layer read directly (GoMemDB or on-disk GoLevelDB), 1 layer through NewMergedIteratorDB, and 2 / 3 merged '
            'layers sharing one key pool (so that keys collide across layers); for every set: the paging client (continue from the '
            'last returned key; the key is recovered from the item as a client does) with every page size 0..|keys under prefix|+1 in '
            'the direction words 0,1,4,5,8,9 and one odd word (3,6,7,10..13); PrefixCount for 3 prefixes; 9 single List calls with '
            'arbitrary keys (stored, tombstoned, absent, outside the prefix), counts -1..|set|+1 and direction words 0..15 incl. the '
            '"seek" request (count 1, word 2). Unrestricted streams: the prefix whose upper bound is types.EmptyValue (known finding 1) '
            'and key sets containing the empty key (known finding 2). Long-key stream (guarded): key sets generated the same way around a '
            'prefix of 119..202 bytes (a run-length encoded stem of 120..200 bytes - lengths 120,124,126..130,132,144,160,200 around the '
            '128-byte prevKey buffer of mergedIterator - optionally starting with "LODB-", the stem plus 1-2 bytes, or the stem without its '
            'last byte), so that all keys share the stem and differ in a 0..2 byte suffix; 2 / 3 merged layers with duplicates across '
            'layers and tombstones in upper layers, 1 merged layer, and the single-database path on GoMemDB and GoLevelDB; listed under '
            'the generating prefix or a shorter one ("", 1 byte, one byte less); the paging client with every page size 0..|keys|+1 in '
            'the words 0,1,4,5,8,9 + one odd word, PrefixCount for 3 prefixes, 9 single List calls continuing from stored / tombstoned / '
            'absent keys. The case text gives the stem once (rl [(byte, count); ...]) and writes byte strings with the markers S / T / U '
            '(stem, stem without its last 1 / 2 bytes) expanded by hbs in Check.v; CSelf cases compare that notation with plain hex. '
            'The paging client of the harness stops after fuel_of(layers) = 2 + #stored entries requests; "did not terminate" is the '
            'observable impl = None, which the spec rejects. non-trivial = the implementation returned at least one item / '
            'a positive count; distinct = distinct Gallina case terms',
    'trusted_base': ['goleveldb (memdb.dbIter, leveldb.dbIter) is an oracle: iterator over util.Range{Start,Limit} = the entries with '
                     'Start <= key < Limit in key order, Seek = first entry >= key, Prev from past-the-end = Last; no I/O or corruption '
                     'errors (iter.Error() == nil)',
                     'the Gallina model coq/theories/C07/Model.v is tied to list_helper.go / merge_iter.go / goLevelDBIt by the '
                     'differential check only; goLevelDBIt.Valid()\'s checkKey is not modelled (it holds for every entry inside the range)',
                     'types.Encode(KeyValue) is modelled as proto3 wire format (tags 0x0a / 0x12, varint lengths, empty fields omitted) '
                     'and checked by the WithKey encodings of the correspondence cases',
                     'Coq kernel + vm_compute (used for the two refutation witnesses, the Examples and the case evaluation)'],
    'assumptions': ['stores are strictly sorted association lists of byte strings (every byte < 256); an empty value is the tombstone',
                    'fewer than 2^31 entries per listing (the int32 loop counter is modelled as an unbounded integer)',
                    'guard prefix_ok: bytesPrefix(prefix) != types.EmptyValue; for that one prefix the iterator range is left open above '
                    '(C07_paging_complete_refuted, reproduced on the Go code, known finding C07-emptyvalue-prefix-open-range)',
                    'guard no_empty_key (paging only): a stored empty key cannot be continued from, the request restarts from the start '
                    '(C07_paging_emptykey_refuted, reproduced on the Go code, known finding C07-empty-key-restarts-paging)',
                    'the request (count = 1, direction word = 2, non-empty key) is the "seek" API (nextKeyValue), not a page request: '
                    'excluded from the paging theorems, covered by C07_list_spec_partial',
                    'the database does not change between the requests of one paging run'],
    'manifest': {'level_text': 'partial: full for every prefix except the single prefix whose successor is types.EmptyValue, and for paging '
                               'under the assumption that the empty key is not stored; both exceptions are refuted in Coq and reproduced on the Go code',
                 'level_note': 'unbounded Coq theorems (any number of layers, any key set, prefix, page size >= 1, direction word) about an '
                               'executable model of ListHelper + mergedIterator + goLevelDBIt; goleveldb iterators are an oracle; model tied to the '
                               'Go code by the correspondence check',
                 'technique': 'Coq proof (simulation between the merged iterator and one iterator over the overlay map, induction over '
                              'pages) + in-kernel correspondence check'},
    'harness_timeout': {'quick': 300, 'thorough': 3000},
}
