SPEC = {
    'id': 'C20',
    'harness': 'hC20',
    'coq_dir': 'C20',
    'theorems': ['C20_work_antitone'],
    'allowed_axioms': [],
    'shard': 1500,
    'rule': 'every exponent 0..255 x edge mantissas (both signs) x random mantissas; integers of every byte length 0..260 '
            'with top bytes 01/7f/80/ff, both signs; work pairs (neighbours, same exponent, random). '
            'non-trivial = decoded/encoded value is non-zero; distinct = distinct Gallina case terms',
    'trusted_base': ['math/big (Go) is an oracle for the implementation side'],
    'assumptions': ['uint32/uint truncations are modelled as mod 2^32; exponents above 255 wrap exactly as uint32(exponent<<24) does'],
}
