SPEC = {
    'id': 'C20',
    'harness': 'hC20',
    'coq_dir': 'C20',
    'theorems': ['C20_decode_recode', 'C20_recode_idempotent', 'C20_canonical_form',
                 'C20_precision', 'C20_truncated_shift', 'C20_precision_bounds', 'C20_precision_unguarded_refuted',
                 'C20_negative_exact_partial', 'C20_precision_negative_refuted',
                 'C20_work_antitone', 'C20_work_antitone_encoded'],
    'allowed_axioms': [],
    'shard': 1500,
    'rule': 'every exponent 0..255 x edge mantissas (both signs) x random mantissas; integers of every byte length 0..260 '
            'with top bytes 01/7f/80/ff, both signs; exactly representable integers (mantissa<<8k, both signs) and negative '
            'integers whose arithmetic shift rounds up (7fffff../ffffff.. + low bits); integer target pairs through the encoder '
            '(class boundaries 256^l-1|256^l, 2^(8l-1)-1|2^(8l-1), neighbours, random); work pairs (neighbours, same exponent, random). '
            'non-trivial = decoded/encoded value is non-zero (pairs: smaller target positive); distinct = distinct Gallina case terms',
    'trusted_base': ['math/big (Go) is an oracle for the implementation side',
                     'the Gallina model coq/theories/C20/Model.v is tied to difficulty.go by the differential check only '
                     '(uint32/uint truncation = mod 2^32, big.Int.Rsh on negatives = floor shift, Bits()[0] = low word of the magnitude)',
                     'Coq kernel + vm_compute (used for the two refutation witnesses and the Examples)'],
    'assumptions': ['uint32/uint truncations are modelled as mod 2^32; exponents above 255 wrap exactly as uint32(exponent<<24) does',
                    'C20_precision is guarded by fits_format n (byte length + top-bit adjustment <= 255): larger integers are outside the '
                    '8-bit-exponent format (C20_precision_unguarded_refuted, witness 2^2039)',
                    'precision is claimed for non-negative integers only, as in the property text; for negative integers only exactly '
                    'representable ones round-trip (C20_negative_exact_partial); BigToCompact(-0xffffff01) decodes to 0 '
                    '(C20_precision_negative_refuted, reproduced on the Go code by the encode-neg-roundup stream)'],
}
