SPEC = {
    'id': 'C14',
    'harness': 'hC14',
    'coq_dir': 'C14',
    'claimed': False,
    'theorems': ['C14_del_after_add_refuted'],
    'allowed_axioms': [],
    'shard': 5,
    'rule': 'tbd',
    'trusted_base': [],
    'assumptions': [],
    'manifest': {'level_text': 'tbd', 'level_note': 'tbd', 'technique': 'tbd'},
    'harness_timeout': {'quick': 400, 'thorough': 3600},
}
