SPEC = {
    'id': 'C14',
    'harness': 'hC14',
    'coq_dir': 'C14',
    'claimed': True,
    'theorems': [
        'C14_del_after_add_obs_id', 'C14_failed_transfer_no_local_effect', 'C14_queries_invariant',
        'C14_del_after_add_queries', 'C14_index_entries_exact', 'C14_addr_counts_restored',
        'C14_hyps_satisfiable', 'C14_del_total_without_mvcc',
    ],
    'allowed_axioms': [],
    'shard': 25,
    'check_preamble': 'Open Scope Z_scope.\n',
    'rule': 'node streams: one case = one fresh chain33 test node (memdb, every 7th run leveldb; plugins txindex, addrindex, '
            'addrfeeindex, fee, stat on; exec-level mvcc cannot run on a node, see trusted_base) that gets 1-2 prefix blocks '
            '(funding of 2-4 accounts, history) and then 1-3 generated blocks of 1-5 transactions (coins transfer / '
            'transfer-to-exec / withdraw, none, manage Modify; repeated addresses; in the failing stream self-transfers, '
            'over-balance transfers, withdrawals that the executor refuses; in the groups stream 2-member transaction groups) '
            'through BlockChain.ProcessBlock; the blocks are removed again by BlockChain.Rollback (disBlock -> '
            'BlockStore.DelTxs -> executor EventDelBlock). Observed: the complete dump of the local-index key ranges of the '
            'blockchain DB (TX:, STX:, ETX:, TxAddrHash:, TxAddrDirHash:, TxFeeAddrDirHash:, AddrTxsCount:, TotalFeeKey:, '
            '.-mvcc-., LODB*, FLAG:, Statistics:) at the base height, after every connect and after the removal, values '
            'decoded by key family into tagged records; and before (twin node at the base height) / after the removal the '
            'answers of GetAddrTxsCount, GetAddrReciver, GetTxsByAddr flag 0/1/2, GetTxsFeeByAddr for every account, the '
            'genesis and the executor addresses, GetTxResultFromDb for every transaction and TotalFeeKey for every block '
            'hash. The Coq side replays the model over the run (every dump must be equal to the model\'s map; every answer '
            'equal to the model query on the dump) and evaluates the spec on the implementation\'s data alone (normalised '
            'final dump = normalised base dump, answers before = answers after). mvcc stream: executor.AddMVCC / '
            'executor.DelMVCC called directly on a KVDB for 1-4 versions (keys that are prefixes of one another, nil values), '
            'returned KV lists applied with the AddTxs/DelTxs rule, versions removed last-first. kinds are prefixed '
            'allok/failed by whether every coins transaction with a local effect has receipt ExecOk (checked against the '
            'case on the Coq side); two fixed witness runs (failed self-transfer, successful transfer) come first. non-trivial = the removed blocks '
            'hold at least 2 transactions (mvcc: at least one state write); distinct = distinct Gallina case terms',
    'trusted_base': [
        'values are tagged records: the protobuf encoding is not modelled; the harness decodes each stored value by its key '
        'family (Int64, TotalFee, TxResult, ReplyTxInfo, AddrTxFeeInfo, LocalDBSet) and checks re-encoding for the scalar ones; '
        'TxResult is compared on height, index, tx hash, receipt type, block time; ReplyTxInfo on hash, height, index (assets '
        'and action name are not modelled)',
        'tx.Hash(), tx.From(), tx.GetRealToAddr(), the decoded coins action and amount, receipt types, block hash / parent '
        'hash / state hash are inputs of the model (computed by the Go code, not re-derived)',
        'address.FormatAddrKey is the identity (base58 addresses); quickIndex on, no eth transaction hash, dbversion != 0, '
        'no proxy-exec transactions; int64 wrap-around of counters and totals is not modelled',
        'the executor\'s LocalDB cache is modelled by its Get semantics (committed map with the cached Sets applied; a cached '
        'nil and an empty stored value both read as absent / 0)',
        'the executor-level mvcc plugin cannot run on a node above height 0 on this tree (hash->version entry of version 0 '
        'is the empty encoding of Int64{0}, read back as deleted by the local transaction layer: enableMVCC panics at height '
        '1), so its AddMVCC/DelMVCC pair is checked by direct calls on a KVDB, with the harness applying the returned KV '
        'lists by the AddTxs/DelTxs rule; the composition theorem covers it for any configuration',
        'manage Apply/Approve (table + rollback log) and other dapps\' local data are not modelled; stat plugin produces nothing',
    ],
    'assumptions': [
        'the block\'s index entries are new (fresh transaction hashes and 8-byte short hashes, positions, block hash, '
        'mvcc version): the boolean predicate `fresh`',
        'counter keys of the local DB hold counters (`counters_wf`)',
        'the removal list is produced (exec_del = Some): always the case without mvcc (proved), with mvcc when DelMVCC '
        'accepts (top version, matching hash)',
    ],
    'manifest': {
        'level_text': 'full: unbounded Coq theorem for every plugin configuration, every local DB and every fresh block, '
                      'whatever the receipts are (remove after connect restores the local DB up to explicit-zero counters '
                      'and mvcc version key lists, which no modelled query can see; hence every query answer is restored); '
                      'every index entry proper and every address counter is restored exactly. The Go code agrees with '
                      'the model on every dump of every generated run, failed coins transactions included (finding 1, '
                      'failed coins transfers staying in the receiver total, is fixed: Coins.ExecLocal skips failed '
                      'transactions like ExecDelLocal does)',
        'level_note': 'KV level with tagged values (protobuf not modelled); tx/addr/hash fields are inputs; LocalDB cache by '
                      'its Get semantics; exec-level mvcc driven directly because it cannot run on a node on this tree; '
                      'manage Apply/Approve tables not modelled',
        'technique': 'Coq proof (per-key case analysis over the concatenated plugin KV lists: index entries by "every add '
                     'key is deleted and was absent", counters by a closed form for read-modify-write runs through the '
                     'cached view) + in-kernel correspondence check against test nodes',
    },
    'harness_timeout': {'quick': 400, 'thorough': 3600},
}
