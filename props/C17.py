SPEC = {
    'id': 'C17',
    'harness': 'hC17',
    'coq_dir': 'C17',
    'claimed': True,
    'theorems': ['C17_created_group_chained', 'C17_created_group_checks', 'C17_created_fee_sufficient', 'C17_created_group_passes',
                 'C17_same_header_same_content', 'C17_member_first_detected', 'C17_tamper_detected_partial', 'C17_tamper_detected_refuted',
                 'C17_fee_rules', 'C17_fee_sum_exact', 'C17_decode_txs_encode', 'C17_tx_path_equiv',
                 'C17_rebuilt_group_chained', 'C17_checksign_gate_weakens'],
    'allowed_axioms': [],
    'shard': 6,
    'rule': 'one case = one CreateTxGroup call (inputs, fee rate; result: error class or head fee + member digests) plus a list of '
            'entries; an entry = a sequence of operations applied to the created and signed group (swap, drop, duplicate, '
            'insert/substitute a signed member of another group or a single transaction, truncate, reverse, one field of one '
            'member altered by reflection over the Go struct (flip/clear/truncate/append, inc/zero/negate), next/header taken from '
            'another member, signature removed / bit-flipped / of another member / other or unknown type, public key flipped, '
            'member signed again with another key, GroupCount of all members set, RebuiltGroup) under one of 9 environments '
            '(chain id, height incl. -1, ForkTxChainIDStrict / ForkTxGroupPara / ForkBlockCheck on or off, minimum fee rate 0 / '
            'creation rate / 3x, fee ceiling) with the observables Transactions.Check error class, Transactions.Tx().Check and '
            'TransactionCache.Check (GetTxGroup path), Transactions.CheckSign (also via TransactionCache), per-member driver verdict. '
            'Groups of every size 2..20; per group a fixed core (unaltered under all 9 environments; swaps first/second, last two, first/last, '
            'two middle pairs; drop/dup/insert/substitute at first, middle and last position; append; truncate; reverse; the count-fixing and '
            'RebuiltGroup follow-ups at one position; GroupCount 0/21/n+1; head fee required-1/required/required+1/0/-1/ceiling/int64 edges at two rates; '
            'fee +-1 on other members; chain id under the strict fork) plus a sampled part (quick: 40-120 of the per-member field, signature and '
            'structural alterations; sizes 2 and 3 and the thorough tier: all of them); parachain mixes (main only, one para, para+main, two paras, '
            'odd titles), rates 0/1/1e5/2.5e5/2^40, payload sizes around the 1000-byte fee step, sizes 0, 1, 21, 22, oversize members; '
            'regression stream (former finding F1, fixed in chain33 db466e1): inputs taken from an earlier group, the last one with a stale Next - '
            'the created group must pass under two environments, a Next put on the last member is rejected and RebuiltGroup drops it again; '
            'unrestricted stream: high-S / trailing-byte signatures, ty bits outside the crypto-id mask. '
            'entries are independent; a case reports its first spec violation outside the findings, else the first finding, else the first disagreement. '
            'non-trivial = case with at least one altered entry or a creation error; distinct = distinct case terms',
    'trusted_base': [
        'SHA-256 is a Section function assumed injective in C17_same_header_same_content / C17_tamper_detected_partial; in the '
        'correspondence check it is a finite table of digests that the harness computed with crypto/sha256 over its own encoding of '
        'the cleared copy (independent of Transaction.Hash), keyed by the preimages the model computes; a missing digest is a disagreement',
        'signature drivers are not verified: ideal signature functionality of C16 (verify accepts exactly issued triples up to the '
        'malleability relation mall); in the correspondence check the per-member driver verdict (Validate called directly by the harness) '
        'is an oracle and CheckSign is compared with gate(model) && verdict',
        'C16.Model (transaction record, wire encoding, hash preimage, check_sign) and its byte-exact correspondence check',
        'golang/protobuf Marshal/Size as encoding oracle on the implementation side',
    ],
    'assumptions': [
        'Go nil and empty byte slices are identified (as on the wire): an in-memory group whose last member has a non-nil empty Next '
        '(rejected by Check, which tests Next != nil) is outside the model; CreateTxGroup and RebuiltGroup cannot produce one (they assign nil)',
        'nil members of an in-memory Transactions (ErrTxGroupEmpty) are not modelled (cannot arise from decoding)',
        'the members of one CreateTxGroup call are distinct objects (no pointer aliasing)',
        'headers handed to GetTxGroup are canonical encodings (produced by Transactions.Tx()); decoding of non-canonical or unknown-field '
        'encodings is outside the model (C16 assumption: no unknown protobuf fields)',
        'a member signed again by Transaction.Sign with another key is an issued signature (the ideal functionality lets anyone sign); '
        'the spec oracle counts it as authentic',
        'fee rates below 2^50 in the spec oracle (no int64 wrap-around; the model itself wraps like Go)',
        'C17_created_group_checks takes the fee sufficiency of the signed group as a hypothesis (decision rule); '
        'C17_created_fee_sufficient / C17_created_group_passes derive it for unsigned inputs, Check called with the creation rate, '
        'signature fields of at most 300 encoded bytes (the budget CreateTxGroup uses), a constant digest length and 101*rate*n < 2^63',
    ],
    'manifest': {
        'level_text': 'partial: structure clauses (reorder/drop/add/substitute/any hashed field) proved unbounded for the model under SHA-256 '
                      'injectivity; signature clause under the ideal signature functionality and only up to signature malleability and the '
                      'non-driver bits of Signature.ty (full statement refuted, findings F2/F3, open); created-group clause proved for every input '
                      'list (finding F1 fixed in chain33 db466e1: CreateTxGroup / RebuiltGroup clear the Next of the last member); fee clauses as decision rules',
        'level_note': 'trusted: SHA-256 injectivity (digest table from crypto/sha256 in the check), ideal signature functionality in place of '
                      'the drivers (their verdict is an oracle in the check), C16 model of the transaction encoding, golang/protobuf as encoding oracle',
        'technique': 'Coq proof (hash-chain induction over the member list, encoder injectivity from C16, ideal-functionality argument) + '
                     'in-kernel correspondence check over mutation batches',
    },
    'harness_timeout': {'quick': 300, 'thorough': 3000},
    'coqc_timeout': 2400,
}


def extra(ctx):
    """Coverage accounting over the entries inside the batch cases, and a floor on what a run must contain."""
    kinds, entries, accepted = {}, 0, 0
    sizes = set()
    for c in ctx.cases:
        impl = c.get('impl') or {}
        for e in impl.get('entries', []) or []:
            entries += 1
            k = e.get('kind', '?').split('@')[0]
            k = k.split(':')[0] if k.startswith('field/') else k
            kinds[k] = kinds.get(k, 0) + 1
            if e.get('check') == 0 and e.get('checksign') == 1:
                accepted += 1
        kd = c.get('kind', '')
        if kd.startswith('group/n='):
            sizes.add(int(kd[8:10]))
    violations = []
    need = ['same', 'struct/swap', 'struct/drop', 'struct/dup', 'struct/insert', 'struct/subst', 'struct/keep', 'struct/rev',
            'struct/swap+rebuild', 'struct/drop+count+rebuild', 'sig/nil', 'sig/sig-flip', 'sig/pub-flip', 'resign/other-key',
            'fee/head', 'fee/other', 'chain/member', 'count/all', 'field/Execer', 'field/Payload', 'field/Fee', 'field/Expire',
            'field/Nonce', 'field/To', 'field/GroupCount', 'field/Header', 'field/Next', 'field/ChainID']
    missing = [k for k in need if kinds.get(k, 0) == 0]
    # regression stream of the fixed finding F1: created from inputs with a stale Next on the last one
    stale = [c for c in ctx.cases if c.get('kind', '') == 'regress/stale-next']
    if not stale:
        missing.append('regress/stale-next')
    if missing or not set(range(2, 21)) <= sizes:
        violations.append({'kind': 'no-failing-input-found', 'theorem_or_correspondence': 'coverage floor',
                           'what': 'harness run lacks alteration kinds %s or group sizes %s' % (missing, sorted(set(range(2, 21)) - sizes)),
                           'case': None})
    return {'violations': violations,
            'coverage': {'entries': entries, 'entries_accepted': accepted, 'entries_rejected': entries - accepted,
                         'entry_kinds': dict(sorted(kinds.items())), 'group_sizes': sorted(sizes),
                         'stale_next_groups': len(stale)}}
