SPEC = {
    'id': 'C28',
    'harness': 'hC28',
    'coq_dir': 'C28',
    'claimed': True,
    'theorems': ['C28_unique_in_window', 'C28_unexpired_fee_chainid', 'C28_window_cache_exact', 'C28_tx_index_exact',
                 'C28_all_signed_refuted', 'C28_all_signed_partial', 'C28_chain_clean_partial', 'C28_fix_all_signed', 'C28_hypotheses_satisfiable'],
    'allowed_axioms': [],
    'shard': 16,
    'rule': 'one case = one history on a fresh memdb test node (pack window low/high from {(2,3),(1,1),(1,2),(3,2)}, miner '
            'stopped, three funded accounts): peer blocks built by hand on a factory node (real TxHash/StateHash; when the '
            'factory would drop a transaction the block is rebuilt with the intended list) and delivered through '
            'BlockChain.ProcessBlock(pid = a peer), producer blocks through ProcessBlock(pid = "self"), offers to the '
            'mempool through SendTx. Transactions: coins transfers and padded "none" transactions with Expire 0 / height '
            '/ block time / TxHeight (inside, at both ends of and outside the window) / raw edge values, fee exact / one '
            'below / zero / double / at and above the cap, sizes around the 1000-byte fee step and the 100000-byte limit, '
            'wrong chain id; twins (same body signed by another account: same Hash, valid) and forgeries (another '
            'account\'s public key + random signature). Streams: linear (6-12 random steps: valid blocks, mixed blocks with '
            'repeats of earlier transactions / twins / in-block duplicates / invalid ones, producer lists, pool offers, '
            'forgeries of unseen bodies, empty blocks, block times 0/-1/+1..4 after the parent), window (one TxHeight '
            'transaction offered again at every height to the end of its window and beyond), reorg (trunk to height '
            '13-14, side branch from 2-4 below the tip repeating transactions of the replaced blocks, of the common prefix '
            'and of itself; later blocks repeat transactions of both branches; sometimes the old trunk wins again), '
            'reorg-window (a TxHeight transaction exactly low+high blocks below the tip is offered again by the side '
            'branch that replaces the tip: the disconnection must bring its block back into the cache window), edge steps '
            '(block time / height exactly at, one before and one after the end of validity, both ends of the TxHeight window), forgery '
            '/ linear-any (T pooled, then a block with T\'s body under another key: the open finding). The '
            'connectBlock/disconnectBlock sequence is derived from the tip before/after each delivery (a failed '
            're-organisation is not rolled back by the node). Observed: error class per connection, stored list of '
            'producer blocks, pool acceptance, and at the end the chain block by block, GetTx of every table entry and '
            'the duplicate query (EventTxHashList) for every table entry. kinds are prefixed guarded/unrestricted by '
            'whether pool_guard holds for the history. non-trivial = the history contains a rejected block, a producer '
            'block that lost transactions, or a re-organisation; distinct = distinct Gallina case terms',
    'trusted_base': [
        'hashes are abstract ids: Hash() determines the body (Expire, own 16-byte prefix) and the 16-byte prefixes of one '
        'history do not collide (hypothesis hash_ok of the theorems; checked on every case table by table_ok)',
        'Transaction.CheckSign is an oracle (field tsig, computed by the harness with the real CheckSign); FullHash() '
        'determines it',
        'execution beyond checkTx is not modelled: every signer is funded, so no transaction gets an error receipt for '
        'lack of fee balance; TxHash/StateHash of peer blocks are right whenever the model accepts (factory-built)',
        'the mempool is environment: per delivery the set of Hash() values it reports (queried just before the '
        'delivery) is an input; all connections of one delivery use the same set (generators keep forgeries of '
        'pooled/replaced bodies out of multi-block deliveries)',
        'which branch the node follows is not modelled (C25): the operation list is derived from the observed tips',
    ],
    'assumptions': [
        'single transactions (no groups), main chain (not para), TxHeight enabled, ForkCheckTxDup / ForkTxHeight / '
        'ForkBlockCheck / ForkCheckBlockTime active at every height, DisableTxDupCheck off',
        'genesis block: positive block time; its transactions are never offered again',
        'the node\'s own producer only hands over transactions that passed the mempool\'s signature check (self_signed)',
        'deliveries are sequential',
    ],
    'manifest': {
        'level_text': 'full for uniqueness (whole chain, hence within every validity window), non-expiry at the block\'s '
                      'height and time, fee and chain-id, over all histories of connections and disconnections (unbounded '
                      'Coq theorems; the height-window cache is shown to hold exactly the TxHeight transactions of the '
                      'last low+high blocks, the index exactly the chain\'s hashes); PARTIAL for signatures: refuted at '
                      'full strength (open finding C28-KF1, reproduced on the node), proved when no mis-signed block '
                      'transaction shares its Hash() with a pooled one, and proved for the candidate repair (FullHash match)',
        'level_note': 'hash/prefix collision-freeness and the signature scheme are hypotheses; balances, receipts and state '
                      'hashes are outside the model; the mempool\'s answer is an input; branch choice is C25',
        'technique': 'Coq proof (one invariant by induction over connect/disconnect histories) + in-kernel correspondence '
                     'check against test nodes',
    },
    'harness_timeout': {'quick': 400, 'thorough': 3600},
}
