SPEC = {
    'id': 'C28',
    'harness': 'hC28',
    'coq_dir': 'C28',
    'claimed': True,
    'theorems': ['C28_unique_in_window', 'C28_unexpired_fee_chainid', 'C28_group_members_unexpired', 'C28_group_members_whole',
                 'C28_window_cache_exact', 'C28_tx_index_exact',
                 'C28_all_signed_oracle_refuted', 'C28_all_signed_oracle_partial', 'C28_chain_clean_oracle_partial',
                 'C28_fix_all_signed_oracle',
                 'C28_node_refines', 'C28_node_chain_checked', 'C28_all_signed_refuted', 'C28_all_signed_partial',
                 'C28_pool_signed_partial', 'C28_chain_clean_partial', 'C28_fix_all_signed', 'C28_hypotheses_satisfiable',
                 'C28_block_cache_unobservable', 'C28_block_cache_nonvacuous'],
    'allowed_axioms': [],
    'shard': 16,
    'rule': 'one case = one history on a fresh memdb test node (pack window low/high from {(2,3),(1,1),(1,2),(3,2)}, in-memory '
            'block cache BlockChain.DefCacheSize 128 (default) / 1 / 3 blocks in turn - the cache size is not part of the '
            'Coq case: the same model must explain every size -, miner '
            'stopped, three funded accounts): peer blocks built by hand on a factory node (real TxHash/StateHash; when the '
            'factory would drop a transaction the block is rebuilt with the intended list) and delivered through '
            'BlockChain.ProcessBlock(pid = a peer), producer blocks through ProcessBlock(pid = "self"), offers to the '
            'mempool through SendTx (groups as group.Tx()). Transactions: coins transfers and padded "none" transactions '
            'with Expire 0 / height / block time / TxHeight (inside, at both ends of and outside the window) / raw edge '
            'values, fee exact / one below / zero / double / at and above the cap, sizes around the 1000-byte fee step and '
            'the 100000-byte limit, wrong chain id; twins (same body signed by another account: same Hash, valid) and '
            'forgeries (another account\'s public key + random signature). Groups of 2-4 members (CreateTxGroup, fee '
            'settled for the signed sizes, every member signed by its own account; members with every kind of Expire '
            'incl. TxHeight): valid; with an expired member at / one before / one after the end of its validity; head fee '
            'one below the sum / above the cap, a paying later member, GroupCount+1, a later member re-signed over another '
            'Header (same Hash), a broken Next, a member with a foreign chain id; block lists that break a group (two '
            'members swapped, first / last member missing, one member alone, a member twice, the group twice, a single '
            'transaction in the middle); a member replaced by a forgery. Streams with single transactions: linear (6-12 '
            'random steps: valid blocks, mixed blocks with repeats of earlier transactions / twins / in-block duplicates / '
            'invalid ones, producer lists, pool offers, forgeries of unseen bodies, empty blocks, block times 0/-1/+1..4 '
            'after the parent), window (one TxHeight transaction offered again at every height to the end of its window '
            'and beyond), reorg (trunk to height 13-14, side branch from 2-4 below the tip repeating transactions of the '
            'replaced blocks, of the common prefix and of itself; later blocks repeat transactions of both branches; '
            'sometimes the old trunk wins again), reorg-window (a TxHeight transaction exactly low+high blocks below the tip '
            'is offered again by the side branch that replaces the tip: the disconnection must bring its block back into '
            'the cache window), reorg-evict (every 8th case, own sequence: the node keeps only 1 .. low+high blocks in '
            'memory - or low+high+1, the boundary -, so the block that txHashCache.Del must bring back into the window on a '
            'disconnection has left the in-memory block cache and has to come from the database; the 1-3 trunk blocks that '
            'leave the window when the trunk reaches its top carry one TxHeight transaction each, packed at the first height '
            'of its validity; a side branch from 1-3 below the tip, half of the time with heavier blocks, repeats one of them '
            'at the LAST height where it is unexpired (must be refused with ErrTxDup, the transaction stays on the chain '
            'once), or an earlier one at that height, or one whose window ended one block before (expired; a block on top '
            'of it makes the node switch over and judge it), or none; afterwards the same transactions again through peer '
            'and producer blocks on whatever tip the node has), edge steps (block time / height exactly at, one before and one after the end of validity, '
            'both ends of the TxHeight window), forgery / linear-any (T pooled, then a block with T\'s body under another '
            'key: the open finding). Streams with groups: group-linear (5-10 '
            'steps: group blocks from peers and for the producer among single transactions, earlier groups or parts of '
            'them again, pooled-then-packed groups, forged members of unpooled groups, group offers), group-window (a '
            'group with one or two TxHeight members offered again, whole or one member alone, at every height to the end '
            'of the window and beyond), group-reorg (trunk whose last blocks carry groups; side branch from 2-3 below the '
            'tip, half of the time with heavier blocks so that it wins at equal or lower height, repeating groups of the '
            'replaced blocks / of the common prefix / parts of them / its own; afterwards groups of both branches again, '
            'and a group that the mempool took back in a block with a mis-signed first or later member), group-hdrempty '
            '(the last member\'s nonce is ground, some hundred tries, until the group hash decodes as an empty protobuf '
            'Transactions - the value for which the member-level Transaction.IsExpire ignores the member\'s Expire; a '
            'member expired by height / block time / TxHeight window or at the edge, through a peer block, through the '
            'producer path, after a pool offer, next to the same group with an ordinary header, and once more one block '
            'later), group-forge / group-linear-any (a pooled group in a block with a mis-signed first member: the open '
            'finding; with a mis-signed later member: ErrSign). The connectBlock/disconnectBlock sequence is derived from '
            'the tip before/after each delivery (a failed re-organisation is not rolled back by the node). Observed: error '
            'class per connection, stored list of producer blocks, pool acceptance, before every delivery the Hash ids the '
            'mempool reports (EventCheckTxsExist over the whole table; must equal the model\'s pool), after a delivery with '
            'disconnections the same question sent with low priority behind the EventDelBlock messages (adopted by the '
            'model if every id is a pooled or a just-disconnected transaction), and at the end the chain block by block, '
            'GetTx of every table entry and the duplicate query (EventTxHashList) for every table entry. kinds are prefixed '
            'guarded/unrestricted by whether the guard of C28_all_signed_partial holds for the history. non-trivial = the '
            'history contains a rejected block, a producer block that lost transactions, or a re-organisation; distinct = '
            'distinct Gallina case terms',
    'trusted_base': [
        'hashes are abstract ids: Hash() determines the body (Expire, GroupCount, Next, Fee, ChainID, own 16-byte prefix; not '
        'Header) and the 16-byte prefixes of one history do not collide (hypothesis hash_ok of the theorems; checked on every '
        'case table by table_ok); Header and Next are ids in the same space (0 = nil)',
        'Transaction.CheckSign is an oracle (field tsig, computed by the harness with the real CheckSign); FullHash() '
        'determines it (hypothesis fh_ok of the node theorems, checked by table_ok)',
        'execution beyond checkTx / checkTxGroup is not modelled: every signer is funded, so no transaction or group gets '
        'an error receipt for lack of fee balance; every transaction carries a Signature (GetRealFee adds 300 bytes '
        'otherwise); TxHash/StateHash of peer blocks are right whenever the model accepts (factory-built)',
        'the mempool\'s admission decision is an input (observed acceptance per offer; the oracle checks that no mis-signed '
        'offer is accepted); its content is model state: accepted items, removal by Hash() when a block is connected, '
        'eviction by Transaction.IsExpire for the next height, and - observed, because it depends on the order in which '
        'the mempool reads EventAddBlock (high priority) and EventDelBlock (low priority) - which transactions of '
        'disconnected blocks came back (NSync; the theorems hold for every such answer). Within one multi-block '
        'delivery the generators keep forgeries of pooled/replaced bodies out',
        'which branch the node follows is not modelled (C25): the operation list is derived from the observed tips',
        'the in-memory block cache (BlockCache, DefCacheSize blocks) is an implementation detail that must not be '
        'observable: the checked model reads every block from the main chain (block_at = BlockChain.GetBlock); '
        'C28_block_cache_unobservable shows for the read-through look-up of ModelMem.v (hash of the height from the store, '
        'block from memory if present, else from the database) that any coherent memory content (mem_ok: a block in memory '
        'under a main-chain hash is that block - block hashes determine blocks) gives the same states; on the node this '
        'is tested by running the histories with cache sizes from 1 block to the default, not by observing the cache',
    ],
    'assumptions': [
        'main chain (not para, no para executors in groups), TxHeight enabled, ForkCheckTxDup / ForkTxHeight / ForkBlockCheck / '
        'ForkCheckBlockTime / ForkTxGroup active at every height, DisableTxDupCheck off',
        'genesis block: positive block time; its transactions are never offered again',
        'the node\'s own producer only hands over transactions that passed the mempool\'s signature check (self_signed); the '
        'mempool accepts only correctly signed offers (noffers_signed; C22)',
        'deliveries are sequential',
    ],
    'manifest': {
        'level_text': 'full for uniqueness (whole chain, hence within every validity window), non-expiry of every transaction '
                      'incl. every group member at the block\'s height and time, fee and chain-id (single: per transaction; '
                      'group members: only as whole, ordered groups whose first member pays for all), over all histories of '
                      'connections and disconnections of blocks with single transactions and groups (unbounded Coq theorems; '
                      'the height-window cache is shown to hold exactly the TxHeight transactions of the last low+high '
                      'blocks, the index exactly the chain\'s hashes; the member-level IsExpire quirk of a group hash that '
                      'decodes as an empty group (C22-KF4, C30-KF4) does NOT reach the chain: both block paths use '
                      'Transactions.IsExpire, reproduced with ground headers); PARTIAL for signatures: refuted at full '
                      'strength against the node\'s own pool (open finding C28-KF1, reproduced on the node, also through the '
                      'first member of a pooled group and through groups the mempool took back after a re-organisation), '
                      'proved when every mis-signed block transaction whose Hash() is pooled is the pooled transaction itself '
                      '(same FullHash), and proved without guard for the candidate repair (FullHash match)',
        'level_note': 'hash/prefix collision-freeness and the signature scheme are hypotheses; balances, receipts and state '
                      'hashes are outside the model; the mempool\'s admission and the timing-dependent return of '
                      'disconnected transactions are inputs, its content otherwise model state compared before every '
                      'delivery; branch choice is C25; for group members the chain id is compared only under '
                      'ForkTxChainIDStrict (as the code does at those heights)',
        'technique': 'Coq proof (one invariant by induction over connect/disconnect histories; refinement from the node with a '
                     'concrete pool to the model with pool answers as inputs) + in-kernel correspondence check against '
                     'test nodes',
    },
    'harness_timeout': {'quick': 400, 'thorough': 3600},
}
