SPEC = {
    'id': 'C35',
    'harness': 'hC35',
    'coq_dir': 'C35',
    'claimed': False,
    'theorems': ['C35_terminates', 'C35_no_deadlock_refuted', 'C35_second_phase_terminates_refuted',
                 'C35_no_deadlock_partial', 'C35_second_phase_terminates_partial',
                 'C35_single_goroutine_correct',
                 'C35_delivers_if_servable_refuted', 'C35_delivers_if_servable_partial',
                 'C35_phase_one_delivers_refuted',
                 'C35_delivered_only_served_partial', 'C35_trace_justified',
                 'C35_failed_peer_not_reasked_refuted', 'C35_failed_peer_not_reasked_partial',
                 'C35_not_reasked_in_task_refuted', 'C35_hypotheses_satisfiable'],
    'allowed_axioms': [],
    'shard': 40,
    'check_preamble': 'From C33 Require Import C35.Model C35.Spec.\nOpen Scope Z_scope.\n',
    'rule': 'one case = one EventFetchBlocks task run by the real download protocol on an in-process libp2p host against '
            '1-5 serving libp2p hosts (pool of 6) whose stream handlers hand every request to a controller. Inputs: pid list '
            '(peers, undecodable strings, the downloader itself, duplicates, empty; fallback to the connected peers), per-peer '
            'latency (unknown / equal / distinct) and advertised height, height range (1-12 heights, start > end), behaviour per '
            '(peer, height): ok / refuse (stream reset) / malformed (5 variants: bad header, undecodable frame, empty item list, '
            'non-block item, no message) / wrong height (another height inside or outside the range) / stall (the peer accepts the stream and stays silent; slow lane, observed for 13 s). '
            'The controller lets every height goroutine send its first request, then answers exactly one held request at a time '
            '(seeded random order, or the fixed order of a witness) and waits - by the arrival of the next request, the '
            'EventSyncBlock, or a goroutine census (runtime.Stack: the goroutine returned or sits in the 400 ms sleep) - before the '
            'next answer, so the interleaving of the critical sections is the one the model replays. Streams: witness (three of the '
            'recorded findings), limit (one peer, 52-54 heights: requests held at the peer after the burst, largest number of outstanding '
            'requests ever, heights delivered - against the model\'s burst and limit_of), ack, single, guarded-single / guarded-multi (guard of the partial theorems holds and nothing '
            'fails twice: any spec failure is a violation), multi, wrong, dup, slow-* (own process each: sleeping goroutines, '
            'peers below the height, silent peers; the model witnesses cfg_lost and cfg_reask). Observables: acknowledgement, order of '
            'answers, trace of task-list constructions (Peerstore.LatencyEWMA calls) / requests seen by the peers / blocks '
            'received by a fake blockchain module, handler return. non-trivial = the acknowledgement is not ok or some request '
            'was not answered with the requested block; distinct = distinct Gallina case terms',
    'trusted_base': [
        'the transition system of Model.v is a hand transcription of handler.go/download.go/task.go: critical sections under the '
        'task-list mutex (Sort, availbTask, Remove) are atomic events, releaseJob is an event of its own, the request/answer is '
        'the Result event; peers are input functions (behaviour constant per (peer, height))',
        'sort.Sort on at most 12 tasks is insertion sort (stable); the harness uses at most 6 peers',
        'the correspondence is sampled over real schedules that the controller serialises; interleavings inside the initial '
        'burst are not distinguished (before the first Remove all views are equal and fewer than 20 heights never reach the '
        'per-peer limit, so the burst is confluent) - checked per case by exact equality of the whole observable trace',
        'libp2p transport, msgio framing, protobuf decoding and the chain33 queue are used as they are (not modelled); '
        'a silent peer is modelled as an answer that never comes (ReadStream has no deadline); the harness observes it for 13 s',
        'PeerInfoManager, ConnManager and Peerstore.LatencyEWMA are harness fakes behind the protocol\'s own interfaces; no hook file',
    ],
    'assumptions': [
        'servable = some given peer has an advertised height >= h (availbTask skips lower peers) and answers h with the block of height h',
        'the partial delivery theorem needs: no given peer answers a height of the range with a block of another height '
        '(finding 3), no given peer stays silent (finding 4) and at most 50 peers (the retry bound); behaviours do not change during the task',
        '"not asked again" is checked for pid lists without duplicates (a peer named twice has two task entries)',
        'p.Ctx is not cancelled during the task; the TaskNum limit is exercised only by the limit stream (one peer), where the '
        'comparison is on counts (the wake-up order of sleeping goroutines is timing dependent), not on the whole trace',
        'phase-one re-asks (finding 1) and phase-two re-asks (finding 2) are recorded findings; the property text\'s "within the same task" is read as including checkTask',
    ],
    'manifest': {
        'level_text': 'partial: bounded work and (without silent peers) progress, the single-goroutine core, soundness of everything handed over and delivery of every '
                      'servable height (guard: no wrong-height answers, no silent peers, <= 50 peers) are proved for ALL schedules of the transition system; '
                      '"failed peer not asked again" is refuted for two or more heights (aliasing) and across the second phase, both '
                      'reproduced on the Go code; the tie to the Go code samples schedules (serialised by the harness), it does not enumerate them',
        'level_note': 'model = transition system with the shared backing array, per-goroutine view lengths, shared TaskNum/Index, '
                      'retry counters; peers, latencies, advertised heights are inputs; four known findings (aliasing re-ask, second-phase re-ask, '
                      'wrong-height block accepted, silent peer blocks the task for ever)',
        'technique': 'Coq proof (measure for termination, invariant over all schedules, simulation of the single goroutine by a '
                     'recursive function, vm_compute witnesses for the refutations) + in-kernel trace correspondence on controller-serialised runs',
    },
    'harness_timeout': {'quick': 400, 'thorough': 3600},
}
