SPEC = {
    'id': 'C35',
    'harness': 'hC35',
    'coq_dir': 'C35',
    'claimed': True,
    'theorems': ['C35_terminates', 'C35_no_deadlock', 'C35_second_phase_terminates',
                 'C35_single_goroutine_correct',
                 'C35_delivers_if_servable', 'C35_delivers_guard_explicit', 'C35_behind_peer_first_example',
                 'C35_delivered_only_served', 'C35_trace_justified',
                 'C35_failed_peer_not_reasked',
                 'C35_not_reasked_in_task_refuted', 'C35_not_reasked_in_task_partial',
                 'C35_hypotheses_satisfiable'],
    'allowed_axioms': [],
    'shard': 40,
    'check_preamble': 'From C33 Require Import C35.Model C35.Spec.\nOpen Scope Z_scope.\n',
    'rule': 'one case = one EventFetchBlocks task run by the real download protocol on an in-process libp2p host against '
            '1-5 serving libp2p hosts (pool of 6) whose stream handlers hand every request to a controller. Inputs: pid list '
            '(peers, undecodable strings, the downloader itself, duplicates, empty; fallback to the connected peers), per-peer '
            'latency (unknown / equal / distinct) and advertised height, height range (1-12 heights, start > end), behaviour per '
            '(peer, height): ok / refuse (stream reset) / malformed (5 variants: bad header, undecodable frame, empty item list, '
            'non-block item, no message) / wrong height (another height inside or outside the range) / stall (the peer accepts the '
            'stream and stays silent until the downloader\'s 10 s stream deadline; slow lane; a request still pending after 13 s counts as never ending). '
            'The controller lets every height goroutine send its first request, then answers exactly one held request at a time '
            '(seeded random order, or a fixed order) and waits - by the arrival of the next request, the '
            'EventSyncBlock, or a goroutine census (runtime.Stack: every live height goroutine is inside a request or in the 400 ms sleep) - before the '
            'next answer, so the interleaving of the critical sections is the one the model replays; a request to a silent peer is set aside and '
            'enters the reply order when its consequence (next request / nothing left to ask) is seen. Streams: witness (the inputs of the '
            'three fixed findings and of the open one), limit (one peer, 52-54 heights: requests held at the peer after the burst, largest number of outstanding '
            'requests ever, heights delivered - against the model\'s burst and limit_of), ack, single, guarded-single / guarded-multi (some peer serves every height, so no height '
            'fails in phase one: any spec failure is a violation), guarded-mixed / guarded-mixed-behind-first (2-5 peers with DIFFERENT reported heights, Start-2 .. End+2, '
            'one of them behind the end of the range; latencies distinct / tied / unknown (pid order decides), behind-first = the peer that sorts first reports less than End, so '
            'availbTask has to pass over it; any failing behaviour incl. wrong heights, also peers that are behind but would answer; for every height some peer that reports >= it and serves it, '
            'so the whole range must be delivered and nobody sleeps; 4 fixed members + 44 generated, run in 3 lane processes (one world each) with a budget that covers 50 x 400 ms of sleeping in both '
            'phases and a 45 s box per lane after which no further case is started - on a tree where a goroutine is left without a peer the lanes run fewer cases), multi, wrong, dup, slow-* (own process each: sleeping goroutines, '
            'peers below the height, silent peers in phase one and in front of a sleeping goroutine; the former aliasing witnesses cfg_lost and cfg_reask). Observables: acknowledgement, order of '
            'answers, trace of task-list constructions (Peerstore.LatencyEWMA calls) / requests seen by the peers / blocks '
            'received by a fake blockchain module, handler return. non-trivial = the acknowledgement is not ok or some request '
            'was not answered with the requested block or some given peer reports a height below End; distinct = distinct Gallina case terms',
    'trusted_base': [
        'the transition system of Model.v is a hand transcription of handler.go/download.go/task.go: critical sections under the '
        'task-list mutex (Sort, availbTask, without) are atomic events, releaseJob is an event of its own, the request/answer is '
        'the Result event (block of the requested height, or an error: reset, malformed, other height, stream deadline); peers are input functions (behaviour constant per (peer, height))',
        'sort.Sort on at most 12 tasks is insertion sort (stable); the harness uses at most 6 peers',
        'the correspondence is sampled over real schedules that the controller serialises; interleavings inside the initial '
        'burst are not distinguished (the goroutines share only the sorted array and the TaskNum counters, and fewer than 20 heights never reach the '
        'per-peer limit, so the burst is confluent) - checked per case by exact equality of the whole observable trace',
        'libp2p transport, msgio framing, protobuf decoding, stream deadlines and the chain33 queue are used as they are (not modelled); '
        'a silent peer is modelled as a request that fails (the 10 s stream deadline); time is not modelled',
        'PeerInfoManager, ConnManager and Peerstore.LatencyEWMA are harness fakes behind the protocol\'s own interfaces; no hook file',
    ],
    'assumptions': [
        'servable = some given peer has an advertised height >= h (availbTask skips lower peers) and answers h with the block of height h',
        'the delivery theorem needs at most 50 given peers (task entries): downloadBlock gives up after 50 attempts in either phase '
        '(Example few_peers_needed: with 51 entries of which the first 50 refuse, the servable height is not delivered); behaviours do not change during the task',
        '"not asked again" is checked for pid lists without duplicates (a peer named twice has two task entries)',
        'p.Ctx is not cancelled during the task; the TaskNum limit is exercised only by the limit stream (one peer), where the '
        'comparison is on counts (the wake-up order of sleeping goroutines is timing dependent), not on the whole trace',
        'phase-two re-asks (finding 2) are a recorded finding; the property text\'s "within the same task" is read as including checkTask',
    ],
    'manifest': {
        'level_text': 'partial: bounded work, progress and return of both phases, soundness of everything handed over, delivery of every '
                      'servable height whatever the other peers do (guard: <= 50 given peers, the retry bound) and "failed peer not asked again" '
                      'within phase one are proved for ALL schedules of the transition system and any number of heights; '
                      '"not asked again" across the second phase (checkTask rebuilds the peer list) is refuted and reproduced on the Go code '
                      '(open finding; it holds when no height fails in phase one); the tie to the Go code samples schedules (serialised by the harness), it does not enumerate them',
        'level_note': 'model = transition system with the shared sorted array, per-goroutine own lists after the first removal (tasks.without), shared TaskNum, '
                      'retry counters; peers, latencies, advertised heights are inputs; three findings fixed in chain33 (aliasing re-ask 203ed0e, '
                      'wrong-height block accepted be3c9ca, silent peer blocks the task for ever 85423f4), one open (second-phase re-ask)',
        'technique': 'Coq proof (measure for termination, invariants over all schedules, simulation of the single goroutine by a '
                     'recursive function, vm_compute witness for the refutation) + in-kernel trace correspondence on controller-serialised runs',
    },
    'harness_timeout': {'quick': 400, 'thorough': 3600},
}
