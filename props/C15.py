SPEC = {
    'id': 'C15',
    'harness': 'hC15',
    'coq_dir': 'C15',
    'claimed': True,
    'theorems': ['C15_invariants_partial', 'C15_weighted_sums_partial', 'C15_exec_consistency_partial',
                 'C15_error_changes_nothing', 'C15_same_account_partial',
                 'C15_conservation_refuted', 'C15_failed_op_atomic_refuted', 'C15_nonneg_refuted',
                 'C15_same_account_refuted',
                 'C15_keys_consistent', 'C15_receipt_matches_state', 'C15_receipt_logs_after_partial',
                 'C15_receipt_logs_after_refuted', 'C15_coins_actions_conserve', 'C15_coins_state_from_receipts',
                 'C15_ledger_keys_disjoint', 'C15_ledgers_independent'],
    'allowed_axioms': [],
    'shard': 60,
    'check_preamble': 'Open Scope Z_scope.\n',
    'rule': 'operation histories (1..50 ops, short ones first) on an empty memory-KV ledger over 7 accounts '
            '(3 base58, 3 0x-hex in 4 letter-case spellings each, 1 un-prefixed hex in 2 spellings) and 3 executor '
            'addresses (miner exec "ticket", "coins", one hex address in 4 spellings), all 15 mutating operations of '
            'account.DB; amounts: 70% relative to the current balance of the source (1..bal, bal, bal+1), else edges '
            '(0, -1, 1e17-1, 1e17, 1e17+1, 9e18-1, 9e18, 9e18+1, MaxInt64, MinInt64, ...) or small; 75% of the picks '
            'target a funded record. Streams: guarded (every op satisfies Spec.op_guard, head-room budgets, one '
            'spelling per executor address per history: any spec failure is a violation), unrestricted (may run into '
            'the open findings; only the first divergence is classified), directed (witnesses of the 5 open findings '
            '+ one plain history). Per op the result class and the balances/frozen of all touched accounts are read '
            'back through LoadAccount/LoadExecAccount; at the end the whole KV is dumped. '
            'non-trivial = at least 3 operations of the history succeeded; distinct = distinct Gallina case terms',
    'trusted_base': [
        'memory KV (common/db GoMemDB) as the state store; protobuf encode/decode of types.Account',
        'address strings contain no ":" and do not start with "exec-" (true of base58 and hex addresses), so the '
        'storage keys are modelled as structured keys (main: normalised address; sub: raw exec spelling, normalised holder)',
        'FormatAddrKey lower-cases eth-style addresses: crypto context API == nil or fork ForkFormatAddressKey active '
        '(the harness runs with API == nil); before that fork no spelling is normalised',
        'default config: coin precision 1e8 (CheckAmount limit 1e17), MaxTokenBalance 9e18, minerExecs from the default config',
    ],
    'assumptions': [
        'panics are observed through recover() at the account.DB call; the executor framework recovery/rollback is not part of this property',
        'the head-room guard of the partial theorems (sum of mint-type amounts + supply <= MaxTokenBalance, sum of '
        'deposit-type amounts + sub-ledger total < 2^63) makes safeAdd failures and int64 wrap impossible; the unrestricted '
        'stream still exercises safeAdd limits against the model',
    ],
    'manifest': {
        'level_text': 'partial: conservation, non-negativity/no-overflow, failure atomicity, executor consistency and '
                      'same-account reads are proved for all histories that satisfy boolean guards (no two spellings of one '
                      'account in one ExecTransfer/ExecTransferFrozen/TransferWithdraw, genesis amounts valid, head-room); '
                      'the unguarded statements are refuted (5 open findings reproduced on the Go code)',
        'level_note': 'Hand-written Gallina model of account.DB (15 operations, int64 wrap explicit) tied to /repo by '
                      'differential histories evaluated in the Coq kernel; memory KV, protobuf codec and the address-key '
                      'normaliser environment (API nil / fork active) are trusted.',
        'technique': 'Coq proof (invariant by induction over op histories, generic linear weighted sums) + in-kernel correspondence check',
    },
    'harness_timeout': {'quick': 300, 'thorough': 3000},
}
