SPEC = {
    'id': 'C15',
    'harness': 'hC15',
    'coq_dir': 'C15',
    'claimed': True,
    'theorems': ['C15_invariants_partial', 'C15_weighted_sums_partial', 'C15_exec_consistency_partial',
                 'C15_error_changes_nothing', 'C15_same_account_partial',
                 'C15_conservation_refuted', 'C15_failed_op_atomic_refuted', 'C15_nonneg_refuted',
                 'C15_same_account_refuted',
                 'C15_keys_consistent', 'C15_receipt_matches_state', 'C15_receipt_logs_after_partial',
                 'C15_receipt_logs_after_refuted', 'C15_coins_actions_conserve', 'C15_coins_state_from_receipts',
                 'C15_ledger_keys_disjoint', 'C15_ledgers_independent', 'C15_flat_refines_ledger'],
    'allowed_axioms': [],
    'shard': 60,
    'check_preamble': 'Open Scope Z_scope.\n',
    'rule': 'operation histories (1..50 ops, short ones first) on an empty memory-KV ledger over 7 accounts '
            '(3 base58, 3 0x-hex in 4 letter-case spellings each, 1 un-prefixed hex in 2 spellings) and 3 executor '
            'addresses (miner exec "ticket", "coins", one hex address in 4 spellings), all 15 mutating operations of '
            'account.DB; amounts: 70% relative to the current balance of the source (1..bal, bal, bal+1), else edges '
            '(0, -1, 1e17-1, 1e17, 1e17+1, 9e18-1, 9e18, 9e18+1, MaxInt64, MinInt64, ...) or small; 75% of the picks '
            'target a funded record. Streams: guarded (every op satisfies Spec.op_guard, head-room budgets, one '
            'spelling per executor address per history: any spec failure is a violation), unrestricted (may run into '
            'the open findings; only the first divergence is classified), directed (witnesses of the 5 open findings '
            '+ one plain history). Per op the result class and the balances/frozen of all touched accounts are read '
            'back through LoadAccount/LoadExecAccount; at the end the whole KV is dumped. '
            'back through LoadAccount/LoadExecAccount and the returned types.Receipt is decoded (Ty, every KV as storage key + '
            'Account, every log as type + ExecAddr + Prev/Current Account); at the end the whole KV is dumped. '
            'Coins stream: 1..43 transactions (Transfer / TransferToExec / Withdraw / Genesis, nil payload, unknown Ty, Ty with a '
            'value of another kind) from 3 base58 and 2 eth-format senders (tx.From() of real secp256k1 public keys) to user '
            'addresses in 3 letter-case spellings, driver addresses (coins from height 0, stub drivers from heights 5 and 15), '
            'ExecAddress of 6 executor names and strangers, at non-decreasing heights from {0,1,4,5,9,10,14,15,19,20,21,30} with '
            'ForkTransferExec=10, ForkWithdraw=20, 25% of the cases with the coins ExecType configured for a para chain '
            '(receiver from the payload); run by the real coins driver (LoadDriver, CheckTx, Exec) on an overlay of a memory KV '
            'that is committed on nil error and dropped otherwise; per tx: error class, decoded receipt, read-backs of sender, '
            'receiver, sub-account; final dump; 2/3 of the cases inside ModelCoins.coins_guard (checked in Coq). '
            'Multi stream: the coins account plus 1..3 NewAccountDB(execer, symbol) ledgers with near-colliding names '
            '(token/ABC, token/AB, tokenA/BC, coinsbty/"", mavl/coins, ...) and 0..2 rejected names containing "-" on ONE memory '
            'KV; 2..34 guarded operations through random ledgers on shared accounts; after every operation the touched '
            'accounts are read back through EVERY ledger; raw dump of the shared store (byte keys). '
            'non-trivial = at least 3 operations / transactions of the case succeeded; distinct = distinct Gallina case terms',
    'trusted_base': [
        'memory KV (common/db GoMemDB) as the state store; protobuf encode/decode of types.Account',
        'Hist/Coins cases: storage keys are compared as structured keys (main: normalised address; sub: raw exec spelling, '
        'normalised holder) parsed by the harness from the byte key; C15_flat_refines_ledger proves that the byte-keyed ledger '
        'equals the structured one for addresses without ":" in the executor position and without a leading "exec-" '
        '(boolean guard op_keys_ok, evaluated on every Multi case), and the Multi cases compare raw byte keys',
        'coins cases: the executor framework around a driver is reduced to "CheckTx, Exec, keep the writes iff the error is '
        'nil" (harness overlay KV instead of executor.StateDB Begin/Rollback; fee, signature, expiry and nonce checks of '
        'execTx are not part of the case); execDrivers table, ExecAddress(name) graph, fork heights and the para flag are '
        'inputs of the case (hash and configuration are not modelled); subCfg.DisableCheckTxAmount = false',
        'receipt logs are decoded by log type with the protobuf messages of types/account.proto (harness side)',
        'FormatAddrKey lower-cases eth-style addresses: crypto context API == nil or fork ForkFormatAddressKey active '
        '(the harness runs with API == nil); before that fork no spelling is normalised',
        'default config: coin precision 1e8 (CheckAmount limit 1e17), MaxTokenBalance 9e18, minerExecs from the default config',
    ],
    'assumptions': [
        'C15_coins_actions_conserve is stated under ModelCoins.coins_guard (int64 amounts; supply + genesis grants <= '
        'MaxTokenBalance; sub-ledger total + amounts of deposit-type transactions < 2^63): without it the model allows a sender '
        'that is itself an executor address to pump one sub-account past 2^63 (needs a key for a hash-derived address)',
        'a receipt-less empty record left by a panicking account.DB call (GenesisInitExec with amount 0 saves the unchanged '
        'executor account first) is tolerated by the receipts-equal-store oracle; every other difference is a violation',
        'panics are observed through recover() at the account.DB call; the executor framework recovery/rollback is not part of this property',
        'the head-room guard of the partial theorems (sum of mint-type amounts + supply <= MaxTokenBalance, sum of '
        'deposit-type amounts + sub-ledger total < 2^63) makes safeAdd failures and int64 wrap impossible; the unrestricted '
        'stream still exercises safeAdd limits against the model',
    ],
    'manifest': {
        'level_text': 'extensions proved without guards: every successful operation returns a receipt whose KV list applied '
                      'in order IS the new ledger, whose logs are aligned with the KVs, carry Prev = account before and (when no '
                      'key is written twice) Current = account after (C15_receipt_matches_state; the twice-written case is '
                      'finding 1 and refuted); the coins driver state is the fold of its receipts; ledgers of different '
                      '(execer, symbol) without "-" have disjoint byte keys and never change each other, for all histories '
                      '(C15_ledgers_independent); coins transactions conserve supply except Genesis at height 0, fail atomically '
                      '(panic paths included) and keep all invariants under the head-room guard (C15_coins_actions_conserve). '
                      'Base ledger: partial: conservation, non-negativity/no-overflow, failure atomicity, executor consistency and '
                      'same-account reads are proved for all histories that satisfy boolean guards (no two spellings of one '
                      'account in one ExecTransfer/ExecTransferFrozen/TransferWithdraw, genesis amounts valid, head-room); '
                      'the unguarded statements are refuted (5 open findings reproduced on the Go code)',
        'level_note': 'Hand-written Gallina model of account.DB (15 operations + receipts, int64 wrap explicit), of the coins '
                      'executor (4 actions, fork / driver-address / para routing) and of several ledgers on one byte-keyed store, tied to /repo by '
                      'differential histories evaluated in the Coq kernel; memory KV, protobuf codec and the address-key '
                      'normaliser environment (API nil / fork active) are trusted.',
        'technique': 'Coq proof (invariant by induction over op histories, generic linear weighted sums, store-generic operations with a frame and a simulation argument) + in-kernel correspondence check',
    },
    'harness_timeout': {'quick': 300, 'thorough': 3000},
}
