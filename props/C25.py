SPEC = {
    'id': 'C25',
    'harness': 'hC25',
    'coq_dir': 'C25',
    'claimed': True,
    'theorems': ['C25_converges', 'C25_converges_nonvacuous', 'C25_below_margin_order_dependent'],
    'allowed_axioms': [],
    'shard': 12,
    'rule': 'a factory test node builds executed block trees rooted at the genesis block (one "none" transaction per '
            'block; trunk 8-18 blocks, 3-5 side branches with fork points below and above the 12-block margin, some '
            'overtaking the trunk; Difficulty bits from 4 values or all equal); each delivery order goes to a fresh '
            'node (same genesis; memdb backend, every 6th run leveldb) through BlockChain.ProcessBlock(pid = a peer): '
            'all orders of the off-trunk blocks of one small tree after its trunk, and per random tree the creation '
            'order, its reverse (children before parents), by-height interleaving, shuffles, shuffles with '
            're-deliveries, nearly-in-order with duplicates, and orders where 1-3 blocks never arrive. Observed per '
            'delivery: (isMainChain, isOrphan, error class), last header hash, stored total difficulty of the tip; '
            'at the end the hash at every height, last header, GetTx of every delivered block. kinds are prefixed '
            'guarded/unguarded by whether the theorem\'s guard (unique heaviest connected block at height >= 12) '
            'holds for the delivered set. non-trivial = the run contains an orphan or a reorganisation / orphan '
            'cascade; distinct = distinct Gallina case terms',
    'trusted_base': [
        'block validity and execution are an oracle: every block of the tree executes without error on any branch '
        '(the harness builds such blocks); rejection of invalid blocks is C27',
        'block hashes are abstract identifiers (distinct blocks have distinct hashes)',
        'the model of reorganizeChain takes the detach list from the best-chain view (the code walks parent '
        'pointers from the tip); they coincide while the view is a parent-linked chain, which the correspondence '
        'check observes through the per-delivery tip and final hash-by-height',
        'difficulty.CalcWork (C20) turns Difficulty bits into the per-block work used by the model',
    ],
    'assumptions': [
        'the finalized height is constant during the deliveries (0 without a finalizer); enableBestBlockCmp off; '
        'not a para chain; consensus may roll back (NoneRollback off)',
        'fewer than 10240 orphans and 102400 indexed blocks, no orphan older than 10 minutes (no eviction/expiry)',
        'deliveries are sequential (ProcessBlock from one goroutine)',
        'difficulties are non-negative and the root height is >= 0',
    ],
    'manifest': {
        'level_text': 'full for the selection logic: unbounded Coq theorem over all finite block trees and all '
                      'delivery sequences with duplicates (tip = unique heaviest block when it is at least 12 above '
                      'the finalized height, best chain = its ancestors, stored td = its td); the Go node agrees with '
                      'the model per delivery on every generated run; the persisted-chain half of the statement is '
                      'checked on the node (hash at every height, last header, transaction index of winning and '
                      'losing branches)',
        'level_note': 'block execution is an oracle; the finalizer does not move; orphan-pool and index capacity '
                      'limits are not reached; state-at-tip equality is covered through the header state hash only',
        'technique': 'Coq proof (invariants by induction over delivery histories, fuel-bounded loops shown not to run '
                     'out) + in-kernel correspondence check against test nodes',
    },
    'harness_timeout': {'quick': 400, 'thorough': 3600},
}
