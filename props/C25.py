SPEC = {
    'id': 'C25',
    'harness': 'hC25',
    'coq_dir': 'C25',
    'claimed': True,
    'theorems': ['C25_converges', 'C25_converges_nonvacuous', 'C25_below_margin_order_dependent',
                 'C25_ext_conservative', 'C25_ext_conservative_nonvacuous',
                 'C25_ext_converges', 'C25_ext_converges_nonvacuous', 'C25_tree_ok_sound', 'C25_heaviest_through_sound',
                 'C25_converges_unkept_refuted', 'C25_evicted_ancestor_example', 'C25_expired_ancestor_example',
                 'C25_redelivery_converges', 'C25_finalizer_on_best_chain',
                 'C25_finalized_stays_refuted', 'C25_finalized_reset_example', 'C25_finalized_stays_partial',
                 'C25_finalized_stays_steady', 'C25_finalized_stays_nonvacuous',
                 'C25_stale_pointer_example', 'C25_best_block_cmp_example', 'C25_check_guard_is_theorem_guard'],
    'allowed_axioms': [],
    'shard': 12,
    'rule': 'a factory test node builds executed block trees rooted at the genesis block (one "none" transaction per '
            'block; trunk 8-18 blocks, 3-5 side branches with fork points below and above the 12-block margin, some '
            'overtaking the trunk; Difficulty bits from 4 values or all equal); each delivery order goes to a fresh '
            'node (same genesis; memdb backend, every 6th run leveldb) through BlockChain.ProcessBlock(pid = a peer): '
            'all orders of the off-trunk blocks of one small tree after its trunk, and per random tree the creation '
            'order, its reverse (children before parents), by-height interleaving, shuffles, shuffles with '
            're-deliveries, nearly-in-order with duplicates, and orders where 1-3 blocks never arrive. Observed per '
            'delivery: (isMainChain, isOrphan, error class), last header hash, stored total difficulty of the tip; '
            'at the end the hash at every height, last header, GetTx of every delivered block. kinds are prefixed '
            'guarded/unguarded by whether the theorem\'s guard (unique heaviest connected block at height >= 12) '
            'holds for the delivered set. non-trivial = the run contains an orphan or a reorganisation / orphan '
            'cascade; distinct = distinct Gallina case terms. Extended runs (kinds ext/..., case CExt, model '
            'ModelExt.v), each on a fresh node: ext/fill-10240 (once): a waiting block is connected while '
            'oldestOrphan still points to it, three trunk blocks and an unconnected block wait in the pool, 10240 '
            'cheap unconnected blocks (random parent hash, never executed) fill it to maxOrphanBlocks and overflow '
            'it (the first removal hits the stale pointer: the pool stays one over its limit; the next ones push '
            'out the oldest: an unconnected block and two needed blocks), the trunk arrives, the dropped blocks '
            'are delivered again; ext/expiry(-redeliver): orders with orphans '
            'while types.SetTimeDelta jumps between -300 s, 0 and +300 s (ticks 0/3/6 in the model, ttl 5 ticks: '
            'an orphan received at tick 0 is expired at tick 6), a few unconnected blocks, optionally the whole '
            'tree again in creation order; ext/finalize-any|guarded|witness: EventSnowmanAcceptBlk messages to the '
            'blockchain module between deliveries (right block, wrong height, a hash nobody has, an old height) on '
            'trees with a long branch off a low trunk block (guarded = every finalize target leaves no block off '
            'its branches at its height+12 or above; witness = the refutation witness of '
            'C25_finalized_stays_refuted); ext/bestcmp: EnableBestBlockCmp on with a consensus module that prefers '
            'the smaller hash (solo wrapped), trees with equal-time siblings at and below the tip. Observed per '
            'event: ProcessBlock results, tip, its stored td, GetFinalizedBlock; at the end hash by height, '
            'IsKnownOrphan of every delivered hash, GetTx. non-trivial (extended) = the finalizer\'s choice changed, '
            'a delivered block was found neither stored nor pooled after an event or was pooled twice, the tip '
            'moved to a sibling (bestcmp), or the fill run',
    'trusted_base': [
        'block validity and execution are an oracle: every block of the tree executes without error on any branch '
        '(the harness builds such blocks); rejection of invalid blocks is C27',
        'block hashes are abstract identifiers (distinct blocks have distinct hashes)',
        'the model of reorganizeChain takes the detach list from the best-chain view (the code walks parent '
        'pointers from the tip); they coincide while the view is a parent-linked chain, which the correspondence '
        'check observes through the per-delivery tip and final hash-by-height',
        'difficulty.CalcWork (C20) turns Difficulty bits into the per-block work used by the model',
        'extended model: receive times are one value per delivery (AddOrphanBlock reads the clock several times); '
        'orphans with equal expiration are ordered by insertion (the node\'s map order decides; its nanosecond '
        'clock does not produce ties); the harness abstracts real time to ticks of 100 s (valid while a run takes '
        '< 90 s, checked per run); maxOrphanBlocks >= 1 (with 0 the code dereferences a nil oldestOrphan); '
        'util.CmpBestBlock is an oracle (the consensus module\'s answer); HaveBlock(hash, height) is modelled as '
        '"hash in the view and indexed at that height"; the finalize handler runs on its own goroutine: the '
        'harness waits until it has returned (or parked on the health channel) before the next event',
    ],
    'assumptions': [
        'C25_converges (Model.v): the finalized height is constant during the deliveries, enableBestBlockCmp off, '
        'fewer than 10240 orphans, no orphan older than 10 minutes - C25_ext_conservative shows this is the '
        'extended model when nothing is dropped and the choice does not move; the C25_ext_* theorems drop these '
        'assumptions (guards kept_all / steady instead)',
        'not a para chain; consensus may roll back (NoneRollback off); fewer than 102400 indexed blocks; the '
        'finalizer\'s background tasks (lazyStart, healthCheck, resetEngine) do not fire (they need >= 10 peers / '
        'minutes of wall time)',
        'deliveries are sequential (ProcessBlock from one goroutine)',
        'difficulties are non-negative and the root height is >= 0',
    ],
    'manifest': {
        'level_text': 'full for the selection logic: unbounded Coq theorem over all finite block trees and all '
                      'delivery sequences with duplicates (tip = unique heaviest block when it is at least 12 above '
                      'the finalized height, best chain = its ancestors, stored td = its td); the Go node agrees with '
                      'the model per delivery on every generated run; the persisted-chain half of the statement is '
                      'checked on the node (hash at every height, last header, transaction index of winning and '
                      'losing branches). Extended (ModelExt.v, proved conservative over the first model): the same '
                      'for deliveries against the orphan pool\'s expiry and 10240 limit, finalize events between '
                      'deliveries and best-block comparison - unbounded theorems with boolean guards (nothing needed '
                      'stays dropped, no delivery lowers the finalizer\'s choice), re-delivery after any history, '
                      'the choice always on the best chain; partial for "a finalized block stays on the best chain" '
                      '(refuted for the code as it is: known finding 1, holds under the fin_safe / steady guards)',
        'level_note': 'block execution is an oracle; state-at-tip equality is covered through the header state '
                      'hash only. Extended model (orphan expiry / 10240 limit with the stale oldest pointer, moving '
                      'finalizer with connectBestChain\'s reset, best-block comparison): convergence to the '
                      'heaviest block among the branches through the finalized block when no needed block stays '
                      'dropped and no delivery lowers the choice (C25_ext_converges), after ANY history once the '
                      'tree is delivered again parents first (C25_redelivery_converges), the choice is always on '
                      'the best chain (C25_finalizer_on_best_chain); the full claims without the guards are refuted '
                      '(C25_converges_unkept_refuted; C25_finalized_stays_refuted = known finding 1: a finalized '
                      'block is reorganised away by a heavier branch reaching finalized+12, reproduced on nodes)',
        'technique': 'Coq proof (invariants by induction over delivery histories, fuel-bounded loops shown not to run '
                     'out) + in-kernel correspondence check against test nodes',
    },
    'harness_timeout': {'quick': 600, 'thorough': 5400},
}
