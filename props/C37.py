SPEC = {
    'id': 'C37',
    'harness': 'hC37',
    'coq_dir': 'C37',
    'claimed': True,
    'theorems': [
        'C37_cbc_roundtrip', 'C37_cbc_legacy_roundtrip', 'C37_formats_disjoint', 'C37_format_test_exact',
        'C37_cbc_roundtrip_anylen_refuted', 'C37_cbc_legacy_anylen_refuted',
        'C37_gcm_roundtrip', 'C37_gcm_legacy_roundtrip',
        'C37_password_separation_refuted', 'C37_password_separation_partial', 'C37_interchangeable',
        'C37_setpasswd_preserves', 'C37_setpasswd_preserves_legacy', 'C37_setpasswd_failure_unchanged',
    ],
    'allowed_axioms': [],
    'shard': 70,
    'check_preamble': 'Require Import C33.C37.Model C33.C37.Spec.\n',
    'rule': 'direct streams on wallet/common CBCEncrypterPrivkey/CBCDecrypterPrivkey and wallet AesgcmEncrypter/AesgcmDecrypter: '
            'passwords of 0..40 arbitrary bytes (boundary lengths 31/32/33, trailing NUL, wallet-valid ones), keys of 32/64 bytes '
            '(cbc-enc, cbc-legacy with blobs from the harness\'s own fixed-IV single-block-AES encrypter), other lengths incl. non '
            'block multiples (…-unsupported-len, panics observed), cross-password decryption (same / valid-distinct / arbitrary-distinct / '
            'colliding passwords), arbitrary blobs of 0..112 bytes through the decrypter (format-test boundaries), GCM round trip, legacy '
            'fixed-nonce blobs from the harness\'s own crypto/cipher GCM, cross-password, bit-flipped and arbitrary blobs. '
            'History streams on a real wallet.Wallet (secp256k1 or ed25519 config, fault-injecting mem DB, mocked blockchain/store topics): '
            'SaveSeed, Unlock (right/wrong), Lock, Restart (new Wallet on the same DB), ProcImportPrivKey (pool of 1-3 keys, repeated, wrong length, '
            'ed25519 32/64 variants), ProcWalletSetPasswd (current / other / malformed old password, valid / invalid new password, batch write '
            'failure injected in hist-fault), ProcDumpPrivkey and GetSeed under every password of the alphabet after each change; hist-legacy starts from '
            'legacy seed and key records written directly into the DB; hist-edge stores arbitrary / unsupported-length / foreign-password records; '
            'hist-collide ends with GetSeed(current password + NUL bytes) (known finding 1). After every operation the stored key records are compared '
            'byte for byte with the model (IV = observed prefix) and the seed record by length. '
            'non-trivial: direct = the decrypter returned bytes (tamper: an error); history = a Dump returned bytes after a successful password change '
            'with at least one account. distinct = distinct Gallina case terms',
    'trusted_base': [
        'AES-256 single-block encryption/decryption is a Section variable pair E/D with the hypotheses D k (E k b) = b and |E k b| = 16 on 16-byte '
        'blocks (perm); in the correspondence check it is instantiated per case by a lookup table of crypto/aes single-block evaluations that the '
        'harness computes independently of the wallet code',
        'AES-256-GCM is a Section variable pair seal/open with open k n (seal k n m) = Some m and |seal k n m| = |m| + 16 (aead); the legacy-seed '
        'theorems additionally take as a premise that reading a legacy blob as nonce-prefixed is rejected (GCM authentication). In the correspondence '
        'check GCM is an ideal AEAD (seed blobs compared by length and nonce, reads by result)',
        'the salted SHA-256 password hash record is modelled by the password it was computed from (collision freedom of SHA-256 on passwords)',
        'the wallet DB batch is atomic (written completely or not at all); DB, queue, bip39/bip32, address derivation are not modelled: accounts are '
        'identified by an id the harness derives from the real address',
        'crypto/rand output (IV, nonce) is an input of the model, read back from the stored blob',
        'isValidPassWord is modelled for ASCII passwords only (the harness generates no non-ASCII wallet passwords)',
        'hook file /repo/common/db/creator_verif.go (add-only, build tag verif): exports registerDBCreator so the harness can run wallet.New on a '
        'fault-injecting memory DB',
        'Coq kernel + vm_compute (refutation witnesses, Examples, case evaluation)',
    ],
    'assumptions': [
        'supported private-key lengths are 32 and 64 bytes (bipwallet PrivkeyToPub rejects everything else); for other block-multiple lengths the '
        'round trip is false (C37_cbc_roundtrip_anylen_refuted, C37_cbc_legacy_anylen_refuted, known finding 2)',
        'distinct passwords are only guaranteed to give distinct keys when both pass isValidPassWord (C37_password_separation_partial); in general they '
        'do not (C37_password_separation_refuted, known finding 1)',
        'C37_setpasswd_preserves quantifies over histories of API operations with 12-byte nonces and 16-byte IVs (what crypto/rand delivers); the '
        'record-injection operations of the model exist only for the harness and are covered by C37_setpasswd_preserves_legacy (legacy wallets) and by '
        'correspondence (arbitrary records)',
    ],
    'manifest': {
        'level_text': 'full for the wallet logic over abstract ciphers: CBC round trip for every password and both key lengths, legacy fixed-IV and '
                      'fixed-nonce formats, exactness of the length-based format test, and preservation of the seed and of every stored key by every '
                      'history of successful, rejected and failing password changes (also from a legacy wallet). Partial in two stated respects: '
                      'secrets of other lengths do not round-trip (known finding 2) and passwords are identified up to their derived key (known finding 1)',
        'level_note': 'AES is assumed to be a block permutation and GCM a correct AEAD with 16-byte tag; the password hash is modelled by the password; '
                      'DB batch atomicity assumed; model tied to the Go code by the per-check correspondence run (byte-exact key blobs via table-backed AES)',
        'technique': 'Coq proof (CBC/GCM algebra over abstract ciphers, invariant by induction over operation histories) + in-kernel correspondence check '
                     'against wallet/common and a real wallet.Wallet',
    },
    'harness_timeout': {'quick': 300, 'thorough': 3000},
}
