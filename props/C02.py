SPEC = {
    'id': 'C02',
    'harness': 'hC02',
    'coq_dir': 'C02',
    'claimed': True,
    'theorems': [
        'C02_hash_denotes_tree', 'C02_set_refines_pure',
        'C02_root_deterministic', 'C02_root_deterministic_state', 'C02_root_cfg_independent',
        'C02_store_sound_invariant', 'C02_cache_sound_invariant', 'C02_history_sound',
        'C02_memset_commit_eq_set', 'C02_memset_empty',
        'C02_update_total_refuted', 'C02_update_total_partial', 'C02_update_total_nomem',
    ],
    'allowed_axioms': [],
    'shard': 8,
    'rule': 'one case = one generated history of store operations replayed against the real mavl store under all 32 '
            'combinations of enableMavlPrefix/enableMVCC/enableMavlPrune/enableMemTree/enableMemVal (pruneHeight 0 or '
            '1000000 and tkCloseCacheLen 0 or 7 drawn per run) x {direct Store.Set, MemSet+Commit} = 64 runs, each on a '
            'fresh database (goleveldb memdb; LevelDB for prune runs and for every 7th history) with the process-global '
            'memTree emptied. Operations: update of the empty root or of a root committed earlier in the history '
            '(most recent, or an older one = fork) at a block height from a 1-4 range so that heights collide, 1-8 '
            'writes over a 3-16 key alphabet with 3 values (1/15 empty write lists, rewrites of present values), applied '
            'for good or only as MemSet; Commit / Rollback of pending roots, also of hashes that are no longer pending '
            '(ErrHashNotFound expected); whole-version reads (fresh Tree, Load, pre-order dump of every node) of '
            'committed roots. Streams: guarded-small/large (no pending-only updates: no failure is tolerated in any '
            'run), mixed-small/large, rewrite (a pending rewrite of present values at another height, rolled back or '
            'left pending, then more work on the same parent - the shape of known finding 1), alias (trees of height '
            '> 2, 1-2 block heights, 40 % updates without writes on arbitrary committed roots - known finding 2 and the '
            'repaired finding 3: root objects cached by the prune bookkeeping). Observables per '
            'operation and run: result class (ok / ErrNodeNotExist / ErrHashNotFound / panic / other), equality class '
            'of the returned root over ALL runs of the case, node structure (keys, heights, sizes) of probed versions. '
            'A history is only used if the legality of its Commit/Rollback operations does not depend on whether '
            'committed updates touch the table of pending trees (Set does not, MemSet+Commit does). '
            'non-trivial = at least 3 updates and 2 distinct non-empty roots; distinct = distinct Gallina case terms',
    'trusted_base': [
        'SHA-256 over the protobuf encoding of LeafNode/InnerNode is a free term algebra (C01.Store.hash); '
        'InnerNode.Hash feeding only the last 32 bytes of each child key is modelled as "snd of the child key" - the '
        'correspondence check (root classes across prefixed and unprefixed runs) is what ties this to the Go code',
        'farm.Hash64 is treated as injective on the node keys that occur (memTree is keyed by it; the model keys it by '
        'the node key). A collision would let memTree return another node\'s record - no test could show that either',
        'lazy loading is modelled by materialising the version first and replaying the loads/orphanings the Go '
        'algorithm performs (Model.v header); exactness of that replay is checked by the correspondence on error '
        'behaviour (panics are predicted per run and operation) and by the probes',
        'LevelDB / memdb and the ARC implementation are oracles (finite maps, no eviction at the sizes used). That '
        'LevelDB iterators reuse their key buffer is no longer visible: since chain33 7d7bddb DelLeafCountKV copies '
        'the root hash before Load, so a cached node object is described by its record alone (prune runs still use '
        'LevelDB, and the alias stream re-creates the histories of the former finding 3)',
        'hooks: /repo/system/store/mavl/db/dump_verif.go (read-only pre-order dump, from C01) and '
        '/repo/system/store/mavl/db/memreset_verif.go (empties memTree/tkCloseCache between runs without '
        're-allocating the 500000-entry map)',
    ],
    'assumptions': [
        'no ticket leaves (keys "mavl-ticket-..." with a closed ticket value): tkCloseCache stays empty',
        'the pruning goroutine never runs (pruneHeight 0 or far above the heights used): pruning itself is C05; the '
        'prune bookkeeping that loads nodes on Save (DelLeafCountKV) IS modelled, block heights of prune runs are '
        'shifted above every height saved earlier in the process because maxBlockHeight is a process global',
        'parents of updates are the empty root or roots committed in the same history (the property speaks of '
        'committed roots); updates of never-committed roots behave configuration-dependently (memTree may serve them)',
        'DelKVPair is not a write path of the store (Store.Del is a stub) and is outside this property: with '
        'EnableMavlPrefix it can return a prefixed node key as the new root (observed by C01\'s builder)',
        'totality of updates is proved under the state-level guard "the version below the prior root resolves '
        'completely" (C02_update_total_partial) and, along all well-formed histories, for configurations without '
        'memTree and without prune (C02_update_total_nomem: database closed under child keys, ARC cache within it, '
        'pending trees only refer to stored nodes); for memTree without prefix and for prune without memTree it is '
        'exercised (every such run must succeed on every history), not proved',
        'heights/sizes are int32 in Go and Z in the model',
    ],
    'manifest': {
        'level_text': 'partial: the root part of the statement is proved at full strength - after every history, under every '
                      'configuration (prune included, known finding 3 is repaired in chain33 7d7bddb), block height, cache '
                      'and pending-tree state, a successful update returns C01\'s pure root (C02_root_deterministic; also for '
                      'every sound state, Set = MemSet+Commit, configuration-independent); soundness of database, caches and '
                      'pending trees is invariant. The totality part (every update of a committed root succeeds) is refuted '
                      'in the model and on the Go code under prefix+memTree (known findings 1, 2: panics, still open): an '
                      'update succeeds whenever the version below its parent resolves completely, which holds along every '
                      'well-formed history when memTree and prune are off',
        'level_note': 'symbolic injective SHA-256 and farm hash; LevelDB/ARC as oracles; lazy loading modelled by '
                      'materialise-and-replay, validated by per-run prediction of panics; two add-only hook files',
        'technique': 'Coq proof (refinement of the annotated Go algorithm to C01\'s pure tree through the tree a hash '
                     'denotes; local-soundness invariant over all store operations) + in-kernel correspondence check over '
                     '64 configuration/mode runs per history',
    },
    'harness_timeout': {'quick': 900, 'thorough': 9000},
}
