SPEC = {
    'id': 'C21',
    'harness': 'hC21',
    'coq_dir': 'C21',
    'claimed': True,
    'theorems': ['C21_init_consistent', 'C21_event_preserves', 'C21_consistent_all_histories',
                 'C21_block_txs_gone', 'C21_shash_owner_kept', 'C21_shash_fresh_indexed',
                 'C21_shash_first_come_found', 'C21_owner_kept_under_collision',
                 'C21_refuted_shash', 'C21_shash_partial',
                 'C21_oracle_accepts_invariant', 'C21_oracle_accepts_short', 'C21_oracle_short_meaning',
                 'C21_oracle_accepts_block',
                 'C21_guard_satisfiable', 'C21_peracc_hypothesis_needed',
                 # any QueueCache (contract), SimpleQueue as an instance, skiplist.Queue as a non-instance
                 'C21_consistent_any_contract_queue', 'C21_contract_arrival_order', 'C21_simple_queue_contract',
                 'C21_consistent_via_contract', 'C21_skiplist_queue_breaks_contract', 'C21_skiplist_push_evicts',
                 # txCache over common/skiplist.Queue, precisely
                 'C21_skipqueue_refuted', 'C21_skipqueue_partial', 'C21_skipqueue_first_eviction_breaks',
                 'C21_skipqueue_queue_side', 'C21_skipqueue_block_txs_gone',
                 'C21_skipqueue_guard_satisfiable', 'C21_skipqueue_witness',
                 # delayed-transaction cache
                 'C21_delay_refines_flat', 'C21_delay_observables', 'C21_delay_release_exact',
                 'C21_delay_release_order', 'C21_delay_not_due_stays', 'C21_delay_example'],
    'allowed_axioms': [],
    'shard': 24,
    'check_preamble': 'From C33 Require Import C21.Model C21.DelayModel.\nOpen Scope Z_scope.\n',
    'case_type': 'option case',
    'rule': 'event histories (push / remove-batch / expiry sweep / block added / block rolled back; 1-40 events quick, '
            '3-80 thorough) over 4-12 transactions of 3 senders (plain and 2-3 member groups; expiry none / by height / by '
            'block time; pool-age expiry through a shortened interval), queue capacity 1-6, per-sender limit 1-4, latest '
            'list 1-4, short-hash cache >= capacity; virtual clock via types.SetTimeDelta. Streams: "guarded" (no short-hash '
            'collision in the history: every spec failure is a violation), "collide" (contains real 40-bit short-hash '
            'collisions found by a birthday search over 3e6 payloads; may hit what is left of the open finding; every '
            'other failure, in particular an indexed transaction losing its entry while pooled, is a violation), '
            '"collide-witness" (push A, push B, remove A: the remaining refutation witness), "collide-repaired" (push A, '
            'push B, remove B and variants: the witness repaired by a576c70, no failure allowed), '
            '"concurrent-smoke" (8 goroutines on one pool, only the final state is judged by the '
            'oracle: a test, not part of the proof), "delay" / "delay-tiny" / "delay-fixed" (pool histories over plain '
            'transactions mixed with delayed-transaction events on the real Mempool: EventAddDelayTx handler with ends '
            'around the current block time / height, in the past, without transaction; added blocks carrying 0-3 '
            'CommitDelayTx actions with relative time / height >0, =0, <0; delay capacity PoolCacheSize/2 = 0-5; heights '
            'that skip and repeat, block times that go back; fixed scenarios: release by height / by time, one key that is '
            'in the time window and is the height, duplicates, overflow, an end in the past that blocks a capacity-1 cache '
            'for ever, a skipped height; after every event the pool observables plus contains() of every known hash, '
            'len(hashCache), the reply class and the list queued for pushDelayTxRoutine are recorded and judged by the '
            'two-map model (exact released order) and by the flat specification). After every event the full observable state is recorded (Walk order, '
            'Size, TxNumOfAccount and GetAccTxs per sender, GetLatestTx, short- and full-hash lookup of every known hash, '
            'TotalFee, GetTotalCacheBytes, error class). non-trivial = the pool is non-empty after some event (delay streams: '
            'the delay cache is non-empty or something is released at some event); '
            'distinct = distinct Gallina case terms',
    'trusted_base': [
        'the 5-byte short hash is an arbitrary function sh of the hash (a function argument of the model; the theorems '
        'quantify over it); in the correspondence check it is the table of types.CalcTxShortHash values the harness computed',
        'transactions are abstract records (hash id, sender id, Fee, proto size, Expire per member); the harness maps real '
        'hashes/addresses to small ids and computes types.Size for the record',
        'hook file /repo/system/mempool/access_verif.go (build tag verif): accessors for TotalFee, getTxListByHash, '
        'removeExpired, eventAddBlock, setHeader+delBlock, Walk, Exist; binds a queue client without starting goroutines; '
        'sets the package variable mempoolExpiredInterval',
        'SimpleQueue is the queue implementation chain33 ships (the default "timeline" mempool). The generic theorems '
        '(QueueModel/QueueProofs) are about txCache over a record of queue operations; their tie to cache.go is the '
        'SimpleQueue instance (of_state_run: the generic model over simple_ops IS Model.v, which the harness checks). '
        'txCache over common/skiplist.Queue (SkipQModel: cache.go as in Model.v + the C24 model of the queue + an arbitrary '
        'score function) is a model-only result - no chain33 binary plugs that queue into txCache, no harness stream runs '
        'it; the price/score queues of the plugin repository are not part of /repo and are not modelled',
        'delayed transactions: a transaction is its hash id; EndDelayTime is one integer meaning block time or height as in '
        'the code; the scan t = lastBlockTime+1..currBlockTime of delExpiredTxs is modelled as the ascending keys inside the '
        'window; parsing of CommitDelayTx actions out of block transactions and the account blacklist check are executed '
        'by the Go side only (no blocked accounts in the harness); pushDelayTxRoutine (goroutine calling SendTx, retry on '
        'ErrMemFull) is not modelled: what the release queues for it is an observable',
        'hook file /repo/system/mempool/access21b_verif.go (build tag verif): runs the EventAddDelayTx handler, '
        'delayTxCache.contains, len(hashCache), non-blocking drain of delayTxListChan',
    ],
    'assumptions': [
        'MaxTxNumPerAccount >= 1 (hypothesis 1 <= c_peracc of every theorem; NewMempool replaces 0 by 100; a negative value '
        'breaks the bookkeeping, see C21_peracc_hypothesis_needed)',
        'short-hash clause: SubConfig.PoolCacheSize <= Mempool.PoolCacheSize (hypothesis c_qcap <= c_shmax; timeline.New sets '
        'them equal by default). "Every pooled transaction is found": sh injective on the pooled hashes in every state of the '
        'history (boolean guard sh_inj_pool, C21_shash_partial). Without it (C21_shash_first_come_found): a transaction is found '
        'from its push to its removal when no pooled transaction had its short hash at the moment of its push',
        'the oracle clause spec_short demands a non-empty short-hash lookup for every pooled hash (the index holds one '
        'transaction per short hash; with spec_base: found itself unless another pooled transaction with the same short hash is '
        'returned, C21_oracle_short_meaning) - the strongest clause an index of this shape can satisfy',
        'Expire values above 2^62 (TxHeight style) are not modelled and not generated',
        'delBlock: the model receives the pool-level transactions of the block that pass Transaction.Check (group merging, '
        'miner skip and Check are executed by the Go side only)',
        'eventDelBlock obtains the new tip from the blockchain module; the harness passes it in (VerifDelBlock = setHeader + delBlock)',
        'queue contract (C21_consistent_any_contract_queue): fresh queue empty; Walk without duplicate hash; GetItem/Size/'
        'GetCacheBytes agree with the Walk; Size <= capacity; a Push answering an error changes nothing; a successful Push '
        'adds exactly the pushed item and removes nothing; Remove removes exactly the named item; Walk order free. '
        'common/skiplist.Queue does not meet it (its Push evicts: C21_skiplist_queue_breaks_contract); for txCache over that '
        'queue the invariant holds exactly as long as no Push evicts (C21_skipqueue_partial / _first_eviction_breaks; '
        'hypothesis hash_table_ok: the transaction a hash names has that hash)',
        'delay cache: the header is set when the history starts (with a nil header and a non-empty cache the first '
        'delExpiredTxs would scan every second since 1970); an entry whose EndDelayTime can never come due is accepted and '
        'never leaves (C21_delay_not_due_stays) - the flat specification allows that, see the report / work/C21/fix1.diff',
        'concurrency: every Mempool method takes proxyMtx, the theorems are about sequential histories; the concurrent run is a smoke test',
    ],
    'manifest': {
        'level_text': 'full for sequential histories (invariant proved for all histories, tied to the Go code by per-event '
                      'correspondence of all observables); short-hash clause partial: after chain33 a576c70 an index entry '
                      'provably stays with its owner while the owner is pooled and a transaction pushed without a pooled '
                      'collision is indexed (all histories), but the full clause is still refuted (a transaction pushed while '
                      'a colliding one is pooled is never indexed: open finding, narrowed); concurrency partial (smoke test only). '
                      'Queue interface: the invariant is proved for EVERY QueueCache meeting a stated contract (SimpleQueue '
                      'meets it; the direct theorem is re-derived as a corollary); documented contract mismatch: /repo\'s '
                      'common/skiplist.Queue evicts inside Push and meets the contract under no representation invariant - '
                      'txCache over it keeps the invariant exactly until the first eviction (model-only, proved; not a '
                      'finding: chain33 plugs only SimpleQueue into txCache). Delayed-transaction cache: full for '
                      'sequential histories (two-map bookkeeping refines a flat pending list for all histories; release = '
                      'exactly the due entries, once, in the stated order; tied to the Go code by per-event correspondence)',
        'level_note': 'model = hand-written Gallina transcription of listmap/simplequeue/accountindex/lasttx/shorthashtx/cache/'
                      'base(eventAddBlock, delBlock, removeExpired) and of delayTxCache + its two call sites; generic txCache '
                      'over a record of queue operations; short hash abstract; hook files export internals',
        'technique': 'Coq proof (invariant by induction over event histories) + in-kernel correspondence check',
    },
    'harness_timeout': {'quick': 300, 'thorough': 3000},
}
