SPEC = {
    'id': 'C21',
    'harness': 'hC21',
    'coq_dir': 'C21',
    'claimed': True,
    'theorems': ['C21_init_consistent', 'C21_event_preserves', 'C21_consistent_all_histories',
                 'C21_block_txs_gone', 'C21_shash_owner_kept', 'C21_shash_fresh_indexed',
                 'C21_shash_first_come_found', 'C21_owner_kept_under_collision',
                 'C21_refuted_shash', 'C21_shash_partial',
                 'C21_oracle_accepts_invariant', 'C21_oracle_accepts_short', 'C21_oracle_short_meaning',
                 'C21_oracle_accepts_block',
                 'C21_guard_satisfiable', 'C21_peracc_hypothesis_needed'],
    'allowed_axioms': [],
    'shard': 24,
    'check_preamble': 'From C33 Require Import C21.Model.\nOpen Scope Z_scope.\n',
    'case_type': 'option case',
    'rule': 'event histories (push / remove-batch / expiry sweep / block added / block rolled back; 1-40 events quick, '
            '3-80 thorough) over 4-12 transactions of 3 senders (plain and 2-3 member groups; expiry none / by height / by '
            'block time; pool-age expiry through a shortened interval), queue capacity 1-6, per-sender limit 1-4, latest '
            'list 1-4, short-hash cache >= capacity; virtual clock via types.SetTimeDelta. Streams: "guarded" (no short-hash '
            'collision in the history: every spec failure is a violation), "collide" (contains real 40-bit short-hash '
            'collisions found by a birthday search over 3e6 payloads; may hit what is left of the open finding; every '
            'other failure, in particular an indexed transaction losing its entry while pooled, is a violation), '
            '"collide-witness" (push A, push B, remove A: the remaining refutation witness), "collide-repaired" (push A, '
            'push B, remove B and variants: the witness repaired by a576c70, no failure allowed), '
            '"concurrent-smoke" (8 goroutines on one pool, only the final state is judged by the '
            'oracle: a test, not part of the proof). After every event the full observable state is recorded (Walk order, '
            'Size, TxNumOfAccount and GetAccTxs per sender, GetLatestTx, short- and full-hash lookup of every known hash, '
            'TotalFee, GetTotalCacheBytes, error class). non-trivial = the pool is non-empty after some event; '
            'distinct = distinct Gallina case terms',
    'trusted_base': [
        'the 5-byte short hash is an arbitrary function sh of the hash (a function argument of the model; the theorems '
        'quantify over it); in the correspondence check it is the table of types.CalcTxShortHash values the harness computed',
        'transactions are abstract records (hash id, sender id, Fee, proto size, Expire per member); the harness maps real '
        'hashes/addresses to small ids and computes types.Size for the record',
        'hook file /repo/system/mempool/access_verif.go (build tag verif): accessors for TotalFee, getTxListByHash, '
        'removeExpired, eventAddBlock, setHeader+delBlock, Walk, Exist; binds a queue client without starting goroutines; '
        'sets the package variable mempoolExpiredInterval',
        'SimpleQueue is the queue implementation (the default "timeline" mempool); the score/price plugin queues are not modelled',
    ],
    'assumptions': [
        'MaxTxNumPerAccount >= 1 (hypothesis 1 <= c_peracc of every theorem; NewMempool replaces 0 by 100; a negative value '
        'breaks the bookkeeping, see C21_peracc_hypothesis_needed)',
        'short-hash clause: SubConfig.PoolCacheSize <= Mempool.PoolCacheSize (hypothesis c_qcap <= c_shmax; timeline.New sets '
        'them equal by default). "Every pooled transaction is found": sh injective on the pooled hashes in every state of the '
        'history (boolean guard sh_inj_pool, C21_shash_partial). Without it (C21_shash_first_come_found): a transaction is found '
        'from its push to its removal when no pooled transaction had its short hash at the moment of its push',
        'the oracle clause spec_short demands a non-empty short-hash lookup for every pooled hash (the index holds one '
        'transaction per short hash; with spec_base: found itself unless another pooled transaction with the same short hash is '
        'returned, C21_oracle_short_meaning) - the strongest clause an index of this shape can satisfy',
        'Expire values above 2^62 (TxHeight style) are not modelled and not generated',
        'delBlock: the model receives the pool-level transactions of the block that pass Transaction.Check (group merging, '
        'miner skip and Check are executed by the Go side only)',
        'eventDelBlock obtains the new tip from the blockchain module; the harness passes it in (VerifDelBlock = setHeader + delBlock)',
        'concurrency: every Mempool method takes proxyMtx, the theorems are about sequential histories; the concurrent run is a smoke test',
    ],
    'manifest': {
        'level_text': 'full for sequential histories (invariant proved for all histories, tied to the Go code by per-event '
                      'correspondence of all observables); short-hash clause partial: after chain33 a576c70 an index entry '
                      'provably stays with its owner while the owner is pooled and a transaction pushed without a pooled '
                      'collision is indexed (all histories), but the full clause is still refuted (a transaction pushed while '
                      'a colliding one is pooled is never indexed: open finding, narrowed); concurrency partial (smoke test only)',
        'level_note': 'model = hand-written Gallina transcription of listmap/simplequeue/accountindex/lasttx/shorthashtx/cache/'
                      'base(eventAddBlock, delBlock, removeExpired); short hash abstract; hook file exports internals',
        'technique': 'Coq proof (invariant by induction over event histories) + in-kernel correspondence check',
    },
    'harness_timeout': {'quick': 300, 'thorough': 3000},
}
