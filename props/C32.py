SPEC = {
    'id': 'C32',
    'harness': 'hC32',
    'coq_dir': 'C32',
    'claimed': True,
    'theorems': [
        'C32_acked_contiguous_increasing', 'C32_acked_contiguous_increasing_holds',
        'C32_recorded_le_acked', 'C32_recorded_le_acked_holds',
        'C32_block_kinds_consecutive', 'C32_getPushData_exact', 'C32_getPushData_no_panic',
        'C32_oversize_block_stalls', 'C32_recorded_monotone', 'C32_fix_no_skip', 'C32_fix_progress',
        'C32_deliverable_block_posted',
        'C32_single_task_per_subscriber_refuted', 'C32_single_task_per_subscriber_partial',
        'C32_reg_acked_contiguous_increasing_refuted', 'C32_reg_acked_contiguous_increasing_partial',
        'C32_reg_recorded_le_acked_partial',
        'C32_reg_recorded_monotone_refuted', 'C32_reg_recorded_monotone_partial',
        'C32_reg_recorded_only_after_ack', 'C32_second_task_replays', 'C32_fix2_guard', 'C32_before_repair_guard_needed',
        'C32_error_exit_blocks_close', 'C32_close_twice_panics',
    ],
    'allowed_axioms': [],
    'shard': 70,
    'check_preamble': 'Open Scope Z_scope.\n',
    'rule': 'four case kinds (CReg and CRace at the end). CGpd: one call of getPushData(type, start, count, maxSize) on a generated sequence store '
            '(1-9 entries; block sizes 0-6 with limits 0-14, real header / per-block receipt sizes with the limit placed at a '
            'window sum -1/0/+1/+2; starts and counts also out of range; count 0 = index panic); non-trivial = error, panic, nil data '
            'or a payload shorter than the count. CHist: one history of the real Push task over in-memory stores and a scripted '
            'PostService: registration (with/without LastSequence, wrong hash, sequence beyond the log), chain growth incl. DelBlock '
            'entries, scripted post results (fail probability 0-90%, at most 7 failures per history), re-registrations (same / '
            'changed URL), probes, Close + new Push over the same stores; push types block, header, tx receipt, tx result, EVM event (blocks also carry an evm transaction of another contract and a failed one of the subscribed contract); '
            'sizes around the real 1 MiB limit (block sizes are mock numbers, header / receipt sizes are real proto sizes tuned by '
            'payload length); batches of 10 / 100; postFail2Sleep 1 (2-3 in the sleepN stream with waits for the counter). The task '
            'goroutine is held at LoadBlockLastSequence / PostData while the script acts, so the trace is the real event order. '
            'non-trivial = a failed post was later retried successfully, or a deactivation was followed by a re-registration; '
            'distinct = distinct Gallina case terms. '
            'CReg: one history of SEVERAL task goroutines of one name on the real Push: every goroutine runTask spawns is identified '
            '(goroutine id, numbered in spawn order) and held at its first store read (getLastPushSeq), at every LoadBlockLastSequence, '
            'at every PostData, at the "exceed 3 times" log call (status notRunning written, entry not yet deleted; through a log15 '
            'handler) and at the record store of its deactivation; a first registration can be held at its record store; exactly one '
            'goroutine is released at a time by a seeded scheduler, so the trace is the real step order. Streams: reg-guarded '
            '(registrations only outside start-up/shutdown windows), reg-overlap (registrations preferably while a goroutine is '
            'held in its start-up, also right after the first registration; before fix c2166d1 this started 2-6 goroutines, now one: '
            'any spec failure in these two streams is a violation), reg-deactwin '
            '(registration while the failing goroutine sits between status=notRunning and delete(tasks), then a second one), '
            'reg-addtask (second first registration while the first is held at its record store), with growth, failures '
            '(deactivation only by a goroutine that is alone on its pushNotify), probes, a LoadBlockLastSequence error before Close '
            '(Close then hangs), Close (goroutines leave one by one, observed through the "push task closed" log), second Close '
            '(panic). Types block/header/receipt/result/EVM (orphan shapes: block kinds). non-trivial = at least two goroutines and two '
            'acknowledged posts. CRace: free-running (nothing held): 20 names per Push, each registered with a resume point and '
            'registered again twice at once (fresh), or deactivated by a dead endpoint (three real failures, 1 s apart) and registered '
            'again twice (deact); one case per name with what its endpoint received (exactly one goroutine must start; nothing is '
            'excused here); non-trivial = at least two goroutines did a start-up read (never on the repaired code)',
    'trusted_base': [
        'SequenceStore / CommonStore are in-memory doubles with BlockStore\'s conventions (append-only sequence log, GetKey -> '
        'ErrNotFoundInDb, List -> ErrNotFound when empty); blockstore.go\'s own storage of the sequence log is not exercised here',
        'goroutines, channels and timers are abstracted to the event alphabet (ESeq l | ETick | EPostOk | EPostFail | EResume | '
        'EClose | ERestart); the theorems quantify over all event sequences, the harness samples real schedules',
        'Model.v (C32_acked_… / C32_recorded_… without _reg_) is ONE task goroutine whose start is atomic; ModelReg.v is the transition '
        'system over several goroutines of one name with the start-up steps (spawn, last-seq read, status write), the shutdown steps '
        '(status notRunning, delete(tasks), record store), check2ResumePush as one step (it holds push.mu), setActive, the steps of a '
        'second concurrent first registration, Close / exit / restart; in it the notification queue is not a state component (a '
        'notification may be taken at any time: a superset of the real schedules), so the blocking send of updateLastSeq on a full '
        'queue while push.mu is held (liveness) is not modelled; setActive is one step (its read-then-write against the deactivation '
        'record store only affects the stored status); subscribers of different names are independent (separate keys, separate '
        'pushNotify objects) and are modelled one name at a time',
        'CRace cases: the scheduler decides how many goroutines start, so the model side is per goroutine (its own posts are the '
        'batches of process from a start position >= the resume point up to the end of the log) plus the spec oracle on the merged '
        'arrival order; the goroutine of a post is the Go goroutine id seen by the PostService',
        'the harness holds goroutines through the store / PostService doubles and a log15 handler (no /repo change); a goroutine held '
        'at LoadBlockLastSequence has already done its sleep test, the model does it in the same step (no observable difference '
        'with postFail2Sleep = 1, which these streams use)',
        'a process crash between PostData returning nil and setLastPushSeq (redelivery after restart) is not modelled; '
        'ERestart is an orderly restart after Close',
        'per-entry sizes and "has matching transaction" flags are inputs of the model: for header and receipt pushes the harness '
        'recomputes them (header.Size(), types.Size of the per-block receipt / EVM-log message built as push.go builds it); a wrong recomputation '
        'shows up as a model disagreement',
        'PushClient.PostData (HTTP/gzip transport, "ok" body test) is replaced by the scripted PostService; BlockChain.ProcGetLastPushSeq '
        'is observed as the stored key it reads',
        'harness scheduling: a notification is queued before a round is released so that the end of a round is observable; '
        'for postFail2Sleep >= 2 a failing post is only scripted when the queue is empty (otherwise the sleep ticks race)',
    ],
    'assumptions': [
        'acknowledged = PostService.PostData returned nil; payload sequence numbers are read from the decoded payload '
        '(proto or JSON) and each item must carry the hash/type stored for its number',
        'resume point = LastSequence of the registration when its hash matched, otherwise the position the task jumped to '
        '("start from newest" when lastProcessed <= 0): the spec oracle takes the newest sequence answered to the first round of a '
        'task that starts with nothing stored (re-taken when such a task is restarted before anything was acknowledged)',
    ],
    'manifest': {
        'level_text': 'PARTIAL: on the transition system over several goroutines of one name (ModelReg.v, the code in /repo with fix '
                      'c2166d1) "one task per subscriber", gap-free increasing delivery and a monotone stored sequence are PROVED for all '
                      'interleavings of re-registration, start-up, rounds, answers, shutdown, close and restart steps under the one remaining '
                      'boolean guard "no step of a second concurrent first registration of the same new name" (…_partial, guard fixed_guard), '
                      'and REFUTED without it (…_refuted, witness: addTask of a second first registration; open part of finding C32-F2, '
                      'reproduced deterministically). The two other shapes of C32-F2 (re-registration inside a start-up or shutdown window of '
                      'a goroutine) are repaired by c2166d1: C32_before_repair_guard_needed keeps the statement for the old code, a revert is '
                      'reported with a failing input. C32_second_task_replays gives the consequence of a second goroutine for every state '
                      '(the same batch twice); the second sentence of the property ("recorded only after acknowledged") is proved WITHOUT the '
                      'guard (C32_reg_recorded_only_after_ack). Within one task goroutine (Model.v) the '
                      'statement is full for every push type (block, header, tx receipt, tx result, EVM event), every sequence store and '
                      'size limit: the acknowledged list is exactly the deliverable sequence numbers after the resume point, '
                      'increasing, and the stored last push sequence is the registration value or covered by acknowledgements, '
                      'over all event sequences incl. failures, sleeps, deactivation, re-registration, restart '
                      '(finding C32-F1, skipped but counted at totalSize+size == maxSize in getTxReceipts/getEVMEvent, is '
                      'fixed in /repo: the loop breaks on >=). Liveness remark proved and reproduced, not part of the '
                      'property: a deliverable block whose message is not smaller than the limit is never passed by a '
                      'receipt-type subscriber (push_test.go Test_PostEVMEvent_bigsize pins this); below the limit the next '
                      'round posts it',
        'level_note': 'event-alphabet abstraction of goroutines/timers; in-memory store doubles; sizes are model inputs; '
                      'notification queue abstracted (any goroutine may take a round at any time); crash between post and record '
                      'not modelled; Close remarks (error exit without Done blocks Close for ever, second Close panics, an orphaned '
                      'goroutine blocks Close) proved on the model and observed on the real Push, not part of the property',
        'technique': 'Coq proof (invariant by induction over event sequences, loop lemmas for getPushData) + in-kernel '
                     'correspondence check of observed traces of the real Push task',
    },
    'harness_timeout': {'quick': 300, 'thorough': 3000},
}
