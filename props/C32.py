SPEC = {
    'id': 'C32',
    'harness': 'hC32',
    'coq_dir': 'C32',
    'claimed': True,
    'theorems': [
        'C32_acked_contiguous_increasing', 'C32_acked_contiguous_increasing_holds',
        'C32_recorded_le_acked', 'C32_recorded_le_acked_holds',
        'C32_block_kinds_consecutive', 'C32_getPushData_exact', 'C32_getPushData_no_panic',
        'C32_oversize_block_stalls', 'C32_recorded_monotone', 'C32_fix_no_skip', 'C32_fix_progress',
        'C32_deliverable_block_posted',
    ],
    'allowed_axioms': [],
    'shard': 70,
    'check_preamble': 'Open Scope Z_scope.\n',
    'rule': 'two case kinds. CGpd: one call of getPushData(type, start, count, maxSize) on a generated sequence store '
            '(1-9 entries; block sizes 0-6 with limits 0-14, real header / per-block receipt sizes with the limit placed at a '
            'window sum -1/0/+1/+2; starts and counts also out of range; count 0 = index panic); non-trivial = error, panic, nil data '
            'or a payload shorter than the count. CHist: one history of the real Push task over in-memory stores and a scripted '
            'PostService: registration (with/without LastSequence, wrong hash, sequence beyond the log), chain growth incl. DelBlock '
            'entries, scripted post results (fail probability 0-90%, at most 7 failures per history), re-registrations (same / '
            'changed URL), probes, Close + new Push over the same stores; push types block, header, tx receipt, tx result, EVM event (blocks also carry an evm transaction of another contract and a failed one of the subscribed contract); '
            'sizes around the real 1 MiB limit (block sizes are mock numbers, header / receipt sizes are real proto sizes tuned by '
            'payload length); batches of 10 / 100; postFail2Sleep 1 (2-3 in the sleepN stream with waits for the counter). The task '
            'goroutine is held at LoadBlockLastSequence / PostData while the script acts, so the trace is the real event order. '
            'non-trivial = a failed post was later retried successfully, or a deactivation was followed by a re-registration; '
            'distinct = distinct Gallina case terms',
    'trusted_base': [
        'SequenceStore / CommonStore are in-memory doubles with BlockStore\'s conventions (append-only sequence log, GetKey -> '
        'ErrNotFoundInDb, List -> ErrNotFound when empty); blockstore.go\'s own storage of the sequence log is not exercised here',
        'goroutines, channels and timers are abstracted to the event alphabet (ESeq l | ETick | EPostOk | EPostFail | EResume | '
        'EClose | ERestart); the theorems quantify over all event sequences, the harness samples real schedules',
        'one task goroutine per subscriber: the windows in which addSubscriber can start a second goroutine for the same name '
        '(status still notRunning at task start, or between status=notRunning and delete(tasks) at deactivation) are not modelled',
        'a process crash between PostData returning nil and setLastPushSeq (redelivery after restart) is not modelled; '
        'ERestart is an orderly restart after Close',
        'per-entry sizes and "has matching transaction" flags are inputs of the model: for header and receipt pushes the harness '
        'recomputes them (header.Size(), types.Size of the per-block receipt / EVM-log message built as push.go builds it); a wrong recomputation '
        'shows up as a model disagreement',
        'PushClient.PostData (HTTP/gzip transport, "ok" body test) is replaced by the scripted PostService; BlockChain.ProcGetLastPushSeq '
        'is observed as the stored key it reads',
        'harness scheduling: a notification is queued before a round is released so that the end of a round is observable; '
        'for postFail2Sleep >= 2 a failing post is only scripted when the queue is empty (otherwise the sleep ticks race)',
    ],
    'assumptions': [
        'acknowledged = PostService.PostData returned nil; payload sequence numbers are read from the decoded payload '
        '(proto or JSON) and each item must carry the hash/type stored for its number',
        'resume point = LastSequence of the registration when its hash matched, otherwise the position the task jumped to '
        '("start from newest" when lastProcessed <= 0): the spec oracle takes the newest sequence answered to the first round of a '
        'task that starts with nothing stored (re-taken when such a task is restarted before anything was acknowledged)',
    ],
    'manifest': {
        'level_text': 'full for every push type (block, header, tx receipt, tx result, EVM event), every sequence store and '
                      'size limit: the acknowledged list is exactly the deliverable sequence numbers after the resume point, '
                      'increasing, and the stored last push sequence is the registration value or covered by acknowledgements, '
                      'over all event sequences incl. failures, sleeps, deactivation, re-registration, restart; no guard '
                      '(finding C32-F1, skipped but counted at totalSize+size == maxSize in getTxReceipts/getEVMEvent, is '
                      'fixed in /repo: the loop breaks on >=). Liveness remark proved and reproduced, not part of the '
                      'property: a deliverable block whose message is not smaller than the limit is never passed by a '
                      'receipt-type subscriber (push_test.go Test_PostEVMEvent_bigsize pins this); below the limit the next '
                      'round posts it',
        'level_note': 'event-alphabet abstraction of goroutines/timers; in-memory store doubles; sizes are model inputs; '
                      'double-goroutine start windows and crash between post and record not modelled',
        'technique': 'Coq proof (invariant by induction over event sequences, loop lemmas for getPushData) + in-kernel '
                     'correspondence check of observed traces of the real Push task',
    },
    'harness_timeout': {'quick': 300, 'thorough': 3000},
}
