SPEC = {
    'id': 'C39',
    'harness': 'hC39',
    'coq_dir': 'C39',
    'claimed': True,
    'theorems': ['C39_jsonrpc_runs_implies_allowed', 'C39_jsonrpc_gate_sees_dispatched_method',
                 'C39_grpc_runs_implies_allowed_refuted', 'C39_grpc_runs_implies_allowed_partial',
                 'C39_eth_same_clients', 'C39_eth_no_list_serves_all'],
    'allowed_axioms': [],
    'shard': 350,
    'rule': 'quick: 15 hand-picked + 45 generated [rpc] configurations (IP list under whitelist / whitlist / both / none; '
            'star, 0.0.0.0, IPv6, non-canonical and zone-carrying entries; function white/black lists; user/password), each run in a '
            'fresh process (rpc.New -> SetAPI(spy) -> SetQueueClientNoListen -> Listen) and hit over real TCP from 127.0.0.1, 127.0.0.2, '
            '::1, 192.0.2.2, fd00::2 and lo aliases 10.39.1.1 10.39.1.2 10.39.2.1 fd39::1 fd39::2 fe80::39:1%lo (added and removed by the harness; '
            'fewer addresses if ip addr add fails): 24 JSON-RPC requests (key case variants, duplicate keys, null/typed method, extra fields, '
            'params/id shapes, \\u-escaped method, batch/garbage/trailing bodies, paths, Authorization header shapes) '
            '+ a directed duplicate-key stream (4 per configuration that has an allowed and a forbidden registered method and a non-loopback '
            'client passing the IP gate, 27 for each of 5 dedicated configurations with non-trivial function lists: two or three keys folding '
            'to "method" in different spellings or exactly repeated, both orders, before/after params, trailing null, one value allowed and one '
            'forbidden, valid credentials), 12 gRPC calls '
            '(full-method spellings, unary and streaming), 19 eth requests (every client address + forged RemoteAddr incl. ::ffff: mapped, '
            'upper-case IPv6, zone, unsplittable), 4 rpc.CheckIPWhitelist probes. one case = one request with its observables '
            '(response class + API methods the spy saw). non-trivial = client is not loopback (and for JSON-RPC: passed the IP gate; '
            'for eth: not OPTIONS); distinct = distinct Gallina case terms',
    'trusted_base': [
        'TOML/JSON tokenizers, net.SplitHostPort/net.ParseIP, base64/HTTP header parsing, HTTP2/protobuf framing are oracles: the model '
        'receives the client address, Authorization header and JSON body already classified (client / auth_in / key-value-class list)',
        'encoding/json object semantics are modelled (case-insensitive ASCII key match, last duplicate wins, null keeps a string, type error '
        'is sticky) and tied to the implementation by the correspondence run, not proved about encoding/json',
        'method tables of net/rpc (service Chain33) and of grpc.Server are read from the running servers (reflect / GetServiceInfo) and passed to the model',
        'one InitCfg per process on empty package-level maps (what rpc.New does in a node)',
    ],
    'assumptions': [
        'gRPC peers are *net.TCPAddr (the *net.IPNet loopback shortcut and the no-peer branch of auth are unreachable over TCP and not modelled)',
        'basic authentication is a JSON-RPC-only setting (jrpcUserName/jrpcUserPasswd); may_run does not demand it of gRPC',
        'TLS off; JSON keys and values are ASCII',
    ],
    'manifest': {
        'level_text': 'full for the JSON-RPC gate decision logic and for the eth gate (every configuration with a non-empty IP list under either key; '
                      'the two former eth findings are fixed in /repo); partial for gRPC (unary methods only: streaming methods are ungated — open finding)',
        'level_note': 'Decision logic only: address/header/JSON/HTTP2 decoding are oracles observed through the real servers over TCP; '
                      'the model is tied to /repo by per-request correspondence (response class + spy-observed API call).',
        'technique': 'Coq proof (case analysis over the executable gate model against an abstract policy) + in-kernel correspondence check',
    },
    'harness_timeout': {'quick': 300, 'thorough': 3000},
}
