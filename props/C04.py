SPEC = {
    'id': 'C04',
    'harness': 'hC04',
    'coq_dir': 'C04',
    'claimed': True,
    'theorems': [
        'C04_reachable_inv', 'C04_read_committed', 'C04_committed_forever',
        'C04_pending_invisible', 'C04_table_only_frame',
        'C04_commit_exact', 'C04_commit_exact_general', 'C04_commit_exact_guards',
        'C04_commit_exact_unguarded_false',
        'C04_forks_independent', 'C04_ops_linearizable_model',
    ],
    'allowed_axioms': [],
    'shard': 25,
    'check_preamble': 'Open Scope N_scope.\n',
    'rule': 'The histories run in CHILD processes of the harness (it re-executes itself with --extra child; a batch of '
            'jobs per child, one event line per history header / operation about to start / reply / finished case): '
            'a panic in a goroutine of the store module cannot be recovered and kills the process, so when a child '
            'dies the history it was working on is run again alone in a fresh process (the rest of the batch goes to '
            'a new child) and, if it dies again, is emitted as a case that ends with the operation in flight answered '
            '"crashed" (OCrashed; IIdle if none was in flight), everything observed before kept; the model never '
            'predicts OCrashed and the specification oracle rejects it for every operation. '
            'One case = one history of store operations against the real mavl store module on a temporary LevelDB '
            '(EnableMavlPrefix on for a third; a third of the sequential histories travel as messages through the '
            'module\'s queue, the rest are direct method calls under recover). Operations: MemSet (pending update) of '
            'any committed root (forks), Commit / Rollback of pending roots in random order, direct Set, Commit / '
            'Rollback of hashes that are not pending, updates of roots that are not committed (pending, rolled back, '
            'foreign), empty MemSet on committed / unknown roots, restart (close + reopen), roots computed on an '
            'unrelated store (foreign). After EVERY step: Store.Get of every key of the table at every root the store '
            'has acknowledged as committed (both empty roots included) and at a third of the other roots, and the '
            'number of database entries (plain runs); at the end a restart and reads at every root. Keys: 3-7 from a '
            'pool of 14 (empty key, prefixes, 00/ff bytes), 2-4 values (+ the empty value in 1/8). Streams: the witness history of the former finding 1 (regression case) and '
            'the witness of finding 2; two forks of one parent x {commit, rollback}^2 x both orders x {direct, queue} (16); '
            'guarded-small (3-7 ops) / guarded-medium (8-16 ops): never an empty MemSet on a root that exists only '
            'as a pending tree; unrestricted: 7 % of the steps are such an empty MemSet (former finding 1, fixed '
            'in chain33 5fa803c: every specification failure there is a violation); reexec (3-9 composite steps, 2-4 keys so '
            'that every root has height <= 2 and none of its nodes is kept by the node cache, half through the queue): '
            'an earlier update executed again (same root after its rollback / a restart), a root that is read or named '
            'as parent BEFORE it exists (predicted through the foreign store) and then produced and committed, an '
            'update that changes nothing (its root is the committed parent itself) followed by a competing update of '
            'the same parent, an update requested on top of a root that is only pending followed by the rollback of '
            'whatever came back and the commit of the pending root, reads at all roots after half of the steps; conc: 2 '
            'committed roots and 1-2 roots predicted through the foreign store, then 2-4 phases in which <= 6 '
            'operations (MemSet, Commit, Rollback, Get; one Commit-or-Rollback per hash and phase, no Get of a tree '
            'while it may be saved) are sent concurrently by 8 worker goroutines through the queue and stamped with '
            'logical invocation / reply times, then reads at every root before and after a restart. '
            'non-trivial = at least 3 updates and 2 distinct non-empty committed roots (concurrent cases: always); '
            'distinct = distinct Gallina case terms',
    'trusted_base': [
        'SHA-256 over the protobuf encoding of LeafNode/InnerNode is a free term algebra (C01.Store.hash, injective); '
        'C01\'s tree model (set / get / balance) and node database (save / load) are reused unchanged',
        'LevelDB is a finite map (durability across crashes is C29); the ARC node cache holds persisted nodes only and '
        'is not represented (C02_cache_sound_invariant); lazy loading = materialising the version (same on databases '
        'without dangling children, which is what every history produces)',
        'EnableMavlPrefix is modelled by its one observable effect at this API: a hash resolves as a state root only if '
        'a tree was saved with it as root (s_roots); MVCC / prune / memTree configurations are outside this model '
        '(C02, C05; C02 known findings 1-2 are leaks of pending nodes through memTree)',
        'the specification oracle (Spec.sstep) works on opaque root tokens and C01 sorted maps; it is fed with the '
        'implementation\'s replies only',
        'concurrent part: the search for a sequential order (Check.lin, in the kernel) is a TEST of linearizability at '
        'operation granularity over the schedules the Go runtime happened to produce; the search gives up after '
        '40000 candidate steps (Check.lin_budget; the largest search on the unchanged store tried 64) and then '
        'reports a broken correspondence - a history without any order would otherwise cost the product of the '
        'orders of its phases',
        'process death is observed by the harness parent (exit status of the child + the last event lines); a '
        'history is charged with it only if it dies in a fresh process or alone; a death that needs the earlier '
        'histories of the batch is reported too (kind ...+crashed+batch) next to the finished case',
    ],
    'assumptions': [
        'ATOMICITY: C04_ops_linearizable_model assumes every store operation is served atomically. The Go store '
        'serves every request in its own goroutine and an operation is several steps (sync.Map Load / Store / Delete, '
        'Tree.Save, batch write): intra-operation interleavings are outside the model, so the property is PARTIAL. '
        'Three such races are visible by reading the code and are deliberately not generated by the concurrent '
        'stream: Store.Get walking a pending *Tree while Commit.save() empties the same object (getLeftNode can '
        'panic with ErrNodeNotExist before the batch is written); Commit||Commit of one hash (one *Tree saved twice); '
        'Commit||Rollback or Rollback||Rollback of one hash (Load and Delete are two steps: both are acknowledged)',
        'C04_commit_exact speaks about an update that is STILL PENDING when it is committed (still_pending r ops: no '
        'Rollback of r and no restart between its MemSet and its Commit); C04_commit_exact_general weakens this to '
        '"no empty MemSet on r after r was discarded". Without any such hypothesis the statement is false '
        '(C04_commit_exact_unguarded_false): after Rollback r an empty MemSet on r is a new update of a root the '
        'store does not know, the shortcut accepts it without looking at the database and its Commit is '
        'acknowledged - the specification oracle has no obligation for an update of an unknown parent. Known '
        'finding 1 (empty MemSet replaced a pending tree by the marker) is fixed in chain33 5fa803c (LoadOrStore)',
        'sequential histories sent through the queue are compared with the model\'s reply as system/store/base.go '
        'forwards it (Model.via_queue: a nil hash returned by Commit becomes ErrHashNotFound - known finding 2)',
        'a value of length 0 is not distinguishable from an absent key at Store.Get (both sides canonicalise it)',
        'theorems speak about roots that resolve in the database (committed s r o := load_x s r = Some o): with the '
        'plain configuration this includes hashes of stored sub-trees, which are readable as roots too',
    ],
    'manifest': {
        'level_text': 'partial: operation-level atomicity is assumed, intra-operation interleavings are only '
                      'smoke-tested. Proved for all reachable states and all operation sequences: reads at committed '
                      'roots depend on the root\'s content only, committed roots stay committed with the same '
                      'content for ever and across restarts, MemSet / Rollback / Get do not touch the database, an '
                      'acknowledged Commit of an update that is still pending (not rolled back, no restart) makes '
                      'exactly the computed content readable whatever happens in between - empty MemSets on the '
                      'pending root included (former finding 1, fixed in chain33 5fa803c) -, forks of one parent are '
                      'independent under any sequence of commits and rollbacks. Open: known finding 2 (queue reply '
                      'to a Commit of the nil hash)',
        'level_note': 'symbolic injective hash; C01 tree and node database reused; LevelDB / ARC as oracles; prefix '
                      'modelled by root resolvability; no hook files',
        'technique': 'Coq proof (state invariant + monotone database, induction over operation sequences) + '
                     'in-kernel correspondence check on generated sequential histories + in-kernel '
                     'linearizability search on recorded concurrent histories (a test)',
    },
    'harness_timeout': {'quick': 600, 'thorough': 6000},
}


def extra(ctx):
    """Summarises the concurrent smoke part for the evidence file (no additional checks)."""
    conc = [c for c in ctx.cases if str(c.get('kind', '')).startswith('conc')]
    crashed = [c for c in ctx.cases if '+crashed' in str(c.get('kind', ''))]
    nops = 0
    overlapping = 0
    for c in conc:
        outs = c.get('impl') or []
        nops += len(outs)
        for i, a in enumerate(outs):
            for b in outs[i + 1:]:
                if a.get('inv', 0) < b.get('resp', 0) and b.get('inv', 0) < a.get('resp', 0):
                    overlapping += 1
    return {'violations': [], 'known': [],
            'coverage': {'histories_that_killed_the_store_process': len(crashed),
                         'concurrent_histories': len(conc), 'concurrent_operations': nops,
                         'pairs_of_operations_overlapping_in_time': overlapping,
                         'concurrent_note': 'linearizability search per history in the kernel; a test over the '
                                            'schedules that occurred, not a quantification over schedules'}}
