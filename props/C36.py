SPEC = {
    'id': 'C36',
    'harness': 'hC36',
    'coq_dir': 'C36',
    'claimed': True,
    'theorems': ['C36_reply_to_own_request', 'C36_responder_holds_current_request', 'C36_at_most_once_delivery',
                 'C36_reply_without_discipline_refuted', 'C36_discipline_satisfiable',
                 'C36_after_close_errors', 'C36_queue_close_closes_topics',
                 'C36_close_call_closes', 'C36_close_call_sets_closed', 'C36_never_subscribed_client_closes',
                 'C36_after_close_no_block_forever', 'C36_after_close_parked_send_returns_error',
                 'C36_parked_low_sender_woken', 'C36_parked_high_sender_woken', 'C36_bulk_fill_agrees'],
    'allowed_axioms': [],
    'shard': 60,
    'check_preamble': 'From C33 Require Import C36.Model C36.Spec.\nOpen Scope N_scope.\n',
    'rule': '(a) scripted scenarios on the real queue: one orchestrating goroutine issues one API call after the other '
            '(NewMessage pooled/plain, FreeMessage, Sub, SendTimeout high/low with timeout -1/0/10ms, non-blocking Recv, '
            'Reply, WaitTimeout 10ms / Wait, Client.Close, Queue.Close), the scenarios run one after the other; a call counts as '
            'blocked when it has not returned although every other goroutine of the process is parked (runtime.Stack states, '
            'checked twice; calls with their own timer are waited for); after every call the harness waits for that rest state '
            'and records which parked calls returned and len(high), len(low) per topic, len(recv) per client; at the end the '
            'sends still parked (looked at again 3 s after the last call when the queue was closed). Topics are preset through the hook with '
            'capacities high 1-3 / low 1-4 (recv is 5 as in the code); one scenario uses the real 64/40960 channels. 1-2 topics, '
            '2-4 clients, 6-40 calls, generated online from the API-level view. Streams: disciplined (discipline kept; '
            'no open finding, every spec failure is a violation), '
            'undisciplined (FreeMessage of messages still in flight: clauses 1-2 are not promised), witness-* '
            '(fixed: parked low wait-forever sender woken by close in 5 shapes incl. real capacities, high sender woken by close, '
            'Close of a never-subscribed client, round trip with recycling, stale reply through a recycled message). (b) concurrent: several requesters/responders on 1-3 topics with random '
            'delays, timeouts, recycling and closes; per-participant logs merged; a monitor checks clauses 1-3 on the merged log '
            '(a test, not compared with the LTS). non-trivial = at least one message was enqueued or a reply taken; distinct = '
            'distinct Gallina case terms',
    'trusted_base': [
        'model = hand-written LTS (Model.v) of queue/queue.go + queue/client.go at the granularity "one channel operation / '
        'one locked section = one event"; the pump goroutine evaluates its outer and inner select as one event (so a low-priority '
        'message is never taken after the topic was closed); Go select picks any ready case (modelled as several enabled events)',
        'ghost state in the model (never read by step): o_sent, o_where, s_deliv; the discipline predicate disc refers to o_where / o_sent',
        'correspondence is by scripted scenarios: not enabled = "the call has not returned although all other goroutines are '
        'parked" (goroutine states from runtime.Stack), plus the 3 s re-check of parked sends at the end',
        'hook file /repo/queue/access_verif.go (build tag verif): VerifPresetTopic (creates a topic with small channel capacities), '
        'VerifLens (len(high), len(low), isClose of a topic)',
        'Check.bulk_fill (used only for the 40960-message fill) is a big-step shortcut of n x (ENew; ESend low MNow); '
        'C36_bulk_fill_agrees replays it against the event-by-event version on samples',
        'sync.Pool decides which object NewMessage returns; the harness identifies objects by pointer and the model accepts any '
        'pooled or new object',
    ],
    'assumptions': [
        'C36_reply_to_own_request / C36_at_most_once_delivery hold for disciplined traces (drun): a message is sent at most once '
        'per NewMessage and not after FreeMessage; FreeMessage only when the message was not sent, its send failed, or the '
        'responder has answered and the answer was taken (FreeMessage contract: "the context must no longer reference the '
        'message"; all in-tree callers free only after a successful Wait). Without it the late reply reaches the next user of '
        'the recycled object (C36_reply_without_discipline_refuted, reproduced on the Go code by the undisciplined witness)',
        'responders reply with the ID they read when they received the message, at most once per received message',
        'one Sub per client; Close of a client is not called concurrently with itself (a second overlapping Close would '
        'close(client.done) twice); messages with Data == nil, ID == 0 and Ty == 0 (which the pump takes for the close '
        'sentinel) and callback messages (NewMessageCallback) are not modelled',
        'after close, Wait is shown to return for messages whose topic is closed (all topics that existed at Queue.Close, '
        'C36_queue_close_closes_topics) or for callers whose own client is closed; a Wait on a message of a topic first used after '
        'Queue.Close can block (such a message cannot have been sent)',
    ],
    'manifest': {
        'level_text': 'reply/at-most-once proved for all interleavings of disciplined traces of the LTS (refuted without the FreeMessage discipline, which is the API contract); after-close '
                      'errors proved; "no send blocks for ever after close" proved at full strength (every parked send returns '
                      'an error once the queue is closed; finding 1 fixed); '
                      '"a returned Close call closes the client" proved for every client, subscribed or not (finding 2 fixed). Tie to the Go code by '
                      'scripted event-by-event correspondence; the concurrent runs are a test',
        'level_note': 'hand-written LTS, event granularity and pump atomicity as listed in the trusted base; blocking observed '
                      'through goroutine states; hook file for small capacities',
        'technique': 'Coq proof (invariants by induction over all traces of a labelled transition system) + in-kernel '
                     'correspondence check of scripted scenarios + concurrent monitor test',
    },
    'harness_timeout': {'quick': 300, 'thorough': 3000},
}


def extra(ctx):
    """Thorough tier: the concurrent runs once more under the Go race detector (a test)."""
    import os, subprocess, time
    if ctx.tier != 'thorough':
        return {'coverage': {'race_detector_run': 'skipped in the quick tier (race build + link takes minutes)'}}
    harness = os.path.join(os.path.dirname(os.path.dirname(os.path.abspath(__file__))), 'harness')
    env = dict(os.environ, GOFLAGS='-mod=mod', GOPROXY='off', GOSUMDB='off', GOTOOLCHAIN='local')
    t0 = time.time()
    try:
        b = subprocess.run(['go', 'build', '-race', '-tags', 'verif', '-o', 'bin/hC36race', './cmd/hC36'], cwd=harness, env=env,
                           stdout=subprocess.PIPE, stderr=subprocess.STDOUT, text=True, timeout=2400)
    except subprocess.TimeoutExpired:
        return {'coverage': {'race_detector_run': 'race build timed out (cold cache); not run'}}
    if b.returncode != 0:
        return {'violations': [{'kind': 'no-failing-input-found', 'theorem_or_correspondence': 'race-detector build of cmd/hC36',
                                'what': b.stdout[-1500:], 'case': None}]}
    od = os.path.join(ctx.outdir, 'race')
    os.makedirs(od, exist_ok=True)
    try:
        r = subprocess.run([os.path.join(harness, 'bin', 'hC36race'), '--seed', str(ctx.seed), '--tier', 'thorough',
                            '--extra', 'conc', '--out', od], cwd=od, env=env, stdout=subprocess.PIPE,
                           stderr=subprocess.STDOUT, text=True, timeout=1500, errors='replace')
        out, rc = r.stdout, r.returncode
    except subprocess.TimeoutExpired as ex:
        out, rc = (ex.stdout or b'').decode('utf8', 'replace') if isinstance(ex.stdout, bytes) else (ex.stdout or ''), 124
    viol = []
    if 'DATA RACE' in out or rc != 0:
        viol.append({'kind': 'no-failing-input-found', 'theorem_or_correspondence': 'concurrent runs under the race detector (test)',
                     'what': 'exit %d: %s' % (rc, out[-2500:]), 'case': None})
    return {'violations': viol, 'coverage': {'race_detector_run': 'exit %d, %.0fs, %s' % (rc, time.time() - t0, out.strip().split('\n')[-1][:100])}}
