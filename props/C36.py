SPEC = {
    'id': 'C36',
    'harness': 'hC36',
    'coq_dir': 'C36',
    'claimed': True,
    'theorems': ['C36_reply_to_own_request', 'C36_responder_holds_current_request', 'C36_at_most_once_delivery',
                 'C36_reply_without_discipline_refuted', 'C36_discipline_satisfiable',
                 'C36_discipline_satisfiable_two_subscriptions',
                 'C36_after_close_errors', 'C36_queue_close_closes_topics',
                 'C36_close_call_closes', 'C36_close_call_sets_closed', 'C36_never_subscribed_client_closes',
                 'C36_after_close_parked_send_returns_error_refuted', 'C36_after_close_parked_send_returns_error_partial',
                 'C36_after_close_no_block_forever_partial', 'C36_atomic_queue_close_meets_guard',
                 'C36_send_parked_inside_queue_close_never_woken',
                 'C36_parked_low_sender_woken', 'C36_parked_high_sender_woken', 'C36_bulk_fill_agrees',
                 'C36_wait_returns_iff',
                 'C36_closed_subscriber_topics_closed_refuted', 'C36_closed_subscriber_topics_closed_partial',
                 'C36_closed_subscriber_last_topic_closed', 'C36_two_topic_subscriber_leaves_topic_open',
                 'C36_single_sub_satisfiable',
                 'C36_close_never_panics_refuted', 'C36_close_never_panics_partial', 'C36_close_panics_iff_overlap',
                 'C36_overlapping_close_panics', 'C36_sequential_closes_satisfiable',
                 'C36_pump_stops_only_on_close', 'C36_running_pump_takes', 'C36_lookalike_is_delivered',
                 'C36_closed_queue_no_open_topic_refuted', 'C36_closed_queue_no_open_topic_partial',
                 'C36_wait_after_queue_close_refuted', 'C36_wait_after_queue_close_partial',
                 'C36_known_topic_wait_returns', 'C36_send_racing_queue_close', 'C36_late_topic_wait_blocks',
                 'C36_topic_guard_satisfiable'],
    'allowed_axioms': [],
    'shard': 60,
    'check_preamble': 'From C33 Require Import C36.Model C36.Spec.\nOpen Scope N_scope.\n',
    'rule': '(a) scripted scenarios on the real queue: one orchestrating goroutine issues one API call after the other '
            '(NewMessage pooled/plain, FreeMessage, Sub, SendTimeout high/low with timeout -1/0/10ms, non-blocking Recv, '
            'Reply, WaitTimeout 10ms / Wait, Client.Close, Queue.Close), the scenarios run one after the other; a call counts as '
            'blocked when it has not returned although every other goroutine of the process is parked (runtime.Stack states, '
            'checked twice; calls with their own timer are waited for); after every call the harness waits for that rest state '
            'and records which parked calls returned and len(high), len(low) per topic, len(recv) per client; at the end the '
            'sends still parked (looked at again 3 s after the last call when the queue was closed). Topics are preset through the hook with '
            'capacities high 1-3 / low 1-4 (recv is 5 as in the code); one scenario uses the real 64/40960 channels. 1-2 topics, '
            '2-4 clients, 6-40 calls, generated online from the API-level view. Streams: disciplined (discipline kept, one Sub per '
            'client, no ID-0 message, no overlapping Close, no new topic after Queue.Close: inside every guard, every spec failure is a violation), '
            'multisub (client 0 subscribed to two topics; may meet finding 3), raw (queue.NewMessage(0,topic,0,nil) among the '
            'requests; finding 5 fixed: they are delivered like any message, ID 0 is left out of the at-most-once count), overlap (subscriber not reading, Close called again while a Close of the same client waits, the '
            'panic recovered and the scenario continued; finding 4), witness-two-topics / -one-topic-twice / -two-topics-roundtrip / '
            '-overlapping-close / -lookalike / -late-topic (scripted, deterministic) and witness-race-queue-close (Queue.Close in one '
            'goroutine, its locked loop made long by 60000 unused preset topics; as soon as a goroutine is inside Close.func1 a Send '
            'to a never-used topic is issued; the outcome is written as the interleaving [Close called; send; Close returned] / '
            '[send; Close] / [Close; send] that the observed result and the topic state select, the two intermediate steps carry no '
            'observation; finding 6) and witness-race-queue-close-park (the same with 66 wait-forever sends to the new topic: 64 are '
            'accepted, 2 park and are still parked 3 s after the queue was closed), '
            'undisciplined (FreeMessage of messages still in flight: clauses 1-2 are not promised), witness-* '
            '(fixed: parked low wait-forever sender woken by close in 5 shapes incl. real capacities, high sender woken by close, '
            'Close of a never-subscribed client, round trip with recycling, stale reply through a recycled message). (b) concurrent: several requesters/responders on 1-3 topics with random '
            'delays, timeouts, recycling and closes; per-participant logs merged; a monitor checks clauses 1-3 on the merged log '
            '(a test, not compared with the LTS). non-trivial = at least one message was enqueued or a reply taken; distinct = '
            'distinct Gallina case terms',
    'trusted_base': [
        'model = hand-written LTS (Model.v) of queue/queue.go + queue/client.go at the granularity "one channel operation / '
        'one locked section = one event"; the pump goroutine evaluates its outer and inner select as one event (so a low-priority '
        'message is never taken after the topic was closed); Go select picks any ready case (modelled as several enabled events); '
        'the pump of the first Sub lives in the client record, later ones in s_xp (same code, EX* events); a pump may leave through '
        'client.done whenever the client is closing (over-approximation of "it is in its inner select"), Check.pump_next follows the '
        'real order (high first, then low against client.done); a raw message is the model object with ID 0',
        'the race witness is linearised by the harness from call order, results and the topic state after the run (Queue.Close is '
        'known to be inside its locked function when the Send is issued: runtime.Stack); outcomes the scripted format cannot express '
        '(topic created before the walk, send then sees done closed) are run again, at most 8 times',
        'ghost state in the model (never read by step): o_sent, o_where, s_deliv; the discipline predicate disc refers to o_where / o_sent',
        'correspondence is by scripted scenarios: not enabled = "the call has not returned although all other goroutines are '
        'parked" (goroutine states from runtime.Stack), plus the 3 s re-check of parked sends at the end',
        'hook file /repo/queue/access_verif.go (build tag verif): VerifPresetTopic (creates a topic with small channel capacities), '
        'VerifLens (len(high), len(low), isClose of a topic)',
        'Check.bulk_fill (used only for the 40960-message fill) is a big-step shortcut of n x (ENew; ESend low MNow); '
        'C36_bulk_fill_agrees replays it against the event-by-event version on samples',
        'sync.Pool decides which object NewMessage returns; the harness identifies objects by pointer and the model accepts any '
        'pooled or new object',
    ],
    'assumptions': [
        'C36_reply_to_own_request / C36_at_most_once_delivery hold for disciplined traces (drun): a message is sent at most once '
        'per NewMessage and not after FreeMessage; FreeMessage only when the message was not sent, its send failed, or the '
        'responder has answered and the answer was taken (FreeMessage contract: "the context must no longer reference the '
        'message"; all in-tree callers free only after a successful Wait). Without it the late reply reaches the next user of '
        'the recycled object (C36_reply_without_discipline_refuted, reproduced on the Go code by the undisciplined witness)',
        'responders reply with the ID they read when they received the message, at most once per received message',
        'the reply / at-most-once theorems are stated for disciplined traces, which exclude ENewRaw (a request built with '
        'queue.NewMessage(0, topic, 0, nil)); several Subs per client, overlapping Close calls and the two-part Queue.Close are inside them',
        'guards of the _partial theorems (all boolean): single_sub (every topic the client subscribed to is the topic of its last Sub), '
        'close_in_progress = false (no Close of that client between close(client.done) and isClosed = 1), qdisc (once Queue.Close has walked the topics no call names a topic that did not exist then), bdisc (no '
        'send parks between the walk and isClose = 1; met by every trace with the atomic ECloseQueue only: C36_atomic_queue_close_meets_guard)',
        'callback messages (NewMessageCallback), a Sub racing the Close of the same client, and raw messages with a non-zero ID that '
        'collides with a pooled ID are not modelled',
    ],
    'manifest': {
        'level_text': 'reply/at-most-once proved for all interleavings of disciplined traces of the LTS, now with several subscriptions per client, '
                      'overlapping Close calls and Queue.Close in two parts (refuted without the FreeMessage discipline, which is the API contract); '
                      'after-close errors proved for the extended system with the exact condition under which a Wait returns (C36_wait_returns_iff); '
                      '"a returned Close call closes the client" proved for every client. PARTIAL in three places, each with a refutation reproduced '
                      'on the Go code (open findings 3, 4, 6): a closed subscriber closes only the topic of its last Sub; a Close overlapping a Close of '
                      'the same client panics; (finding 5, the sentinel look-alike, is fixed in chain33 99c26c1: C36_pump_stops_only_on_close now holds for every trace); topics '
                      'first named while or after Queue.Close runs are created open inside the closed queue (Send accepted, Wait or a parked Send '
                      'blocks for ever), so "every parked send returns once the queue is closed" now needs the guard bdisc. Tie to the Go code by '
                      'scripted event-by-event correspondence; the concurrent runs are a test',
        'level_note': 'hand-written LTS, event granularity and pump atomicity as listed in the trusted base; blocking observed '
                      'through goroutine states; hook file for small capacities',
        'technique': 'Coq proof (invariants by induction over all traces of a labelled transition system) + in-kernel '
                     'correspondence check of scripted scenarios + concurrent monitor test',
    },
    'harness_timeout': {'quick': 300, 'thorough': 3000},
}


def extra(ctx):
    """Thorough tier: the concurrent runs once more under the Go race detector (a test)."""
    import os, subprocess, time
    if ctx.tier != 'thorough':
        return {'coverage': {'race_detector_run': 'skipped in the quick tier (race build + link takes minutes)'}}
    harness = os.path.join(os.path.dirname(os.path.dirname(os.path.abspath(__file__))), 'harness')
    env = dict(os.environ, GOFLAGS='-mod=mod', GOPROXY='off', GOSUMDB='off', GOTOOLCHAIN='local')
    t0 = time.time()
    try:
        b = subprocess.run(['go', 'build', '-race', '-tags', 'verif', '-o', 'bin/hC36race', './cmd/hC36'], cwd=harness, env=env,
                           stdout=subprocess.PIPE, stderr=subprocess.STDOUT, text=True, timeout=2400)
    except subprocess.TimeoutExpired:
        return {'coverage': {'race_detector_run': 'race build timed out (cold cache); not run'}}
    if b.returncode != 0:
        return {'violations': [{'kind': 'no-failing-input-found', 'theorem_or_correspondence': 'race-detector build of cmd/hC36',
                                'what': b.stdout[-1500:], 'case': None}]}
    od = os.path.join(ctx.outdir, 'race')
    os.makedirs(od, exist_ok=True)
    try:
        r = subprocess.run([os.path.join(harness, 'bin', 'hC36race'), '--seed', str(ctx.seed), '--tier', 'thorough',
                            '--extra', 'conc', '--out', od], cwd=od, env=env, stdout=subprocess.PIPE,
                           stderr=subprocess.STDOUT, text=True, timeout=1500, errors='replace')
        out, rc = r.stdout, r.returncode
    except subprocess.TimeoutExpired as ex:
        out, rc = (ex.stdout or b'').decode('utf8', 'replace') if isinstance(ex.stdout, bytes) else (ex.stdout or ''), 124
    viol = []
    if 'DATA RACE' in out or rc != 0:
        viol.append({'kind': 'no-failing-input-found', 'theorem_or_correspondence': 'concurrent runs under the race detector (test)',
                     'what': 'exit %d: %s' % (rc, out[-2500:]), 'case': None})
    return {'violations': viol, 'coverage': {'race_detector_run': 'exit %d, %.0fs, %s' % (rc, time.time() - t0, out.strip().split('\n')[-1][:100])}}
