SPEC = {
    'id': 'C22',
    'harness': 'hC22',
    'coq_dir': 'C22',
    'claimed': True,
    'theorems': ['C22_accepted_implies_acceptable_partial', 'C22_group_members_checked',
                 'C22_rejected_leaves_pool_unchanged', 'C22_accepted_appends_one',
                 'C22_group_wrapper_is_head', 'C22_foreign_wrapper_rejected', 'C22_wrapper_witness_rejected',
                 'C22_accepted_implies_acceptable_refuted', 'C22_refuted_forward',
                 'C22_refuted_negfee', 'C22_refuted_hdrempty', 'C22_guards_satisfiable',
                 'C22_blacklist_positions_are_C31_core',
                 'C22_history_entries_via_pipeline_partial', 'C22_history_pool_unexpired_partial',
                 'C22_history_pool_unexpired_refuted', 'C22_delay_cache_never_blocked',
                 'C22_header_moves_verdicts', 'C22_fork_gate_moves_verdict', 'C22_delayed_enter_through_pipeline',
                 'C22_history_guard_satisfiable'],
    'allowed_axioms': [],
    'shard': 20,
    'check_preamble': 'From C33 Require Import C22.Model C22.ModelH.\nOpen Scope Z_scope.\n',
    'rule': 'one case = one history of EventTx / EventAddDelayTx / EventAddBlock messages (6-18 quick, 6-30 thorough; the scripted matrices up to ~60) sent through the '
            'message queue to one real Mempool (SimpleQueue, its own eventProcess/pipeline goroutines) whose neighbour modules '
            '(blockchain: header, sync state, on-chain hashes; execs: CheckTx verdicts; rpc: evm nonces; p2p) are scripted; '
            'after every message the reply class (29 classes; ErrBlockedAccount split by the position its text names) and the '
            'membership of every hash of the history (EventTxListByHash) and EventGetMempoolSize are recorded; after an '
            'EventAddBlock (not answered) the harness waits until the event loop has handled it and the pushDelayTxRoutine '
            'goroutine is parked in its own select again (goroutine dump, seen twice), i.e. every released delayed transaction '
            'has been answered. Transactions are real (secp256k1 / secp256k1eth '
            'signatures, CreateTxGroup-style groups of 2-8) and carry their facts by construction. Streams: witness-* (the 3 '
            'refutation witnesses and the former witness of the fixed finding 2: foreign wrapper refused, the other account\'s '
            'transaction and an honestly wrapped group admitted), matrix (every single-clause violation x {plain, group head, '
            'member 1, last member} x {main chain, parachain}, each next to an accepted twin; for groups also the five '
            'foreign-wrapper kinds: other signer, other fee = other hash, eth signer with chosen nonce, other signature '
            'bytes, no signature), matrix-pairs (pairs of violations), matrix-tiers (fee '
            'tiers at and around the boundaries, MaxTxNumber 10/20), matrix-limits (per-sender limit, capacity, '
            'resubmission), guarded (random histories satisfying the 3 guards, 1 group in 10 with a foreign wrapper: every spec '
            'failure is a violation), unrestricted (may be forwarded, have a negative fee under rate 0, a ground header). '
            'New streams with a moving header: para-titles (groups whose execers name user.p.test. / user.p.other. / no title / '
            'the bare user.p. prefix / the main chain, on a main-chain node and on the node of user.p.test., ForkTxGroupPara '
            'active from the start or crossed by a block in the middle; groups led by a foreign execer on the parachain node '
            'are forwarded = finding 1), realto (coins transfers whose payload names the recipient: exec-address To with a listed / '
            'unlisted payload recipient, To = payload recipient, both listed; evm payloads; as plain transaction, as each member '
            'of a group of 3, and as delayed transactions; on a parachain node where GetRealToAddr reads the payload and on a '
            'main-chain node where it does not), header (12 probes at the edge of every header-dependent rule - height / block '
            'time / clock expiry, both ends of the TxHeight window, chain id, fee cap, mixed para group - submitted before and '
            'after blocks that move height, block time and clock across the edge and across ForkTxChainIDStrict / ForkBlockCheck / '
            'ForkTxHeight / ForkTxGroupPara, with a stale block, a block carrying pooled transactions and re-submissions), '
            'delay (delay cache = half the pool capacity filled by EventAddDelayTx and by none/CommitDelayTx transactions of '
            'blocks; nil / wrong-type / duplicate / overflow / blacklisted; release by block time in ascending order then by '
            'height, against the per-sender limit; delayed transactions that are expired, badly signed or underpaid when '
            'released; height-0 and far-ahead blocks), witness-delayed-negfee (finding 3 through the delayed path), moving '
            '(random mixtures of all three messages, fork heights inside the range of heights, re-submissions, delayed '
            're-submissions of earlier transactions). Random '
            'configuration per history: main/para, MaxTxNumber 10..10000, MinTxFeeRate 0/1000/100000, tiered fee, MaxTxFeeRate, '
            'per-sender limit 1-3, capacity 2-6, exec check on/off, synced or not, height 1-30, block time, evm nonces. '
            'non-trivial = at least one accepted and one rejected submission; distinct = distinct Gallina case terms',
    'trusted_base': [
        'elementary facts are inputs of the model: signature validity, recipient validity, blacklist hit, on-chain, '
        'executor verdict, sender identity, hash identity, identity of the Signature message, proto size, "Header parses as '
        'an empty Transactions"; the harness '
        'creates each fact by construction (it signs or corrupts, picks a valid/invalid/blacklisted address, scripts the '
        'blockchain/execs/rpc replies) and measures only Size, Hash identity and header decodability',
        'facts_consistent (hypothesis of the main theorem): for a group\'s wrapper o and first member h, equal hash identity '
        'implies equal Nonce and Fee (Hash() covers both) and equal Signature identity implies equal sender and sign type '
        '(both are functions of the Signature message); check_case evaluates it on the measured facts of every submission '
        '(a failure counts as a model disagreement)',
        'neighbour modules are scripted on the message queue (as in the repository\'s own mempool tests): util.CheckDupTx, '
        'the executor check and getCurrentNonce run for real against scripted replies; the real blockchain/executor '
        'answers are not part of this property',
        'SimpleQueue is the queue (timeline mempool); reply classes are a function of the error text '
        '(group-structure errors form one class); the address-validity cache of address.CheckAddress (C19) is avoided by '
        'using each recipient string with one fixed validity',
        'execers are facts too: t_para (0 no user.p. prefix / 1 prefix without title / title identity) is computed by the '
        'harness\'s own reading of the execer string, the forwarding flag by construction (parachain node and execer not of '
        'user.p.test.) and cross-checked against types.IsForward2MainChainTx',
        'blacklist facts (7 bits per transaction: sender / recipient / real recipient differs / real recipient listed / evm '
        'payload / ContractAddr listed / Para listed) are set by construction; "real recipient differs" is cross-checked '
        'against Transaction.GetRealToAddr (the coins executor type is re-bound to each history\'s configuration with '
        'SetConfig, as a parachain process binds it once). C22_blacklist_positions_are_C31_core ties the facts to the '
        'address-level model of C31 (parsing, base58 checksum = C31\'s Section variable)',
        'the scripted blockchain module answers "on chain" for every transaction a delivered block carried; the model reads '
        'that from the fact t_on_chain, which the harness evaluates when the transaction is handed over (generators never '
        'put a transaction that is waiting in the delay cache into a block)',
        'not modelled: the pool-age rule of removeExpiredTx (entries older than 600 s; check_case refuses histories whose '
        'clock moves that far: clock_ok), EventDelBlock / delBlock (re-adds a rolled-back block\'s transactions with the fee '
        'and expiry checks only), the retry list of pushDelayTxRoutine (never filled: QueueProtocol.SendTx returns a fresh '
        'fmt.Errorf error, so err == types.ErrMemFull is never true), delayed transactions that are to be forwarded on a '
        'parachain node (they leave through a grpc client; modelled as not submitted, never generated)',
        'address validity and signature validity are height-independent facts (default address / crypto enable heights)',
    ],
    'assumptions': [
        'cfg_ok: MinTxFeeRate >= 0 and MaxTxFeeRate >= 0',
        'the clock is pinned with types.SetTimeDelta and moved only by block steps; messages are sequential (one reply '
        'awaited before the next message; after a block the delayed-transaction goroutine has come to rest)',
        'history theorems: guard good = not forwarded, no member Header parsing as an empty group, facts consistent, for '
        'every submission the history carries (C22_history_pool_unexpired_refuted: finding 4 breaks it otherwise)',
        'partial: guards g_fwd, g_fee, g_hdr (each shown necessary by a refutation reproduced on the Go code); the former '
        'guard g_wrap is gone (finding 2 fixed in chain33 1d587b5)',
    ],
    'manifest': {
        'level_text': 'partial: "accepted implies acceptable" proved for all configurations, pools and submissions under three '
                      'boolean guards; without each guard the statement is refuted on the model and reproduced on the real '
                      'mempool (3 open findings: parachain forwarding shortcut, negative fee under zero minimum rate, '
                      'group-member expiry skipped when the group hash parses as protobuf). The fourth finding '
                      '(unauthenticated group wrapper) is fixed in chain33 1d587b5: the wrapper of an admitted group is proved '
                      'to be its first transaction (same hash, same signature) and any other wrapper is proved refused. '
                      'Rejected submissions leave the pool unchanged; accepted ones append exactly the submitted transaction. '
                      'Extended: the conjunction now names all five blacklist positions (tied to C31\'s address-level model) and '
                      'the one-chain rule of groups (ForkTxGroupPara); over histories with blocks and delayed transactions every '
                      'pool entry is proved to have passed the pipeline at the header of its time (fork gates re-evaluated), the '
                      'delay cache never holds a blacklisted transaction, and under the guards no pool entry is ever expired for '
                      'the next block of the current header',
        'level_note': 'model = hand-written Gallina transcription of eventTx/checkTxs/checkTx/checkLevelFee/checkSign/'
                      'isGroupHead/checkTxRemote/evmTxNonceCheck/txCache.Push, Transaction(s).Check/CheckWithFork/GetRealFee/isExpire, '
                      'checkTxBlockedAccountCore, eventAddBlock/addDelayTx/pushExpiredDelayTx/pushDelayTxRoutine/eventAddDelayTx/'
                      'delayTxCache/removeExpiredTx/Forks.IsFork over abstract '
                      'transaction facts; tied to the Go code by per-submission correspondence of reply class and pool '
                      'membership; neighbour modules scripted',
        'technique': 'Coq proof (case analysis of the admission pipeline; refutations by computation) + in-kernel correspondence check',
    },
    'harness_timeout': {'quick': 300, 'thorough': 3000},
}
