SPEC = {
    'id': 'C22',
    'harness': 'hC22',
    'coq_dir': 'C22',
    'claimed': True,
    'theorems': ['C22_accepted_implies_acceptable_partial', 'C22_group_members_checked',
                 'C22_rejected_leaves_pool_unchanged', 'C22_accepted_appends_one',
                 'C22_group_wrapper_is_head', 'C22_foreign_wrapper_rejected', 'C22_wrapper_witness_rejected',
                 'C22_accepted_implies_acceptable_refuted', 'C22_refuted_forward',
                 'C22_refuted_negfee', 'C22_refuted_hdrempty', 'C22_guards_satisfiable'],
    'allowed_axioms': [],
    'shard': 20,
    'check_preamble': 'From C33 Require Import C22.Model.\nOpen Scope Z_scope.\n',
    'rule': 'one case = one history of EventTx messages (6-14 quick, 6-24 thorough; the clause matrix up to ~50) sent through the '
            'message queue to one real Mempool (SimpleQueue, its own eventProcess/pipeline goroutines) whose neighbour modules '
            '(blockchain: header, sync state, on-chain hashes; execs: CheckTx verdicts; rpc: evm nonces; p2p) are scripted; '
            'after every message the reply class (20 classes) and the membership of every hash of the history '
            '(EventTxListByHash) and EventGetMempoolSize are recorded. Transactions are real (secp256k1 / secp256k1eth '
            'signatures, CreateTxGroup-style groups of 2-8) and carry their facts by construction. Streams: witness-* (the 3 '
            'refutation witnesses and the former witness of the fixed finding 2: foreign wrapper refused, the other account\'s '
            'transaction and an honestly wrapped group admitted), matrix (every single-clause violation x {plain, group head, '
            'member 1, last member} x {main chain, parachain}, each next to an accepted twin; for groups also the five '
            'foreign-wrapper kinds: other signer, other fee = other hash, eth signer with chosen nonce, other signature '
            'bytes, no signature), matrix-pairs (pairs of violations), matrix-tiers (fee '
            'tiers at and around the boundaries, MaxTxNumber 10/20), matrix-limits (per-sender limit, capacity, '
            'resubmission), guarded (random histories satisfying the 3 guards, 1 group in 10 with a foreign wrapper: every spec '
            'failure is a violation), unrestricted (may be forwarded, have a negative fee under rate 0, a ground header). Random '
            'configuration per history: main/para, MaxTxNumber 10..10000, MinTxFeeRate 0/1000/100000, tiered fee, MaxTxFeeRate, '
            'per-sender limit 1-3, capacity 2-6, exec check on/off, synced or not, height 1-30, block time, evm nonces. '
            'non-trivial = at least one accepted and one rejected submission; distinct = distinct Gallina case terms',
    'trusted_base': [
        'elementary facts are inputs of the model: signature validity, recipient validity, blacklist hit, on-chain, '
        'executor verdict, sender identity, hash identity, identity of the Signature message, proto size, "Header parses as '
        'an empty Transactions"; the harness '
        'creates each fact by construction (it signs or corrupts, picks a valid/invalid/blacklisted address, scripts the '
        'blockchain/execs/rpc replies) and measures only Size, Hash identity and header decodability',
        'facts_consistent (hypothesis of the main theorem): for a group\'s wrapper o and first member h, equal hash identity '
        'implies equal Nonce and Fee (Hash() covers both) and equal Signature identity implies equal sender and sign type '
        '(both are functions of the Signature message); check_case evaluates it on the measured facts of every submission '
        '(a failure counts as a model disagreement)',
        'neighbour modules are scripted on the message queue (as in the repository\'s own mempool tests): util.CheckDupTx, '
        'the executor check and getCurrentNonce run for real against scripted replies; the real blockchain/executor '
        'answers are not part of this property',
        'SimpleQueue is the queue (timeline mempool); reply classes are a function of the error text '
        '(group-structure errors form one class); the address-validity cache of address.CheckAddress (C19) is avoided by '
        'using each recipient string with one fixed validity',
        'parachain title rules inside Transactions.CheckWithFork (ErrTxGroupParaCount / ParaMainMixed) are not modelled; '
        'generated groups use one execer',
        'blacklist dimensions exercised: sender, recipient, evm payload ContractAddr and 20-byte Para (plus a non-listed evm '
        'payload as control); the GetRealToAddr dimension is not generated (ExecTypeBase.cfg is process-global state)',
    ],
    'assumptions': [
        'cfg_ok: MinTxFeeRate >= 0 and MaxTxFeeRate >= 0',
        'the header is fixed during a history (no EventAddBlock between submissions) and the clock is pinned with '
        'types.SetTimeDelta; submissions are sequential (one reply awaited before the next message)',
        'partial: guards g_fwd, g_fee, g_hdr (each shown necessary by a refutation reproduced on the Go code); the former '
        'guard g_wrap is gone (finding 2 fixed in chain33 1d587b5)',
    ],
    'manifest': {
        'level_text': 'partial: "accepted implies acceptable" proved for all configurations, pools and submissions under three '
                      'boolean guards; without each guard the statement is refuted on the model and reproduced on the real '
                      'mempool (3 open findings: parachain forwarding shortcut, negative fee under zero minimum rate, '
                      'group-member expiry skipped when the group hash parses as protobuf). The fourth finding '
                      '(unauthenticated group wrapper) is fixed in chain33 1d587b5: the wrapper of an admitted group is proved '
                      'to be its first transaction (same hash, same signature) and any other wrapper is proved refused. '
                      'Rejected submissions leave the pool unchanged; accepted ones append exactly the submitted transaction',
        'level_note': 'model = hand-written Gallina transcription of eventTx/checkTxs/checkTx/checkLevelFee/checkSign/'
                      'isGroupHead/checkTxRemote/evmTxNonceCheck/txCache.Push and Transaction(s).Check/GetRealFee/isExpire over abstract '
                      'transaction facts; tied to the Go code by per-submission correspondence of reply class and pool '
                      'membership; neighbour modules scripted',
        'technique': 'Coq proof (case analysis of the admission pipeline; refutations by computation) + in-kernel correspondence check',
    },
    'harness_timeout': {'quick': 300, 'thorough': 3000},
}
