SPEC = {
    'id': 'C10',
    'harness': 'hC10',
    'coq_dir': 'C10',
    'claimed': True,
    'theorems': ['C10_table_refines_map_refuted', 'C10_refuted_del_add', 'C10_refuted_del_replace',
                 'C10_update_del_fixed', 'C10_refuted_sep_collision',
                 'C10_table_refines_map_partial', 'C10_every_save_partial', 'C10_queries_partial',
                 'C10_join_refuted_prefix_scan', 'C10_join_refuted_del_right_change', 'C10_join_refuted_fk_change',
                 'C10_join_refuted_dangling', 'C10_join_refines_map_partial', 'C10_join_every_save_partial'],
    'allowed_axioms': [],
    'shard': 40,
    'rule': 'operation histories (Add/Replace/Update/Del/DelRow/Save) on a real table.Table '
            '(Prefix p, Name t, Primary Cointoken, Index [To, Note] over types.AssetsTransfer) on goleveldb (2/3) and memdb (1/3): '
            '4-6 primary keys, 1-4 saves, per window 1-6 operations on 3/4 of the keys, interleaved; new rows draw To from '
            '{a,b,ab,"",a1} and Note from {x,y,xy,""}; modifications change only the payload, one or both indexed fields, or nothing; '
            '4% of Updates carry a mismatching primary key. Streams: 5 deterministic witnesses x 2 backends (the three open findings, the '
            'repaired Update-then-Del history of C10-3, one more safe history); guarded (generator steers inside safe_words: nothing after '
            'the Del of a saved row; Del of a saved row with a pending index change is inside the guard); unrestricted (same alphabet, leaves the guard 40% of the times it could); sep-safe-words and '
            'unrestricted-sep (primary keys / index values containing "-", steered towards the colliding pair). '
            'Observables: error class of every call; after every Save the full KV dump under the table prefix (values decoded with '
            'table.DecodeRow + types.Decode) and 9 ListIndex queries (primary, To, Note; full listings with and without prefix in both '
            'directions, pages with count 1-3 and/or a start key). check_case recomputes safe_words in Coq: inside the guard every '
            'divergence is a violation; outside only the first divergence is classified against known_findings/C10.json. '
            'non-trivial = some save left a non-empty store and some query returned rows; distinct = distinct Gallina case terms. '
            'JoinTable streams (case constructor CJoin): histories on a real table.JoinTable (left = Option{p, a, Primary txhash, Index [gameID, addr]}, '
            'right = Option{p, g, Primary gameID, Index [status, tag]}, NewJoinTable(left, right, [addr#status, #status]); both tables hold '
            'types.AssetsTransfer rows through their own RowMeta) on goleveldb (2/3) and memdb (1/3): 3-6 left keys, 2-4 right keys, 1-4 join.Save, '
            'per window 1-8 Add/Replace/Update/Del/DelRow calls on the left or right table (several per key; right updates change only the payload, the '
            'tag, the status, or nothing; left updates keep or change addr), right changes mixed with pending left adds/updates/dels of the same and of '
            'other right keys. Streams: 5 deterministic witnesses x 2 backends (findings 5-8 and one history inside the guard); join-guarded (right keys '
            'g1 g2 k g3, the generator retries a window until JoinSpec.save_safe holds: foreign key of a stored row unchanged, looked-up right row '
            'exists, no left Del together with an Add/status change of its right row, no effective right key a proper prefix of a stored foreign key); '
            'join-unrestricted (prefix-related right keys g1 g10 g2 g, foreign-key changes, dangling foreign keys; mostly avoids the failing Save, which '
            'ends a history). Both stay inside the plain-table guard for the left and the right table. Observables: error class of every call; after '
            'every join.Save the dump of the whole database under prefix p (left, right and join records; written as the difference to the previous '
            'dump, keys as interned pieces that Coq concatenates) and 5 join queries (JoinTable.ListIndex full listings with an exact / cut / empty '
            'JoinKey prefix, pages with count or start key, JoinTable.GetData). check_case recomputes the guard jsafe in Coq: inside it every '
            'divergence is a violation; outside only the first divergence is classified against findings 5-8. '
            'non-trivial (join) = some join.Save left join index records and some join query returned rows',
    'trusted_base': ['Row.Encode/DecodeRow and the protobuf encoding of the row are not modelled: a stored value is the abstract term '
                     'VRow primary data / VPrim primary; the harness decodes the stored bytes with the real DecodeRow + types.Decode',
                     'the KV backend is modelled as an ordered map (Lib.OMap): Get, batch Set/Delete in order (util.SaveKVList; DelDupKey = last '
                     'write wins), ListHelper.List = values under a prefix strictly beyond the start key in iteration order, skipping empty values; '
                     'tied to goleveldb/memdb by the differential check only (iterator properties are C06/C07)',
                     'the Gallina model coq/theories/C10/Model.v (row cache with the pointer structure of rows/rowmap as positions, Add/Replace/Update/'
                     'Del/DelRow, Save/saveRow/addRow/delRow/updateRow/getModify, GetData, ListIndex/listPrimary) is tied to table.go/query.go by the '
                     'differential check only; auto-increment primary keys are not modelled',
                     'JoinTable (coq/theories/C10/Join.v): the left and the right table are two instances of the plain-table model, each with its own '
                     'store under the base key layout; the real database is one flat store with disjoint key prefixes per table - JoinCheck.flat_db renames '
                     'table and index names in the keys and the result is compared with the dump of the real database; JoinTable.Save (saveLeft, saveRight with '
                     'the ListIndex prefix scan of the left foreign-key index and mergeCache - the Go map iteration order of rowmap is replaced by key order, which '
                     'cannot influence the saved result because join rows of different left keys write different keys), join.Table.Save (index records only, '
                     'JoinData equality, getModify per join index), JoinKey = protobuf KeyValue with one length byte (values shorter than 128 bytes), '
                     'JoinTable.GetData / ListIndex; all tied to join.go / table.go by the differential check only. Not modelled: calling Save of the left or '
                     'right table directly, operations on the join table itself',
                     'Coq kernel + vm_compute (refutation witnesses, Examples, case evaluation)'],
    'assumptions': ['C10_table_refines_map_partial / C10_every_save_partial hold under the boolean guard safe_words: per primary key, after Del/DelRow of a '
                    'row that was present at the last Save no further operation on that key until the next Save; indexed fields without the "-" byte. '
                    'Everything else (Add, Add.Update*, Update*, Replace chains, Add.Del, Add.Del.Add, Update.Del and Replace.Del of a saved row '
                    'whatever the pending change, failing calls, any interleaving over keys, any number of saves) is inside the guard',
                    'C10_update_del_fixed (finding C10-3 repaired in table.go Del) needs no history guard: Replace-free histories with "-"-free '
                    'indexed fields whose calls answered like the map (the hypotheses that keep findings 4, 2 and 1 out) save exactly the map',
                    'C10_queries_partial covers full listings (no start key, count <= 0) as sets, for non-empty primary keys and separator-free '
                    'prefixes; order, pages and start keys are covered by the correspondence check only',
                    'C10_join_refines_map_partial / C10_join_every_save_partial hold under the boolean guard jsafe: the plain-table guard for the left and '
                    'for the right table, separator-free non-empty primary keys and indexed values shorter than 128 bytes, and at every join.Save the four '
                    'clauses of JoinSpec.save_safe over the tables at the last Save and now: (fk) the foreign key of a stored left row is unchanged; (ref) the '
                    'right row of an added / deleted / addr-changed left row exists, pending or stored; (del) no left Del in the window in which its right '
                    'row is added or changes status; (pre) no right key that was added, deleted or changed status is a proper prefix of a stored left '
                    'row\'s foreign key. Each clause is needed: C10_join_refuted_{fk_change, dangling, del_right_change, prefix_scan} refute the statement '
                    'with that clause switched off (open findings C10-7, C10-8, C10-6, C10-5). Everything else is inside the guard: several operations per '
                    'key and window on both tables, right changes together with pending left adds / updates / dels of the same and of other right keys, right '
                    'Del with existing left rows, re-Add, payload- or tag-only right updates. Join queries (JoinTable.ListIndex / GetData) are covered by the '
                    'correspondence check and the spec oracle only',
                    'outside the guard the three open findings of known_findings/C10.json apply (each has a _refuted theorem with the witness the '
                    'harness reproduces on the Go code)'],
    'manifest': {'level_text': 'partial: unbounded refinement proof (table.go cache + Save = abstract map, exact KV contents, full listings) under the '
                               'guard safe_words; the full statement is refuted by three defects reproduced on the Go code (open findings C10-1, C10-2, '
                               'C10-4); the fourth (C10-3, stale index entry after Update then Del) is repaired in table.go and proved absent. JoinTable: '
                               'unbounded refinement proof (left store, right store and join index records after every join.Save = the two maps and their '
                               'relational join) under the guard jsafe, whose four clauses are each shown necessary by a refutation reproduced on the Go '
                               'code (open findings C10-5 .. C10-8)',
                 'level_note': 'value encoding and the KV backend are abstract (ordered map); the model is tied to table.go/query.go by the '
                               'differential check over generated histories on goleveldb and memdb',
                 'technique': 'Coq proof (invariant by induction over op histories) + in-kernel correspondence check'},
    'harness_timeout': {'quick': 300, 'thorough': 3000},
}
