SPEC = {
    'id': 'C34',
    'harness': 'hC34',
    'coq_dir': 'C34',
    'claimed': True,
    'theorems': ['C34_rebuild_exact_refuted', 'C34_rebuild_exact', 'C34_rebuild_exact_up_to_main',
                 'C34_index_after_arrivals', 'C34_rebuild_guard_example', 'C34_arrival',
                 'C34_missing_waits_then_requests', 'C34_single_block_life', 'C34_life_example',
                 'C34_never_posts_partial'],
    'allowed_axioms': [],
    'shard': 40,
    'check_preamble': 'From C33 Require Import C33.Model C34.Model.\nOpen Scope Z_scope.\n',
    'rule': 'histories of 2-16 events (4-30 thorough) on two real components: a SENDER (handleBroadcastSend: light or full '
            'form depending on MinLtBlockSize / DisableLtBlock / send filter) and a RECEIVER (handleBroadcastReceive, '
            'addLtBlock, buildPendBlock, buildPendList; pending loop one iteration at a time through the hook) whose mempool '
            'is the real system/mempool bookkeeping with its short-hash index. Per case 3-8 units (single transactions and '
            'groups of 2-4 built by types.CreateTxGroup), 1-3 blocks = miner transaction + up to 5 units in random order '
            '(groups at every position), heights 1-6, sizes around the light-block threshold. Events: a unit arrives in the '
            'mempool (most units of the blocks arrive at some point, before or after the block, before or after the '
            'timeout), a unit is removed, a block is sent (wire round trip protobuf encode/decode, then delivered), loop '
            'iteration with a virtual clock (types.SetTimeDelta, timeouts 1-4 s), node height change. Streams: "guarded" (short '
            'hash injective on the case, no MainHash: every spec failure is a violation), "para" (blocks with '
            'MainHash/MainHeight: finding 1), "collide" (contains a real 40-bit short-hash collision found by a birthday '
            'search over 3e6 payloads; one of the pair is in a block, the other in the pool: finding 2). After every event: '
            'what the sender published (kind, header fields, miner tx, short hashes), blocks handed to the blockchain '
            'module (publisher, height, header fields, MainHash, transaction id per slot), peer messages (kind, peer, '
            'height), pending-list length, mempool accept flag, survived?. non-trivial = something was posted, published '
            'or pending; distinct = distinct Gallina case terms',
    'trusted_base': [
        'transactions are identities; hs (identity of Transaction.Hash(), equal for a group-carrying transaction and its '
        'first member) and sh (5-byte short hash of a hash) are function arguments of the model, the theorems quantify over '
        'them; in the correspondence check they are the tables of real Hash()/CalcTxShortHash values computed by the harness',
        'the receiving side is the model of C33 (addLtBlock/buildPendBlock/buildPendList/pendBlockLoop with Go panic '
        'semantics); its trusted base applies',
        'mempool: only push (duplicate hash refused, short-hash entry skipped when the short hash is taken or the cache is '
        'full) and remove-by-hash (index entry deleted by short hash) are modelled; queue/account limits are not reached '
        '(C21 covers the full bookkeeping)',
        'the specification oracle C34.Spec (sets of available pool-level transactions, greedy left-to-right cover of the '
        'block by units) is the reading of the property text; it never looks at short hashes or slots',
        'hook files /repo/system/p2p/dht/protocol/broadcast/lt_verif.go and /repo/system/mempool/access_verif.go '
        '(build tag verif); pendBlockLoop body repeated in TickPendVerif (C33 runs the real loop)',
        'the 200 ms ticker, libp2p pubsub and snappy are abstracted to events / a protobuf round trip',
    ],
    'assumptions': [
        'C34_rebuild_exact: guard ob_main = 0 (no MainHash/MainHeight) - without it refuted (finding 1); hypothesis all_found '
        '(each unit is found under the short hash of its first transaction), which C34_index_after_arrivals derives from '
        'pairwise different short hashes of the pooled transactions; nothing is assumed about look-ups of the other members',
        'C34_arrival / C34_missing_waits_then_requests / C34_single_block_life: hypothesis honest1 for units not yet filled '
        '(under the head short hash the pool answers with the unit itself or nothing; if nothing, also nothing under the other '
        'members short hashes) - what an injective short hash and a mempool that never holds group members individually give',
        'TxCount within memory (<= c_cap, <= 2^45)',
    ],
    'manifest': {
        'level_text': 'partial: exact rebuild proved up to MainHash/MainHeight (full statement refuted, finding 1) and under '
                      'the short-hash injectivity guard (finding 2 without it); waiting/timeout/request behaviour proved for '
                      'any number of pending blocks of honest senders; never-partial proved without assumptions; ticker and '
                      'pubsub abstracted',
        'level_note': 'model = C33 model + Gallina transcription of handleBroadcastSend/buildLtBlock and of the short-hash index; '
                      'independent set-based specification as oracle; real sender, receiver and mempool in the harness',
        'technique': 'Coq proof (unit-level refinement of buildPendBlock, induction over units and pending lists) + in-kernel '
                     'correspondence check',
    },
    'harness_timeout': {'quick': 400, 'thorough': 3000},
}
