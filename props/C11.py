SPEC = {
    'id': 'C11',
    'harness': 'hC11',
    'coq_dir': 'C11',
    'claimed': False,
    'theorems': [],
    'allowed_axioms': [],
    'shard': 32,
    'rule': 'TODO',
    'trusted_base': [],
    'assumptions': [],
    'manifest': {'level_text': 'TODO', 'level_note': 'TODO', 'technique': 'TODO'},
    'harness_timeout': {'quick': 300, 'thorough': 3000},
}
