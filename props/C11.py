SPEC = {
    'id': 'C11',
    'harness': 'hC11',
    'coq_dir': 'C11',
    'claimed': True,
    'theorems': [
        'C11_model_refines_spec_partial', 'C11_failed_tx_equiv_fee_only_partial', 'C11_guard_example',
        'C11_guard_spec_level',
        'C11_state_refines_spec', 'C11_state_failed_tx_equiv_fee_only',
        'C11_spec_replace_block', 'C11_spec_failed_leaves_fee_only',
        'C11_refuted', 'C11_localdb_ops_partial', 'C11_ops_guard_example', 'C11_localdb_ops_refuted',
        'C11_failed_tx_equiv_fee_only_refuted',
    ],
    'allowed_axioms': [],
    'shard': 24,
    'rule': 'CBlock: one case = one block (1-20 transactions: scripts of the synthetic drivers verifst (ExecLocalSameTime) and '
            'verifno (ordinary order), coins transfers, groups of 2-4) executed by the real executor through EventExecTxList on a '
            'test node on top of a mined base block (funded payers, existing state and local keys); observables: every receipt '
            '(type, KV list with account values canonicalised to balances, log types) and every value a script read (state Get, '
            'local Get/List; recorded by the drivers, also for transactions that fail afterwards). Small alphabets: 8 state keys, '
            '6 local keys, 4 list prefixes, 4 payers (one rich, one with 7 fees, one with 2.5 fees, one empty). Streams: '
            'block-fixed (hand-written), block-witness (known finding 1), block-guarded (a transaction/group that may fail either writes no '
            'local data or flushes its local writes with a List before it fails, and coins transfers are not grouped with local '
            'writers, so no Rollback happens with buffered writes: any spec failure is a violation), block-unrestricted. '
            'COps: one case = one Begin/Set/Get/List/Commit/Rollback history on executor.NewLocalDB(client, api, false) of the same '
            'node; streams ops-guarded (a List flushes before every Rollback), ops-unrestricted (bracketed), ops-unbracketed '
            '(correspondence only: the specification speaks about bracketed histories), ops-witness. CEnv: the address/key '
            'constants of Check.v are the strings the harness used. non-trivial = a read happens after a failed (ExecPack) '
            'transaction of the block / after a Rollback of the history; distinct = distinct Gallina case terms',
    'trusted_base': [
        'contracts are modelled as straight-line scripts of two synthetic drivers; the harness registers drivers that interpret '
        'exactly these scripts (a driver whose control flow depends on values it reads is outside the model)',
        'all forks that matter are active (ForkExecRollback, ForkResetTx0, ForkStateDBSet, ForkLocalDBAccess, ForkTxGroup), as on the test node; '
        'height > 0; not a parachain; MinTxFeeRate > 0; drivers are not IsFree',
        'isAllowKeyWrite is modelled on the generated key domain only: a synthetic driver may write mavl-<its name>-*, coins may write '
        'mavl-coins-* (C12 covers the rule itself); checkTx / checkTxGroup / address checks are assumed to pass (the harness builds valid '
        'transactions); checkPrefix on returned local keys always passes on the generated domain (it panics otherwise)',
        'types.Account values are modelled by their balance only (the harness decodes account values to the balance); '
        'coins Transfer is modelled for ordinary recipient addresses (no TransferToExec), without int64 overflow',
        'the merged-iterator listing of common/db.LocalDB.List(prefix, nil, 0, ListASC) is modelled by its specification: live values '
        'under the prefix of the overlay txcache > cache > maindb in key order (C07 proves this for the iterator code)',
        'the queue round trips of blockchain/localdb.go (LocalNew/Begin/Set/Get/List/Commit/Rollback/Close by txid) are modelled as '
        'direct calls on one remote LocalDB per block; the store and the blockchain database do not change during the block',
        'a panic inside ExecLocal (not recovered by executor.Exec; aborts the whole EventExecTxList) is not modelled',
    ],
    'assumptions': [
        'guard of the _partial theorems (boolean, third component of run_model; xdb_guard for histories): at every Rollback the buffered '
        'write list of executor.LocalDB is empty, i.e. every local write of a failing transaction/group was flushed by a List before the '
        'failure, or there was none. C11_guard_spec_level: the guard does not depend on cache contents (it equals the instrumentation bit '
        'a_dirty of the specification run); the replaced block always satisfies it',
        'sorted main: the local database content is a map (no duplicate keys)',
    ],
    'manifest': {
        'level_text': 'full for receipts, state writes and state reads (all blocks of scripts: a failed transaction/group is '
                      'indistinguishable from one that only pays the fee); partial for local data: holds when no Rollback happens with '
                      'buffered local writes, refuted otherwise (known finding 1: executor.LocalDB.Rollback keeps the buffered kvs, a '
                      'later List/Commit of the same block flushes and commits them)',
        'level_note': 'synthetic straight-line contracts; key-permission rule, tx validity checks, account encoding and the merged '
                      'iterator are modelled at their specification; forks as on the test node',
        'technique': 'Coq proof (operation-wise simulation between the cache/transaction/buffer implementation model and a '
                     'scratch-copy specification, lifted through a backend-generic block interpreter; spec-level replacement theorem) '
                     '+ in-kernel correspondence check on a test node',
    },
    'harness_timeout': {'quick': 300, 'thorough': 3000},
}
