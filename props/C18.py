SPEC = {
    'id': 'C18',
    'harness': 'hC18',
    'coq_dir': 'C18',
    'claimed': True,
    'theorems': [
        'C18_parallel_eq_sequential',
        'C18_root_is_tree_root',
        'C18_computation_root',
        'C18_branch_is_tree_branch',
        'C18_branch_verifies',
        'C18_dup_tail_same_root',
        'C18_binding',
        'C18_equal_siblings_flagged',
        'C18_child_roots_verify',
        'C18_transaction_sort_sorted',
        'C18_served_proofs_verify_refuted',
        'C18_served_proofs_verify_partial',
        'C18_served_proofs_verify',
        'C18_served_proofs_verify_para_refuted',
        'C18_served_proofs_verify_para_partial',
        'C18_served_proof_binding',
        'C18_served_block_binding',
        'C18_h_eqb_correct',
        'C18_example_duptail',
        'C18_example_parallel_and_branch',
        'C18_example_served',
        'C18_example_para',
    ],
    'allowed_axioms': [],
    'shard': 450,
    'rule': 'jobs are a deterministic function of (seed, tier): every leaf count 0..400 (thorough 0..3000) with distinct leaves, '
            'sampled counts up to 3000 (thorough 20000) around the step/cap boundaries (c*2^k +-1, multiples of 256 +-1) and random ones; '
            'each count is evaluated by GetMerkleRoot in child processes pinned with taskset to 1,2,3,4,8,16 CPUs (thorough 1..16) so that '
            'runtime.NumCPU() and hence the chunking varies; repeated-leaf lists over alphabets of 1..3 values; pairs of lists '
            '(aligned duplicated tail once/twice, unaligned duplicate, replaced/swapped/dropped leaf, identical); every branch position '
            'for counts <= 64 (thorough 300) plus out-of-range positions, sampled positions for larger counts; mixed main/para-chain '
            'transaction lists (0..5 segments, 4 titles, some segments above the 80-leaf threshold) through CalcMultiLayerMerkleInfo/'
            'CalcMerkleRoot with the two GetMerkleBranch calls of getMultiLayerProofs. '
            'serve stream (serve.go): one real test node (memdb) with ForkRootHash moved to height 6; blocks over main + 5 para titles '
            '(user.p.B./a./ab./b./game., ids = rank in byte order) in grouped, regrouped, interleaved and split-group orders: '
            'producer blocks (util.CreateNewBlock + ExecBlock, connected by ProcessBlock as peer blocks), blocks mined by the node\'s solo '
            'consensus from the mempool, and raw blocks carrying the generated order with TxHash as util.ExecBlock computes it '
            '(unrestricted: known finding 1 when unsorted after the fork; guarded = pre-fork, producer, mined and raw-in-order blocks); '
            'per stored block: header TxHash, LoadParaTxByHeight rows, QueryTx reply of every transaction through the queue API; '
            '5 pre-fork + ~53 post-fork blocks quick (~400 thorough, some child chains above the 80-leaf threshold); then a second node run as a '
            'para-chain node (Title user.p.b., blockchain.isParaChain, fork decided by the block\'s MainHeight): 15 blocks quick (~70 thorough), '
            'pre-fork, one-title (guarded) and title-sorted mixed blocks (unrestricted: known finding 2). '
            'non-trivial = at least two leaves/transactions (and an in-range position for branch cases); distinct = distinct Gallina case terms',
    'trusted_base': [
        'crypto/sha256 and the harness\'s own 5-line double hash + level-by-level reference tree (independent of merkle.go) produce the '
        'hash table (left id, right id, digest id) the Coq model looks hashes up in; the harness interns 32-byte values as ids per case '
        '(TCanon shorthand is only used after the harness checked that its interned table equals the canonical numbering)',
        'taskset(1) and runtime.NumCPU() following the affinity mask (the harness aborts if a child sees a different CPU count)',
        'C18_binding, C18_served_proof_binding, C18_served_block_binding and the refutation witness are stated in the free term algebra h '
        '(leaves are atoms, H2 injective): stands for collision freedom of double SHA-256; '
        'all other theorems hold for an arbitrary hash function (the served-proof theorems: with a correct equality test, hypothesis eqT x y = true <-> x = y; '
        'C18_h_eqb_correct shows it for the algebra, N.eqb is used in the check)',
        'the client-side verification procedure verify_reply is modelled after blockchain/chain_test.go testProcQueryTxMsg / the paracross plugin '
        '(chain33 itself contains no verifier of a QueryTx reply); it is stricter than the test: no TxProofs after the fork = not verified',
        'serve stream: the test node (util/testnode, solo consensus, memdb), the queue API and the executor are used as they are; the harness re-implements '
        'the scan of calcMultiLayerMerkleInfo on title ids and a stable sort by title only to know which hash facts to tabulate',
    ],
    'assumptions': [
        'leaves are 32-byte values (GetHashFromTwoHash copies into a 64-byte buffer), fewer than 2^32 leaves (inner[32], uint32 position), '
        'Go int arithmetic does not overflow; matchlevel sentinel 0xff modelled as None',
        'goroutine scheduling in GetMerkleRoot/calcMultiLayerMerkleInfo is modelled as a map over chunks (results are placed by index, no shared writes)',
        'a transaction is abstracted to (para title or main, full hash); types.GetParaExecTitleName is taken as given',
        'multi stream: the two GetMerkleBranch calls of getMultiLayerProofs are replayed by the harness on the CalcMultiLayerMerkleInfo output; '
        'the serve stream goes through the real ProcQueryTxMsg / getMultiLayerProofs / para-tx table on a node',
        'ModelServe: a transaction is (title, tx.Hash(), tx.FullHash()); titles are numbers order-isomorphic to the title strings (byte order, main first: '
        'checked by the harness for its title set); the para-tx table of one height is a title-ordered association list (Replace on (height,title), '
        'rows of the height belong to the stored block: delParaTxTable on rollback, the harness marks foreign rows); block_txhash is what util.ExecBlock '
        'leaves in / demands of the header (root of TransactionSort(txs) after the fork, root of tx.Hash() before); int32/uint32 index arithmetic does not overflow; '
        'the para-chain node of the harness is a test node with a para title and blockchain.isParaChain=true running solo consensus (the para consensus plugin '
        'is not in the repository): its blocks are delivered through ProcessBlock; which transactions a real para-chain block may hold is decided by that plugin',
    ],
    'manifest': {
        'level_text': 'full for consistency (parallel = sequential = constant-space = recursive tree root, every worker count and leaf count) and '
                      'provability (every branch verifies, also through child chains) for an arbitrary hash function; binding in the symbolic '
                      'hash algebra: equal roots imply equal lists or lists related by the duplicated-tail pattern (that pattern preserves the root for every hash), '
                      'and the longer list is reported as mutated (any two equal aligned sibling blocks set the flag). '
                      'Proof serving (QueryTx: TransactionSort, header TxHash, para-tx table, getMultiLayerProofs, client check): full for every block '
                      'the producers build (any mix/order of main and para transactions, both sides of ForkRootHash) and binding of a served reply; '
                      'partial for received blocks: guarded by the stored list being title-sorted, because the node accepts unsorted blocks whose served proofs '
                      'do not verify (C18_served_proofs_verify_refuted, known finding 1, reproduced on a real node); para-chain node: guarded by a one-title block, '
                      'a block with several titles gets a proof that does not verify (C18_served_proofs_verify_para_refuted, known finding 2, reproduced)',
        'level_note': 'Trusted: Coq kernel; crypto/sha256 and the harness reference used to tabulate hashes; taskset/NumCPU; symbolic hash for binding.',
        'technique': 'Coq proof (binary-counter invariant over the leaf list, level-wise reduction lemma for the chunked root) + in-kernel correspondence check with a table-backed hash',
    },
    'harness_timeout': {'quick': 400, 'thorough': 3000},
    'coqc_timeout': 3000,
}
