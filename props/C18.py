SPEC = {
    'id': 'C18',
    'harness': 'hC18',
    'coq_dir': 'C18',
    'claimed': False,
    'theorems': [],
    'allowed_axioms': [],
    'shard': 230,
    'rule': 'TODO',
    'trusted_base': [],
    'assumptions': [],
    'harness_timeout': {'quick': 300, 'thorough': 3000},
}
