SPEC = {
    'id': 'C18',
    'harness': 'hC18',
    'coq_dir': 'C18',
    'claimed': True,
    'theorems': [
        'C18_parallel_eq_sequential',
        'C18_root_is_tree_root',
        'C18_computation_root',
        'C18_branch_is_tree_branch',
        'C18_branch_verifies',
        'C18_dup_tail_same_root',
        'C18_binding',
        'C18_equal_siblings_flagged',
        'C18_child_roots_verify',
        'C18_example_duptail',
        'C18_example_parallel_and_branch',
    ],
    'allowed_axioms': [],
    'shard': 450,
    'rule': 'jobs are a deterministic function of (seed, tier): every leaf count 0..400 (thorough 0..3000) with distinct leaves, '
            'sampled counts up to 3000 (thorough 20000) around the step/cap boundaries (c*2^k +-1, multiples of 256 +-1) and random ones; '
            'each count is evaluated by GetMerkleRoot in child processes pinned with taskset to 1,2,3,4,8,16 CPUs (thorough 1..16) so that '
            'runtime.NumCPU() and hence the chunking varies; repeated-leaf lists over alphabets of 1..3 values; pairs of lists '
            '(aligned duplicated tail once/twice, unaligned duplicate, replaced/swapped/dropped leaf, identical); every branch position '
            'for counts <= 64 (thorough 300) plus out-of-range positions, sampled positions for larger counts; mixed main/para-chain '
            'transaction lists (0..5 segments, 4 titles, some segments above the 80-leaf threshold) through CalcMultiLayerMerkleInfo/'
            'CalcMerkleRoot with the two GetMerkleBranch calls of getMultiLayerProofs. '
            'non-trivial = at least two leaves/transactions (and an in-range position for branch cases); distinct = distinct Gallina case terms',
    'trusted_base': [
        'crypto/sha256 and the harness\'s own 5-line double hash + level-by-level reference tree (independent of merkle.go) produce the '
        'hash table (left id, right id, digest id) the Coq model looks hashes up in; the harness interns 32-byte values as ids per case '
        '(TCanon shorthand is only used after the harness checked that its interned table equals the canonical numbering)',
        'taskset(1) and runtime.NumCPU() following the affinity mask (the harness aborts if a child sees a different CPU count)',
        'C18_binding is stated in the free term algebra h (leaves are atoms, H2 injective): stands for collision freedom of double SHA-256; '
        'all other theorems hold for an arbitrary hash function',
    ],
    'assumptions': [
        'leaves are 32-byte values (GetHashFromTwoHash copies into a 64-byte buffer), fewer than 2^32 leaves (inner[32], uint32 position), '
        'Go int arithmetic does not overflow; matchlevel sentinel 0xff modelled as None',
        'goroutine scheduling in GetMerkleRoot/calcMultiLayerMerkleInfo is modelled as a map over chunks (results are placed by index, no shared writes)',
        'a transaction is abstracted to (para title or main, full hash); types.GetParaExecTitleName is taken as given',
        'blockchain/query_tx.go getMultiLayerProofs needs a chain database; its two GetMerkleBranch calls are replayed by the harness on the '
        'CalcMultiLayerMerkleInfo output instead of going through the database',
    ],
    'manifest': {
        'level_text': 'full for consistency (parallel = sequential = constant-space = recursive tree root, every worker count and leaf count) and '
                      'provability (every branch verifies, also through child chains) for an arbitrary hash function; binding in the symbolic '
                      'hash algebra: equal roots imply equal lists or lists related by the duplicated-tail pattern (that pattern preserves the root for every hash), '
                      'and the longer list is reported as mutated (any two equal aligned sibling blocks set the flag)',
        'level_note': 'Trusted: Coq kernel; crypto/sha256 and the harness reference used to tabulate hashes; taskset/NumCPU; symbolic hash for binding.',
        'technique': 'Coq proof (binary-counter invariant over the leaf list, level-wise reduction lemma for the chunked root) + in-kernel correspondence check with a table-backed hash',
    },
    'harness_timeout': {'quick': 400, 'thorough': 3000},
    'coqc_timeout': 3000,
}
