SPEC = {
    'id': 'C19',
    'harness': 'hC19',
    'coq_dir': 'C19',
    'claimed': True,
    'theorems': ['C19_history_independent_partial', 'C19_validity_history_independent_partial',
                 'C19_default_config_validity', 'C19_default_config_exact', 'C19_default_guard_satisfiable',
                 'C19_validity_order_independent',
                 'C19_possible_results_exact', 'C19_spec_is_descending_id_order', 'C19_cache_capacity_kept',
                 'C19_refuted_cache', 'C19_refuted', 'C19_refuted_error_order',
                 'C19_refuted_dapp_validity_order', 'C19_refuted_pubkey_cache',
                 'C19_guard_satisfiable', 'C19_vguard_satisfiable'],
    'allowed_axioms': [],
    'shard': 40,
    'rule': 'query histories (1-10 queries quick, 1-24 thorough) of address.CheckAddress / dapp.CheckAddress / '
            'address.PubKeyToAddr or Transaction.From (crypto context set to the height first) / Transaction.CheckSign over a '
            'fixed alphabet of 20 address strings (valid btc / multisig / eth in three spellings / utxo outpoint, wrong '
            'version, wrong checksum of both kinds, over-long, garbage, two registered exec-driver addresses), 6 public keys, '
            '6 signed transactions and 15 heights around the boundaries; configuration per case: address driver enable '
            'heights from {0,10,30,-1} (default driver btc or eth), ForkMultiSignAddress {0,20}, ForkBase58AddressCheck '
            '{0,25}, ForkFormatAddressKey {0,15}, crypto context with/without API, cache capacities 10240 or 1-3, '
            'secp256k1/ed25519 enabled/disabled with enable heights. Every history starts from fresh caches; every query is '
            'also answered from fresh caches (4 repetitions for address checks because the map order varies, 1 otherwise) '
            'and, for a sample (10 quick / 120 thorough), by a fresh OS process (the binary re-executed). Streams: '
            '"guarded-exact" (g=2: the exact guard guard_b holds - every spec failure is a violation), "guarded-validity" '
            '(g=1: vguard_b holds, half of them with all enable heights 0 - every nil/non-nil failure is a violation, '
            'error-identity divergences may match findings 2/3), "unrestricted" (g=0), "witness" (the refutation witnesses of '
            'Properties.v and a default-configuration sanity history). The generator\'s guard claim is re-checked in Coq. '
            'non-trivial = some cache key is used at least twice in the history; distinct = distinct Gallina case terms',
    'trusted_base': [
        'oracle tables supplied with every case (function arguments of the model; the theorems quantify over them): the '
        'ValidateAddr result class of every (driver, address string) obtained by calling the four registered drivers '
        'directly; the unformatted address of every (driver, public key) (btc.FormatBtcAddr, go-ethereum '
        'PubkeyToAddress/Keccak256 + EIP-55 Hex); whether each prepared signature verifies (crypto driver Validate)',
        'address strings / public keys / signed transactions are named by small numbers: distinct strings get distinct numbers',
        'no hook file in /repo: the harness reaches the unexported cache variables common/address.checkAddressCache, '
        'system/address/eth.addrCache, system/address/btc.normalAddrCache/multiSignAddrCache through go:linkname; '
        '"fresh caches" = these four replaced/purged; equivalence with a fresh OS process is sampled on every run',
        'Go map iteration order = an arbitrary permutation per call (the model over-approximates Go\'s random start bucket); '
        'model agreement follows every cache state consistent with the answers seen so far (Check.v next_states), using '
        'the closed form `possible` that C19_possible_results_exact ties to the loop',
        'hashicorp/golang-lru is modelled (move-to-front on Get, update-or-push + evict-oldest on Add), not verified',
    ],
    'assumptions': [
        'perms_ok: every call iterates over exactly the registered drivers, each once',
        'exact theorem: guard_b (same cache key => same spec value; at most one distinct error among enabled rejecting '
        'drivers); validity theorem: vguard_b (queries of one address agree on spec validity), implied by all enable heights = 0',
        'sequential histories only: concurrent CheckAddress calls race on nothing but the (thread-safe) LRU and are not modelled',
        'CheckSign has no cache in the code; its purity is checked by correspondence only',
        'address.SetNormalAddrVer / re-running address.Init or crypto.Init in the middle of a history is not modelled '
        '(configuration is fixed per history)',
    ],
    'manifest': {
        'level_text': 'partial: history independence proved under boolean guards (exact: guard_b; nil/non-nil: vguard_b, which '
                      'every history satisfies under the default all-zero enable heights); the unguarded statements are '
                      'refuted in the model and on the code (4 open findings: cache x enable height, error identity by map '
                      'order, pre-fork dapp.CheckAddress validity by map order, eth pubkey cache x format fork)',
        'level_note': 'model = hand-written Gallina transcription of CheckAddress (cache + driver loop under a permutation), '
                      'isEnable, dapp.CheckAddress, PubKeyToAddr with the per-driver caches and the eth formatting, crypto enable '
                      'check; ValidateAddr / raw address / signature validity are oracle tables; LRU modelled',
        'technique': 'Coq proof (cache invariant by induction over query histories, permutation reasoning for the driver '
                     'loop) + in-kernel correspondence check against fresh-cache and fresh-process answers',
    },
    'harness_timeout': {'quick': 300, 'thorough': 3000},
}
