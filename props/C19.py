SPEC = {
    'id': 'C19',
    'harness': 'hC19',
    'coq_dir': 'C19',
    'claimed': True,
    'theorems': ['C19_history_independent_partial', 'C19_validity_history_independent_partial',
                 'C19_default_config_validity', 'C19_default_config_exact', 'C19_default_guard_satisfiable',
                 'C19_validity_order_independent',
                 'C19_possible_results_exact', 'C19_spec_is_descending_id_order', 'C19_cache_capacity_kept',
                 'C19_refuted_cache', 'C19_refuted', 'C19_refuted_error_order',
                 'C19_refuted_dapp_validity_order', 'C19_refuted_pubkey_cache',
                 'C19_guard_satisfiable', 'C19_vguard_satisfiable',
                 'C19_txcache_first_verdict_sticks', 'C19_txcache_history_independent_partial',
                 'C19_txcache_guard_is_exact', 'C19_txcache_single_use_exact', 'C19_txcache_refuted',
                 'C19_txcache_sign_refuted', 'C19_txcache_check_refuted', 'C19_txcache_witness_answers',
                 'C19_txcache_guard_satisfiable', 'C19_txcache_single_use_satisfiable',
                 'C19_sign_gate_exact', 'C19_sign_valid_monotone', 'C19_sign_same_side',
                 'C19_txsign_refines_check_sign'],
    'allowed_axioms': [],
    'shard': 40,
    'rule': 'query histories (1-10 queries quick, 1-24 thorough) of address.CheckAddress / dapp.CheckAddress / '
            'address.PubKeyToAddr or Transaction.From (crypto context set to the height first) / Transaction.CheckSign over a '
            'fixed alphabet of 20 address strings (valid btc / multisig / eth in three spellings / utxo outpoint, wrong '
            'version, wrong checksum of both kinds, over-long, garbage, two registered exec-driver addresses), 6 public keys, '
            '6 signed transactions and 15 heights around the boundaries; configuration per case: address driver enable '
            'heights from {0,10,30,-1} (default driver btc or eth), ForkMultiSignAddress {0,20}, ForkBase58AddressCheck '
            '{0,25}, ForkFormatAddressKey {0,15}, crypto context with/without API, cache capacities 10240 or 1-3, '
            'secp256k1/ed25519 enabled/disabled with enable heights. Every history starts from fresh caches; every query is '
            'also answered from fresh caches (4 repetitions for address checks because the map order varies, 1 otherwise) '
            'and, for a sample (10 quick / 120 thorough), by a fresh OS process (the binary re-executed). Streams: '
            '"guarded-exact" (g=2: the exact guard guard_b holds - every spec failure is a violation), "guarded-validity" '
            '(g=1: vguard_b holds, half of them with all enable heights 0 - every nil/non-nil failure is a violation, '
            'error-identity divergences may match findings 2/3), "unrestricted" (g=0), "witness" (the refutation witnesses of '
            'Properties.v and a default-configuration sanity history). The generator\'s guard claim is re-checked in Coq. '
            'non-trivial = some cache key is used at least twice in the history; distinct = distinct Gallina case terms. '
            'TransactionCache histories (case constructor TcHist; 1-10 calls quick, 1-24 thorough): calls '
            'TransactionCache.Check(cfg,h,minfee,maxfee) / CheckSign(h) / GetTotalFee(minfee) on 1-6 wrapper objects created '
            'fresh per history (several wrappers may share one *Transaction) and the memo-free Transaction.Check / '
            'Transaction.CheckSign / Transactions.CheckSign on the bare transactions, over a fixed alphabet of 35 transactions '
            '(fees at/below/above the thresholds, 1-2 fee units, oversize, foreign chain id, unsigned, secp256k1 / ed25519 / sm2 / '
            '"none" driver / unknown sign types / sign types with address-id and masked bits, tampered signatures, five shapes on '
            'which GetTxGroup fails or yields 0-1 members, 14 groups: mixed signature types, bad member signature, member fee, '
            'broken Next, foreign member chain id, para titles one/two/mixed/untitled, head fee above maxfee, 3 fee units), heights '
            'from the same 15-height alphabet, fee rates {0,1e5,2e5,1e6,2^62 (int64 wrap)}, max fees {0,1e7,150000}; configuration '
            'per case: secp256k1/ed25519/sm2/none enabled or not with enable heights {0,10,-1}/{0,20}/{0,30}/{0,15}, '
            'ForkTxChainIDStrict {MaxHeight,12}, ForkBlockCheck {0,18}, ForkTxGroupPara {0,22}. Every distinct call is also '
            'answered by a fresh wrapper and by the memo-free function (and a sample by a fresh OS process). Streams: "tc-guarded" '
            '(g=2: tguard_b holds, rejection-sampled with the fresh verdicts; every spec failure is a violation), "tc-single-use" '
            '(g=3: the mempool pattern, no method twice on a wrapper, many wrappers per transaction), "tc-unrestricted" (g=0, may '
            'hit finding 5), "tc-sign-load" (g=3: histories of signature checks only, bare and through one-shot wrappers, of many '
            'transactions of the same sign types on both sides of the enable heights - the stream that a process-wide driver memo '
            'in front of crypto.Load breaks), "tc-witness" (the refutation witnesses of Properties.v, GetTotalFee/GetTxGroup-error '
            'interplay, int64 wrap). For TcHist non-trivial = some wrapper is checked twice by the same method',
    'trusted_base': [
        'oracle tables supplied with every case (function arguments of the model; the theorems quantify over them): the '
        'ValidateAddr result class of every (driver, address string) obtained by calling the four registered drivers '
        'directly; the unformatted address of every (driver, public key) (btc.FormatBtcAddr, go-ethereum '
        'PubkeyToAddress/Keccak256 + EIP-55 Hex); whether each prepared signature verifies (crypto driver Validate)',
        'address strings / public keys / signed transactions are named by small numbers: distinct strings get distinct numbers',
        'no hook file in /repo: the harness reaches the unexported cache variables common/address.checkAddressCache, '
        'system/address/eth.addrCache, system/address/btc.normalAddrCache/multiSignAddrCache through go:linkname; '
        '"fresh caches" = these four replaced/purged; equivalence with a fresh OS process is sampled on every run',
        'Go map iteration order = an arbitrary permutation per call (the model over-approximates Go\'s random start bucket); '
        'model agreement follows every cache state consistent with the answers seen so far (Check.v next_states), using '
        'the closed form `possible` that C19_possible_results_exact ties to the loop',
        'hashicorp/golang-lru is modelled (move-to-front on Get, update-or-push + evict-oldest on Add), not verified',
        'TransactionCache part: per member transaction the ChainID and Fee fields, the size in fee units (obtained from '
        'GetRealFee(1)), the raw sign type and whether the signature verifies with the driver loaded at height -1 (driver '
        'Validate called directly), GetParaExecTitleName / IsParaExecName, and per group the verdict of the argument-independent '
        'header/count/next loop of CheckWithFork (recomputed by the harness from Hash(), cross-checked against the real loop '
        'where no argument-dependent check precedes it) are oracle data supplied with every case; proto decode errors are the '
        'class TOther; the sign-type mask of ExtractCryptoID, the crypto.Load gate, Transaction.check, CheckWithFork up to the '
        'structural loop, int64 wrap-around and the three memo fields are modelled in Gallina (ModelTx.v)',
        'the sign name is taken to be crypto.GetName(ExtractCryptoID(ty)): executor-specific crypto drivers '
        '(ExecutorType.GetCryptoDriver, plugins only) are not modelled',
    ],
    'assumptions': [
        'perms_ok: every call iterates over exactly the registered drivers, each once',
        'exact theorem: guard_b (same cache key => same spec value; at most one distinct error among enabled rejecting '
        'drivers); validity theorem: vguard_b (queries of one address agree on spec validity), implied by all enable heights = 0',
        'sequential histories only: concurrent CheckAddress calls race on nothing but the (thread-safe) LRU and are not modelled',
        'Transaction.CheckSign / types.CheckSign / crypto.Load have no cache in the code; their purity is checked by '
        'correspondence (streams with sign ops, tc-sign-load), the gate itself is characterised by C19_sign_gate_exact',
        'TransactionCache theorems: tguard_b (all calls of one method on one wrapper object have the same spec verdict) - '
        'C19_txcache_guard_is_exact shows this guard is also necessary; single_use_b (no method twice on a wrapper) is the '
        'way every call site inside the repository uses the type',
        'a TransactionCache whose wrapped *Transaction is mutated between calls is not modelled',
        'Transaction.From / fromAddr as repaired in /repo 909acb0 (op OFrom: "" instead of a panic for an unregistered address id or a '
        'driver that cannot convert the key; direct address.PubKeyToAddr, op OPub, still panics); Transaction.checkSign refuses a '
        'signature without derivable sender and converts the signer key through the address driver cache at the crypto context '
        'height (the harness pins the context to the height of the call): OSign has a cache key in guard_b / finding-4 signature',
        'address.SetNormalAddrVer / re-running address.Init or crypto.Init in the middle of a history is not modelled '
        '(configuration is fixed per history)',
    ],
    'manifest': {
        'level_text': 'partial: history independence proved under boolean guards (exact: guard_b; nil/non-nil: vguard_b, which '
                      'every history satisfies under the default all-zero enable heights); the unguarded statements are '
                      'refuted in the model and on the code (4 open findings: cache x enable height, error identity by map '
                      'order, pre-fork dapp.CheckAddress validity by map order, eth pubkey cache x format fork). '
                      'TransactionCache: the wrapper answers exactly the verdict of the first call per method '
                      '(C19_txcache_first_verdict_sticks), so history independence holds iff all calls of one method on one '
                      'wrapper have the same verdict (C19_txcache_guard_is_exact), in particular for the single-use pattern of '
                      'the mempool; the unguarded statement is refuted in the model and on the code (open finding 5: API-level, '
                      'no in-repository call site re-uses a wrapper)',
        'level_note': 'model = hand-written Gallina transcription of CheckAddress (cache + driver loop under a permutation), '
                      'isEnable, dapp.CheckAddress, PubKeyToAddr with the per-driver caches and the eth formatting, crypto enable '
                      'check; ValidateAddr / raw address / signature validity are oracle tables; LRU modelled; '
                      'types.TransactionCache (signok / checked / checkok, GetTotalFee) with Transaction.check, '
                      'Transactions.CheckWithFork, checkSign -> ExtractCryptoID -> crypto.Load transcribed in ModelTx.v',
        'technique': 'Coq proof (cache invariant by induction over query histories, permutation reasoning for the driver '
                     'loop) + in-kernel correspondence check against fresh-cache and fresh-process answers',
    },
    'harness_timeout': {'quick': 300, 'thorough': 3000},
}
