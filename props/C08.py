SPEC = {
    'id': 'C08', 'harness': 'hC08', 'coq_dir': 'C08', 'claimed': True,
    'theorems': ['C08_refines_partial', 'C08_list_agrees_with_get', 'C08_refines_refuted'],
    'check_imports': 'From Coq Require Import List NArith ZArith String Ascii Bool.\nFrom C33 Require Import Lib.Harness C07.Model C07.Check C08.Model.\n',
    'allowed_axioms': [],
    'shard': 40,
    'rule': 'histories of 4..50 (thorough: 4..80) operations (short ones first) over a base database (GoMemDB, every 4th an on-disk GoLevelDB) '
            'pre-populated from a pool of 2..7 keys over the alphabet {00, a, b, ff} (half of the pool stored, 1/8 of those with an '
            'empty value), through db.NewLocalDB (every 9th history in read-only mode): Begin 10%, Commit 7%, Rollback 7%, '
            'Set 26% (30% with a nil value = delete; keys from the pool, 1/8 fresh), Get 20%, List 22% (prefixes "", a, ab, ff, a ff, b; '
            'empty or pool continuation key; counts 0,1,2,3,-1; direction words 0,1,4,5,8,9,2,3,12; the seek request), PrefixCount 8%. '
            'Unrestricted stream: histories listing the prefix whose upper bound is types.EmptyValue (known finding 1). '
            'Observables per operation: Get value / ErrNotFoundInDb / other error, listed items, count, panic. '
            'non-trivial = some Get or List of the history returned data; distinct = distinct Gallina case terms',
    'trusted_base': ['C07\'s trusted base (goleveldb iterators as an oracle, model of ListHelper / mergedIterator tied by correspondence)',
                     'GoMemDB / GoLevelDB point operations are an oracle: Set(k, nil) stores the empty value, Get of a missing key = ErrNotFoundInDb',
                     'the Gallina model coq/theories/C08/Model.v is tied to common/db/localdb.go by the differential check only; '
                     'the mutex is not modelled (histories are sequential)',
                     'blockchain/localdb.go (EventLocal* handlers) only dispatches to LocalDB by transaction id and is not driven by the harness',
                     'Coq kernel + vm_compute (refutation witness, Example, case evaluation)'],
    'assumptions': ['the base database is not written while the LocalDB is in use (LocalDB never writes it)',
                    'Begin inside an open transaction discards that transaction\'s writes and starts a new one (the code does so; the specification follows it)',
                    'keys and prefixes are byte strings; List / PrefixCount prefixes satisfy C07\'s guard prefix_ok (C08_refines_refuted shows the '
                    'refinement fails for the one prefix whose upper bound is types.EmptyValue; known finding C08-emptyvalue-prefix-open-range)',
                    'Set in read-only mode panics in both model and specification; other I/O errors are not modelled'],
    'manifest': {'level_text': 'partial only through C07\'s prefix guard: full refinement of the (base, committed overlay, open transaction) '
                               'specification for every history whose listing prefixes do not have types.EmptyValue as upper bound',
                 'level_note': 'unbounded Coq refinement theorem over all operation histories (both modes) about an executable model of LocalDB on top of '
                               'C07\'s merged-listing model; backends are oracles; model tied to the Go code by the correspondence check',
                 'technique': 'Coq proof (refinement by invariant over op histories) + in-kernel correspondence check'},
    'harness_timeout': {'quick': 300, 'thorough': 3000},
}
