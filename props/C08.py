SPEC = {
    'id': 'C08', 'harness': 'hC08', 'coq_dir': 'C08', 'claimed': True,
    'theorems': ['C08_refines_partial', 'C08_list_agrees_with_get', 'C08_refines_refuted',
                 'C08_handlers_isolated', 'C08_handlers_refine_partial', 'C08_handlers_machine_partial',
                 'C08_handlers_machine_refuted'],
    'check_imports': 'From Coq Require Import List NArith ZArith String Ascii Bool.\nFrom C33 Require Import Lib.Harness C07.Model C07.Check C08.Model C08.HModel.\n',
    'allowed_axioms': [],
    'shard': 40,
    'rule': 'histories of 4..50 (thorough: 4..80) operations (short ones first) over a base database (GoMemDB, every 4th an on-disk GoLevelDB) '
            'pre-populated from a pool of 2..7 keys over the alphabet {00, a, b, ff} (half of the pool stored, 1/8 of those with an '
            'empty value), through db.NewLocalDB (every 9th history in read-only mode): Begin 10%, Commit 7%, Rollback 7%, '
            'Set 26% (30% with a nil value = delete; keys from the pool, 1/8 fresh), Get 20%, List 22% (prefixes "", a, ab, ff, a ff, b; '
            'empty or pool continuation key; counts 0,1,2,3,-1; direction words 0,1,4,5,8,9,2,3,12; the seek request), PrefixCount 8%. '
            'Unrestricted stream: histories listing the prefix whose upper bound is types.EmptyValue (known finding 1). '
            'Observables per operation: Get value / ErrNotFoundInDb / other error, listed items, count, panic. '
            'Handler streams (case CHand): histories of 6..44 (thorough: 6..70) EventLocal* requests served by the blockchain module of a '
            'test node (one node with a memdb and one with a goleveldb block store, miner stopped), base entries written into the '
            'block-store database under a marker byte 01 (range emptied per history), up to ~5 transaction ids open at once: New 8% '
            '(1/6 read-only), Close 5%, Begin 9%, Commit 7%, Rollback 6%, Set 22% (0..3 pairs), Get 17% (0..3 keys), List 16%, '
            'PrefixCount 10% (raw message, asked on behalf of a chosen id); ids: 80% an open one, else 0, a closed one, one not handed '
            'out yet, negative; ids are relative to the pointer counter read by a New/Close probe before the history. '
            'hand-exec: 1..3 executor.NewLocalDB objects over a recording client API driven with Begin/Set/Get/List/Commit/Rollback/'
            'StartTx/Close calls - the recorded handler-level requests and replies form the case. hand-edge: 6 fixed scripts (count inside a '
            'transaction, unknown/closed/non-positive ids, read-only Set panic, two transactions). Observables per request: id handed '
            'out, ok, error class (ErrPointerNotFound / ErrNotSetInTransaction / recovered panic / other), values (nil = empty), items, count. '
            'non-trivial = some Get or List of the history returned data; distinct = distinct Gallina case terms',
    'trusted_base': ['C07\'s trusted base (goleveldb iterators as an oracle, model of ListHelper / mergedIterator tied by correspondence)',
                     'GoMemDB / GoLevelDB point operations are an oracle: Set(k, nil) stores the empty value, Get of a missing key = ErrNotFoundInDb',
                     'the Gallina model coq/theories/C08/Model.v is tied to common/db/localdb.go by the differential check only; '
                     'the mutex is not modelled (histories are sequential)',
                     'blockchain/localdb.go + common.StorePointer/GetPointer/RemovePointer: the Gallina model coq/theories/C08/HModel.v (dispatch written '
                     'once, instantiated with the LocalDB model and with the specification database) is tied to the handlers by the differential check '
                     'through the queue of a test node; requests are issued sequentially (the per-message goroutines, reqnum and the pointer-table mutex are '
                     'not modelled); transaction ids are compared relative to the counter value at the start of a history (nobody else allocates ids meanwhile)',
                     'the block-store database holds the chain\'s own keys besides the base: histories stay inside the marker range [01, 02) and the model is given only that range',
                     'a nil and an empty value in LocalReplyValue are the same observable (same protobuf encoding)',
                     'executor.LocalDB (caches on top of the handlers) is C11\'s model; here it only produces realistic request sequences',
                     'Coq kernel + vm_compute (refutation witness, Example, case evaluation)'],
    'assumptions': ['the base database is not written while the LocalDB is in use (LocalDB never writes it)',
                    'Begin inside an open transaction discards that transaction\'s writes and starts a new one (the code does so; the specification follows it)',
                    'keys and prefixes are byte strings; List / PrefixCount prefixes satisfy C07\'s guard prefix_ok (C08_refines_refuted shows the '
                    'refinement fails for the one prefix whose upper bound is types.EmptyValue; known finding C08-emptyvalue-prefix-open-range)',
                    'Set in read-only mode panics in both model and specification; other I/O errors are not modelled',
                    'message layer: every EventLocalNew owns one specification database over the shared base (nothing is ever written to the base), '
                    'requests without a transaction id read the base, EventLocalPrefixCount asked on behalf of transaction i must count what i reads '
                    '(C08_handlers_machine_refuted: it counts the raw database; known finding C08-handler-prefixcount-ignores-transaction; '
                    'C08_handlers_machine_partial guards counts to transactions that are never sent a non-empty Set)'],
    'manifest': {'level_text': 'partial only through C07\'s prefix guard: full refinement of the (base, committed overlay, open transaction) '
                               'specification for every history whose listing prefixes do not have types.EmptyValue as upper bound; the same per transaction '
                               'id through the EventLocal* handlers (unguarded isolation theorem: other ids never influence a transaction\'s replies); '
                               'the handler-level prefix count is outside (refuted: it ignores the transaction)',
                 'level_note': 'unbounded Coq refinement theorem over all operation histories (both modes) about an executable model of LocalDB on top of '
                               'C07\'s merged-listing model; backends are oracles; model tied to the Go code by the correspondence check',
                 'technique': 'Coq proof (refinement by invariant over op histories) + in-kernel correspondence check'},
    'harness_timeout': {'quick': 300, 'thorough': 3000},
}
