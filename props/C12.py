SPEC = {
    'id': 'C12',
    'harness': 'hC12',
    'coq_dir': 'C12',
    'claimed': True,
    'theorems': ['C12_write_allowed_implies_spec', 'C12_write_allowed_full_refuted',
                 'C12_write_allowed_implies_spec_partial', 'C12_key_executor_unique',
                 'C12_own_namespace_always_allowed', 'C12_success_implies_all_keys_allowed',
                 'C12_failure_discards_writes', 'C12_refused_tx_state',
                 'C12_local_key_shape', 'C12_exec_local_keys_shape',
                 'C12_group_unreported_write_refused', 'C12_group_failure_keeps_fee_only',
                 'C12_group_success_reported_allowed_state', 'C12_sdb_tx_unreported_write_refused'],
    'allowed_axioms': [],
    'shard': 600,
    'rule': 'direct calls: (chain title incl. parachain and malformed titles, executor name, key, ForkExecKey flag, friend table) '
            'built from a small alphabet of executor names (coins/coinsx/coin, token/tok/tokenx, manage, config, none, user.*, '
            'user.p.x.*, nested and truncated parachain prefixes, names with - and #) and key parts (mavl- variants, own / real / foreign / '
            'prefix-extended executor segment, exec-account tails with the address of the tx executor, its real executor or others, '
            'missing colon, wrong separators, create-token tails, empty parts); streams: name, key, allow (isAllowKeyWrite with free '
            'realExecer), allowexec (isAllowExec), local (isAllowLocalKey); guarded streams *-postfork (height >= ForkExecKey: any spec '
            'failure is a violation) and unrestricted *-prefork/*-fixed (may hit the legacy exceptions = known finding code 1). '
            'end to end: lists of 2-6 synthetic-driver transactions + a probe transaction through EventExecTxList on a test node '
            '(receipt type, surviving KV, state values seen by the probe), and EventAddBlock with generated local keys. '
            'groups (postfork, guarded): blocks of single transactions and transaction groups of 2-4 synthetic-driver members + a probe '
            'transaction through EventExecTxList; streams group-sly (a later member Sets, unreported, a key that an earlier member of the '
            'group or an earlier single transaction reported - same or another executor), group-loud (it reports the key too: decided by '
            'the write rule / friend table), group-honest, group-random (own, foreign and malformed keys, hidden writes, errors, small key '
            'alphabet); observables: receipt type and KV of every member, whether its Exec ran, the values the probe reads; the spec '
            'oracle flags an ExecOk receipt that does not report a key the driver Set (unreported write accepted), a non-ExecOk receipt '
            'with more than the fee KV, and probe values that differ from the reported KVs; byte strings of a group case are interned in a per-case table. '
            'non-trivial = key accepted / name accepted or rewritten / FindExecer succeeded / a transaction with keys got ExecOk / '
            'a synthetic driver that Set state keys directly ran (group streams) / local keys returned; distinct = distinct Gallina case terms',
    'trusted_base': ['drivers.ExecAddress (hash of the executor name) is an uninterpreted function exec_addr; the check feeds the '
                     'model the addresses the Go code computed',
                     'IsFriend of each driver is an uninterpreted function friend(driver, self, key, tx executor); the synthetic '
                     'drivers of the harness answer from a per-case table and record their calls; real drivers coins/manage/none refuse '
                     'the generated transactions',
                     'driver lookup is modelled as LoadDriver + the default DriverBase.Allow (AllowIsSame) after ForkCacheDriver; '
                     'drivers overriding Allow are outside the model',
                     'the Gallina model coq/theories/C12/Model.v is tied to allow.go / execenv.go / types name helpers by the '
                     'differential check only; unexported predicates are reached through /repo/executor/access_verif.go',
                     'the store below the block cache is modelled as the oldest part of the cache list (empty for the generated keys); '
                     'state values are never nil (no deletes through the state db)',
                     'Coq kernel + vm_compute (refutation witness, Examples, case evaluation)'],
    'assumptions': ['single transactions after genesis and transaction groups (ModelGroup.v: StateDB cache / txcache / key list with their '
                    'lifetimes, execTxOne on it, execTxGroup; checkTxGroup - expiry, fee, header/next hashes, blocked accounts - is taken as '
                    'passed, heights after ForkTxGroup and ForkResetTx0; API-environment errors are not modelled); '
                    'heights after ForkExecRollback, ForkStateDBSet and ForkCacheDriver; '
                    'drivers that do not run ExecLocal at the same time (ExecutorOrder = 0); fee handling is not modelled: the fee KV '
                    'of a receipt is an input',
                    'before ForkExecKey the three-clause statement is false (C12_write_allowed_full_refuted: manage -> mavl-config-*, '
                    'token -> mavl-create-token-*); C12_write_allowed_implies_spec_partial holds for fork flag true or keys outside the two exceptions',
                    'in the EventAddBlock path the local db is not in a transaction, so GetSetKeys is empty and the "every local key set '
                    'is reported" check is vacuous there; the prefix check still applies (a bad key makes the whole request answer ErrExecPanic)'],
    'manifest': {'level_text': 'partial: decision logic proved for all byte strings; the property as worded fails before ForkExecKey '
                               '(two legacy exceptions, refuted + guarded theorem); friend predicates and address hashing are parameters',
                 'level_note': 'ExecAddress and IsFriend are uninterpreted; driver lookup follows the default Allow rule; model tied to the Go code '
                               'by direct calls and end-to-end execution on a test node',
                 'technique': 'Coq proof (case analysis over the decision procedure, list lemmas) + in-kernel correspondence check'},
    'harness_timeout': {'quick': 300, 'thorough': 3000},
}
