import json
import os

SPEC = {
    'id': 'C27',
    'harness': 'hC27',
    'coq_dir': 'C27',
    'claimed': True,
    'theorems': ['C27_main_only_valid', 'C27_served_was_delivered',
                 'C27_rejected_no_effect_refuted', 'C27_rejected_no_effect_partial', 'C27_rejected_no_effect_nonvacuous',
                 'C27_no_poison_refuted', 'C27_no_poison_partial', 'C27_no_poison_nonvacuous',
                 'C27_rejected_invisible_refuted', 'C27_rejected_invisible_partial', 'C27_rejected_invisible_nonvacuous',
                 'C27_orphan_siblings_connected',
                 'C27_no_panic_refuted', 'C27_no_panic_partial', 'C27_no_panic_nonvacuous',
                 'C27_plain_header_same', 'C27_odd_header_chain_unchanged', 'C27_nil_fork_refused',
                 'C27_valid_refines_C25', 'C27_valid_refines_nonvacuous',
                 'C27_sig_pool_refuted', 'C27_sig_pool_partial', 'C27_block_signature_any_pool',
                 'C27_sig_pool_nonvacuous', 'C27_validity_independent_of_pool'],
    'allowed_axioms': [],
    'shard': 16,
    'rule': 'a factory test node builds an executed block tree (trunk t1..t14, branch S off t11 with a heavy s13, branch R '
            'r12..r15 off t11, branch U off t2; 3 transactions per block) and, for 5 target blocks (t3, t13, s13, r13, u3), '
            'every mutation: same-hash bodies (tx replaced, reordered, duplicated, tx of an ancestor, broken tx signature, '
            'foreign tx signature, block signature) and new-hash blocks (state root, tx root, height, parent, time lower / '
            'higher, difficulty, version, tx dropped / added / duplicated tail / none, heavy + bad state root; every header '
            'field at its EMPTY value: TxHash nil, StateHash nil, ParentHash nil, ParentHash all-zero, Height 0, Height 0 + '
            'all-zero parent (a second genesis block), BlockTime 0, Difficulty 0 (Version is 0 in genuine blocks); block '
            'signatures - garbage, one bit altered, truncated, made by another key, and a valid one - on the block as it is '
            'and on a copy without transactions whose roots are right). The validity '
            'class of every (header, body) pair is computed by the harness without the node\'s checks (signatures one by one, '
            'duplicate search in body and ancestor bodies, unchecked re-execution on the factory and comparison of both '
            'roots, block time and emptiness). Each history goes to a fresh node (memdb, every 8th leveldb) through '
            'BlockChain.ProcessBlock on the broadcast / sync / download path: A mutant at the tip then the genuine block '
            'then its child; B mutant as unexecuted side block, genuine block, branch overtakes; C mutant heavy enough to '
            'reorganise; D mutant waiting as orphan in front of / behind the genuine block and its child (new-hash mutants: '
            'guarded, ProcessOrphans must drop them and go on); E orphan cascade; H download-path node deleted under its child; '
            '(kinds guarded/...-refused-header: wrong height / unknown parent, never executed); S block-signature bodies at the '
            'tip of receivers that (a) do not know the block\'s transactions, (b) hold all of them in the mempool (offered '
            'through the API right before the delivery; the harness asks the mempool by EventCheckTxsExist what it holds '
            'before every delivery), (c) on the block without transactions - then the genuine block and its child; validly '
            'signed copies; pooled header mutants; T the signature stage alone (case CSig): one block on the genesis block of '
            'a fresh node with chosen transaction signatures altered (root re-declared), block signature none / valid / '
            'altered / truncated / other key / garbage, chosen genuine transactions (and a foreign one) in the mempool, '
            'optionally a wrong state root behind - the harness verifies every signature one by one, observed are the error '
            'class and whether the tip moved; F guarded random histories (genuine blocks in near-order with gaps and re-deliveries plus new-hash mutants '
            'below the margin, in half of the histories waiting in the orphan pool for t2); G unrestricted random histories. Observed per delivery: (isMain, '
            'isOrphan, error class incl. panic), tip, its total difficulty, body served under the delivered hash; at the '
            'end hash at every height, body served under every hash of the case, GetTx of every known transaction, '
            'genesis account at the tip state vs the factory. kinds are prefixed guarded/ (inputs inside the guards of '
            'the partial theorems: any spec failure is a violation), unrestricted/ or sig/; a history that delivers a block '
            'with an empty ParentHash is always unrestricted/ (finding 5). non-trivial = some delivery was '
            'rejected by a validity check; distinct = distinct Gallina case terms',
    'trusted_base': [
        'the validity oracle verr(hash, body): in Coq a function parameter of the model; on the Go side computed by the '
        'harness independently of util.PreExecBlock\'s checks (it re-executes with errReturn=false, which uses the '
        'executor and merkle code but none of the comparisons)',
        'block hashes and bodies are abstract identifiers (distinct blocks / bodies have distinct ids; the harness '
        'identifies a served body by its encoded transactions and block signature)',
        'the spec reference is C25\'s chain-selection model run over the acceptable deliveries only',
        'index nodes are identified by hash; DelNode is modelled by removing the node and marking its children '
        '(a node object re-created under a deleted hash is not distinguished from the deleted object)',
        'difficulty.CalcWork (C20) gives the per-block work',
        'the all-zero and the empty parent hash are two reserved ids of the universe (zero_par, empty_par); no block has '
        'one of them as its own hash; the receiving node started on an empty database, so its index holds the pre-genesis '
        'node (zero hash, height -1)',
        'signature stage: whether a signature verifies is an input (the harness calls types.CheckSign / '
        'Transaction.CheckSign one by one); transactions are identified by Transaction.Hash(), which does not cover the '
        'signature; what the mempool holds is read from the mempool itself',
    ],
    'assumptions': [
        'finalized height constant (0); enableBestBlockCmp off; main chain (not para); consensus may roll back',
        'no orphan expiry / index eviction (fewer than 10240 orphans, 102400 index nodes, histories shorter than 10 minutes)',
        'deliveries are sequential; in the histories the mempool of the receiving node is empty or holds validly signed '
        'transactions of genuine blocks only, and no delivered block carries an altered copy of a pooled transaction (the '
        'signature-check shortcut, finding 6, is exercised by the signature-stage cases only)',
        'solo consensus: CheckBlock only refuses empty blocks and a block time below the parent\'s',
    ],
    'manifest': {
        'level_text': 'partial: the node violates the property in four recorded ways (stored body + index node of a '
                      'failed block poison the genuine block; a failing reorganisation is not rolled back; a block with an '
                      'empty ParentHash makes ProcessBlock panic; a transaction signature is not verified when the mempool '
                      'holds a transaction with the same hash); two more '
                      '(ProcessOrphans stopped at the first refused orphan; nil fork after DelNode made ProcessBlock panic) '
                      'are repaired in chain33 and modelled as repaired. Proved for all states: ProcessBlock '
                      'does not panic on a block that names a parent (any height, all-zero parent included), and a block with '
                      'an empty / all-zero parent or height 0 leaves the best chain unchanged; the signature stage refuses a '
                      'block signature that does not verify whatever the mempool holds (all, some, none of the block\'s '
                      'transactions, or a block without transactions) and agrees with "all signatures verify" whenever the '
                      'pooled transactions are validly signed, so the validity class of a block does not depend on the '
                      'receiver\'s mempool; proved for all histories of plain headers: the best chain only holds blocks whose '
                      'stored/served body passed the checks, and every served body was delivered under that hash; rejected '
                      'deliveries that are below the reorganisation margin, share their hash with no valid delivery and are '
                      'nobody\'s parent are as if they had never arrived (same best chain as the run over the valid deliveries '
                      'only - on any path, in any position of the orphan pool); proved per delivery: a rejected block that '
                      'cannot start a reorganisation leaves the best chain unchanged; a valid block whose hash was not seen '
                      'before is never answered "exists" and its body is served; with only valid deliveries and consistent '
                      'heights the model coincides with the chain-selection model of C25 (so C25_converges applies). The Go '
                      'node agrees with the model on every generated history, and outside the four signatures with the '
                      'reference "rejected blocks never arrived"',
        'level_note': 'validity is an oracle; hashes/bodies abstract; fork choice as in C25; finalizer static; capacity '
                      'limits not reached',
        'technique': 'Coq proof (invariants by induction over delivery histories; refutation witnesses by computation) + '
                     'in-kernel correspondence check against test nodes',
    },
    'harness_timeout': {'quick': 400, 'thorough': 3600},
}


def extra(ctx):
    """ProcessBlock must not panic on a block that names a parent (C27_no_panic_partial; finding C27-3 was repaired by the
    nil-fork guard in connectBestChain). A panic on a block with an EMPTY ParentHash is finding C27-5 (blockExists /
    getHeaderByIndex); as the first divergence of a history it is classified by check_case, later ones are counted here.
    Every other panic of the run is a violation (a panic need not be the first divergence of its history)."""
    panics = 0
    nopar = 0
    first = None
    for c in ctx.cases:
        for st in (c.get('impl', {}).get('steps') or []):
            if st.get('err') == 7:
                if st.get('nopar'):
                    nopar += 1
                    continue
                panics += 1
                if first is None:
                    first = c
    known = []
    res = {'violations': [], 'known': known, 'coverage': {'processblock_panics': panics, 'processblock_panics_empty_parent': nopar}}
    path = os.path.join(os.path.dirname(os.path.dirname(os.path.abspath(__file__))), 'known_findings', 'C27.json')
    findings = json.load(open(path))['findings']
    if nopar and not [e for e in findings if e.get('code') == 5 and e.get('status') == 'open']:
        res['violations'].append({'kind': 'failing-input', 'theorem_or_correspondence': 'C27_no_panic_partial (ProcessBlock does not panic)',
                                  'what': '%d ProcessBlock call(s) on a block with an empty ParentHash panicked and finding 5 is not open' % nopar,
                                  'case': None})
    if panics:
        ent = [e for e in findings if e.get('code') == 3 and e.get('status') == 'open']
        if ent:
            known.append('KNOWN-FINDING: property=C27 %s [%d panic(s) this run, e.g. case %s]' % (ent[0]['what'], panics, first.get('id')))
        else:
            res['violations'].append({'kind': 'failing-input', 'theorem_or_correspondence': 'C27_no_panic_partial (ProcessBlock does not panic)',
                                      'what': '%d ProcessBlock call(s) panicked in this run; first case shown' % panics, 'case': first})
    return res
