SPEC = {
    'id': 'C13',
    'harness': 'hC13',
    'coq_dir': 'C13',
    'claimed': True,
    'theorems': [
        'C13_plugin_order_independent', 'C13_plugin_order_nonvacuous',
        'C13_tx_sort_order_independent', 'C13_tx_sort_is_stable_grouping', 'C13_tx_sort_nonvacuous',
        'C13_verify_schedule_independent',
        'C13_gather_schedule_independent', 'C13_gather_nonvacuous',
        'C13_merkle_root_schedule_independent', 'C13_tx_root_cpu_independent', 'C13_tx_root_nonvacuous',
        'C13_child_chains_schedule_independent',
        'C13_del_dup_key_first_seen_last_value', 'C13_del_dup_key_nonvacuous',
        'C13_del_dup_tx_keeps_last',
    ],
    'allowed_axioms': [],
    'shard': 125,
    'check_preamble': 'Open Scope N_scope.\n',
    'rule': '(a) combinator cases: util.DelDupKey / util.DelDupTx on lists of length 0-14 over alphabets of 1-6 keys / '
            'transaction hashes (elements identified by position); types.TransactionSort and '
            'merkle.CalcMultiLayerMerkleInfo on lists of 0-12 transactions over 1-7 of 20 executor names (main chain, '
            'several parachain titles, malformed "user.p." names; for the merkle cases two thirds sorted as blocks carry '
            'them, one third unsorted); executor.sortedPluginNames on the real plugin table and on 0-9 registered names '
            '(each call repeated: Go randomises map iteration); types.VerifySignature on 0-13 signed transactions with '
            '0-2 or only invalid signatures under GOMAXPROCS 1/2/4/16. Every case carries a random permutation; the model is '
            'evaluated under the identity order and under that permutation and both must equal the Go result. '
            '(b) repeated execution (a test): 3 (thorough 10) generated sequences of 5-10 blocks (coins transfers incl. '
            'insufficient balance, none / parachain-titled / manage transactions, transaction groups, duplicates inside a '
            'block, replays of earlier transactions, expired and unfunded transactions; stat / addrfeeindex plugins on or '
            'off) are executed on fresh nodes by 7 (thorough 16) worker processes: GOMAXPROCS 1/2/4/16, taskset widths '
            '1/2/3/4/8/16, memdb and leveldb, fresh processes, a process that first ran an unrelated chain (twice in the '
            'same process), and a process with an unrelated chain executing concurrently plus busy goroutines. Per block: '
            'raw EventExecTxList receipts, receipt data, state KV set, state root / tx root / block, EventAddBlock and '
            'EventDelBlock local KV sets, the stored block detail, removed transactions; at the end a dump of the '
            'blockchain database. One CRuns case per sequence holds one digest vector per run; all must be equal. '
            '(c) large tx roots (a test): blocks of 81-8300 (thorough: up to ~9500) cheap main-chain transactions, sizes '
            'around 512*k for the taskset widths k = 2/3/4/8/16 (where GetMerkleRoot reaches its 256-leaf chunk cap and '
            'pads the last chunk) plus seeded random sizes; the same worker processes compute, before and after their '
            'block sequences, merkle.CalcMerkleRoot below and above ForkRootHash, TxHash and block hash of '
            'util.CreateNewBlock, merkle.GetMerkleRoot of the hash list and merkle.CalcMerkleRootCache. One CRoot case '
            'per size: every run must return the roots of the harness-side sequential reference (pairwise double '
            'SHA-256, last element duplicated on odd levels; no call into common/merkle). '
            'non-trivial = the input has a duplicate / two titles / an invalid signature / two child chains / more '
            'transactions than blocks / a run with n >= 512*NumCPU, NumCPU >= 2, n mod 256 != 0; distinct = distinct '
            'Gallina case terms',
    'trusted_base': [
        'only the order-sensitive combinators are modelled; everything else in block execution (dapp code, state tree, '
        'process-global caches) is covered by the repeated runs alone, which are a test',
        'Go maps are modelled as association lists whose iteration order is an arbitrary permutation; goroutine '
        'completion order as an arbitrary permutation of the task indices',
        'sort.Strings returns the ascending permutation of its input (modelled by insertion sort; the order on strings '
        'is total and antisymmetric, so the sorted permutation is unique)',
        'tx.CheckSign of a single transaction, GetMerkleRoot of a slice and calcSingleLayerMerkleRoot are oracles '
        '(C16, C18); the harness checks ChildHash_i against GetMerkleRoot of the slice the implementation reports',
        'hook executor/c13_verif.go swaps the plugin table for the duration of one sortedPluginNames call',
        'SHA-256 digests (first 63 bits shipped to Coq) stand for byte equality of the observables',
        'C13_tx_root_cpu_independent: log2 / pow2 / 256 cap / calcLevel / padding are C18.Model (par_step, child_root, '
        'get_merkle_root) and the CPU-count half of the proof is C18 parallel_eq_sequential (imported); hash2 and the '
        'nil hash are parameters (any hash function); tx.Hash / tx.FullHash / block header hash are taken from the '
        'implementation when the large-root reference is computed (C16)',
    ],
    'assumptions': [
        'transaction hashes and keys are compared as Go strings (byte equality)',
        'gather: every task delivers exactly one result with its own index (no lost or duplicated completion)',
        'repeated runs: enableMVCC is not exercised (a test node with enableMVCC panics in StateDB.enableMVCC)',
    ],
    'manifest': {
        'level_text': 'partial: unbounded Coq theorems that each order-sensitive combinator of block execution '
                      '(sorted plugin iteration, TransactionSort, signature fan-out, merkle gather-by-index, child-chain '
                      'table) is independent of map iteration order / goroutine schedule, that the transaction root is '
                      'the sequential root for every CPU count and chunk completion order, and that DelDupKey / DelDupTx '
                      'compute first-seen-order-last-value / last-occurrence; the Go functions agree with the model on '
                      'every generated input; whole-block determinism is tested by repeated execution under varied '
                      'process history, GOMAXPROCS and CPU widths, and large transaction roots are compared with a '
                      'sequential reference under every width',
        'level_note': 'hidden nondeterminism outside the modelled combinators can only be caught by the repeated runs',
        'technique': 'Coq proof (permutation invariance, simulation of the in-place loops) + in-kernel correspondence '
                     'check + repeated execution in re-executed worker processes',
    },
    'harness_timeout': {'quick': 400, 'thorough': 3000},
}


def extra(ctx):
    """No additional checks: summarises the repeated-execution part for the evidence file."""
    runs = [c for c in ctx.cases if str(c.get('kind', '')).startswith('runs')]
    summ = []
    for c in runs:
        impl = c.get('impl') or {}
        summ.append({'config': c['kind'], 'blocks': impl.get('blocks'), 'transactions': impl.get('txs'),
                     'runs': impl.get('runs'), 'first_difference': impl.get('first_difference'),
                     'per_block_proposed_kept_ok_pack_localkvs': impl.get('per_block_proposed_kept_ok_pack_localkvs'),
                     'note': impl.get('note')})
    roots = []
    for c in ctx.cases:
        if str(c.get('kind', '')).startswith('troot'):
            impl = c.get('impl') or {}
            roots.append({'txs': impl.get('txs'), 'runs': len(impl.get('runs') or []),
                          'runs_with_cap_and_padded_last_chunk': impl.get('runs_with_cap_and_padded_last_chunk'),
                          'first_difference': impl.get('first_difference')})
    return {'violations': [], 'known': [],
            'coverage': {'repeated_execution': summ,
                         'large_tx_roots': roots,
                         'repeated_execution_note': 'part (b) is repeated execution, i.e. a test: it samples schedules and '
                                                    'process histories, it does not quantify over them'}}
