SPEC = {
    'id': 'C01',
    'harness': 'hC01',
    'coq_dir': 'C01',
    'claimed': True,
    'theorems': [
        'C01_set_preserves_order', 'C01_set_preserves_avl', 'C01_get_set', 'C01_get_is_lookup',
        'C01_traverse_range', 'C01_iterate_range', 'C01_root_identifies_tree', 'C01_save_monotone',
        'C01_load_save', 'C01_state_sorted', 'C01_state_last_write', 'C01_versioned_map',
        'C01_has', 'C01_get_index', 'C01_get_by_index', 'C01_remove_preserves_order', 'C01_tree_remove',
        'C01_remove_preserves_avl', 'C01_versioned_map_ops', 'C01_state_ops_sorted',
    ],
    'allowed_axioms': [],
    'shard': 8,
    'rule': 'one case = one history of committed batches run against the real mavl store on a temporary LevelDB '
            '(commit through Store.Set, through the Tree API, or through MemSet+Commit, chosen per batch; '
            'EnableMavlPrefix on for a third of the histories; first parent root nil or 32 zero bytes). '
            'Streams: every insertion order of 4 keys incl. the empty key (24 histories; thorough: 5 keys, 120), '
            'small (1-4 batches x 1-8 writes), medium (2-10 x 1-25), large (5-20 x 10-60, <= 500 writes). '
            'Keys from a 6-byte alphabet {00,01,61,62,fe,ff} behind shared prefixes ("", "mavl-coins-bty-", "a", 00, ff, ffff ...), '
            'the empty key, single bytes; ~30 % overwrites, 1/8 same-value rewrites, 1/10 batches re-commit the previous '
            'batch (equal roots), 1/15 empty batches, empty values. After every batch: probe of the new root '
            '(Size, Height, node structure in pre-order via the hook dump, Tree.Get index/value + Tree.Has + Store.Get '
            'for every key of the history and absent neighbours, GetByIndex incl. out-of-range indices, 8-10 range '
            'iterations with nil/empty/existing/absent bounds, both directions, inclusive and exclusive, stop-after-n), '
            're-probe of every older root (must be identical), root-hash coincidence class, number of database '
            'bindings; then close + reopen and probe every root again. '
            'non-trivial = at least 2 batches and a final tree of >= 3 leaves; distinct = distinct Gallina case terms',
    'trusted_base': [
        'SHA-256 over the protobuf encoding of LeafNode/InnerNode is idealised as a free term algebra (symbolic hash; '
        'injective). What is hashed follows node.go: leaf = (key, value, height 0, size 1); inner = (height, size, '
        'left hash, right hash) - the inner key is NOT hashed, which is why the store theorems carry the "keyed" invariant',
        'LevelDB (goleveldb) and the ARC node cache are oracles: the model database is a finite map; durability across '
        'a crash is C29',
        'Go-side comparison "an older root still probes identically" is computed by the harness (string equality of the '
        'rendered probe) and enters the case as a boolean; the first probe of each root and the probes after reopening '
        '(all roots for small histories, two roots for large ones) are compared in the kernel',
        'hook /repo/system/store/mavl/db/dump_verif.go (read-only pre-order dump) is used to observe the shape',
    ],
    'assumptions': [
        'heights/sizes are int32 in Go and Z in the model: no overflow below 2^31 leaves',
        'the model materialises a version completely on load and skips saving a sub-tree whose hash is already bound; '
        'Go loads lazily and skips nodes flagged persisted - same resulting map (binding counts are compared)',
        'EnableMVCC, EnableMavlPrune, EnableMemTree are out of scope here (C02, C05); EnableMavlPrefix is exercised '
        'on the implementation side against the same model (it only changes database keys)',
        'remove/DelKVPair is modelled, proved at tree level and exercised by the harness, but it is not on the block path '
        '(Store.Del is a stub): C01_versioned_map is over write batches, C01_versioned_map_ops adds DelKVPair batches',
    ],
    'manifest': {
        'level_text': 'full for the sequential store: unbounded Coq theorems for set/get/range/save/load and the '
                      'versioned-map theorem over all histories of write batches (and, separately, of write + DelKVPair batches)',
        'level_note': 'symbolic (injective) hash; LevelDB and the node cache as oracles; shape observed through an add-only dump hook',
        'technique': 'Coq proof (structural induction on trees, invariant over batch histories, content-addressed '
                     'database refinement) + in-kernel correspondence check on generated histories',
    },
    'harness_timeout': {'quick': 600, 'thorough': 6000},
}
