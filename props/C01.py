SPEC = {
    'id': 'C01',
    'harness': 'hC01',
    'coq_dir': 'C01',
    'claimed': False,
    'theorems': ['C01_rotate_right_elements'],
    'allowed_axioms': [],
    'shard': 4,
    'rule': 'TODO',
    'trusted_base': [],
    'assumptions': [],
    'harness_timeout': {'quick': 300, 'thorough': 3000},
}
