SPEC = {
    'id': 'C38',
    'harness': 'hC38',
    'coq_dir': 'C38',
    'claimed': True,
    'theorems': [
        'C38_mutex_exclusive', 'C38_no_secret_while_locked', 'C38_setpasswd_leaves_flag',
        'C38_observed_unlocked_implies_unlock_before', 'C38_secret_implies_unlock_before',
        'C38_flag_clear_implies_unlock_before',
        'C38_window_closed', 'C38_lock_survives_setpasswd', 'C38_concurrent_example',
        'C38_timeout_respected_seq', 'C38_unlocked_inside_timeout_seq', 'C38_timed_example',
        'C38_no_secret_after_timeout', 'C38_refused_after_timeout', 'C38_secret_timed_example',
    ],
    'allowed_axioms': [],
    'shard': 40,
    'check_preamble': 'Require Import C33.C38.Model C33.C38.Spec.\n',
    'rule': 'histories on a real wallet.Wallet (memory DB behind a wrapper that can hold one goroutine at its n-th seed-record read / '
            'password-hash read / batch write; mocked blockchain, store and mempool topics). Requests: SaveSeed, ProcWalletUnLock (right / other / '
            'malformed / empty password, Timeout 0 / 1 / 2 / 3600 / 86400 / -1 / 9223372037 / -9223372037 (int64 wrap-around either way), ticket-only), ProcWalletLock, ProcWalletSetPasswd (right / '
            'wrong old, valid / invalid new), ProcDumpPrivkey, GetSeed, ProcSignRawTx, ProcImportPrivKey, ProcSendToAddress, CheckWalletStatus, '
            'IsWalletLocked, GetWalletStatus, GetPrivKeyByAddr, restart (new Wallet on the same DB); passwords from a table of 8 (4 valid). '
            'Streams: seq (one request at a time, 4-70 steps); timed (real timers of 1-2 s, immediate expiry by negative / overflowing timeouts, '
            'observations >= 450 ms away from every deadline, planned clock kept within 200 ms or the case is generated again; 16 wallets in parallel; '
            'the first round is a right-password unlock with Timeout 1 / 2; each case fixes a battery of secret-returning requests - ProcSignRawTx by address '
            '(forms: single tx / Fee+NewToAddr+Expire / two-tx group Index 0 / group Index 1) and ProcDumpPrivkey for one or two accounts, GetSeed, '
            'ProcSendToAddress, one status read - and asks the SAME battery for the SAME accounts after every unlock (window open), after every passage of '
            'time (before / beyond the deadline), after every explicit lock, after every failed or successful re-unlock (failed ones ask for Timeout 2 / 3600 / 0) '
            'and after every password change: the oracle flags any secret / signature returned once the last successful unlock has expired); '
            'gate-guarded (a request is held inside its critical section at a DB operation while lock-free requests run and one mutex-taking request is '
            'started and seen to wait; no status observer while a SetPasswd is held); gate-window (status observers inside SetPasswd holds); '
            'gate-window-witness (the deterministic schedule of former finding 1: wrong old password, fresh process, held at the password-hash read, '
            'IsWalletLocked / GetWalletStatus asked meanwhile); spin (requests run under a goroutine that reads IsWalletLocked in a loop; a test that tries '
            'to see a transient state without any hold: only reads that began and ended during the call count); lost-lock-hammer (a test, 2 s quick / 15 s '
            'thorough: one goroutine loops ProcWalletSetPasswd with a wrong old password on an unlocked wallet, the other calls ProcWalletLock and then '
            'CheckWalletStatus; a status "unlocked" after the lock is a violation: former finding 2); dict (the password table). In every stream every '
            'spec failure is a violation (no open finding). '
            'non-trivial: seq = some request returned a stored secret; timed = a battery asked beyond a deadline after a battery request had handed out a secret inside that window; gate-guarded = a mutex-taking '
            'request was seen waiting; gate-window / witness = a status observer ran while a SetPasswd was held; spin = the observer completed a read '
            'during a SetPasswd on a locked wallet; hammer = at least one lock trial ran. distinct = distinct Gallina case terms',
    'trusted_base': [
        'the model is a hand-written LTS of wallet.go / wallet_proc.go at the granularity: one mutex operation, one atomic load or CAS of '
        'isWalletLocked, one DB read, one batch write per step; Go atomics are sequentially consistent, sync.Mutex is a lock; time.AfterFunc / '
        'Timer.Reset is a one-shot timer that may run any time at or after its deadline (in timed histories: as soon as it is due)',
        'checkWalletStatus is modelled by its decisive (second) load of the flag: no MineStatusReporter is registered (no ticket plugin in /repo), '
        'so ErrOnlyTicketUnLocked cannot occur; policy callbacks (wcom.PolicyContainer is empty in /repo) are not modelled',
        'passwords are byte strings; the salted SHA-256 password hash and the encryption of seed and keys are modelled by the password they were '
        'made with (C37 covers the cryptography); isValidPassWord is modelled for ASCII',
        'accounts are numbered in import order; DB, queue, bip39/bip32, signatures are not modelled: the harness recognises a returned key / seed / '
        'a valid signature of the stored key and reports RSecret (for a transaction group: every signature present is valid and made with that key); '
        'the form of a ReqSignRawTx that names the key by address (single tx / Fee+NewToAddr+Expire / group Index 0 / group Index 1) is chosen by the '
        'harness and is not part of the model request KSign',
        'correspondence for interleavings is checked where the harness can force the schedule (holds at DB operations, one waiting request) and, '
        'for the spinning observer, as "every value seen during a call is a value the model can show during that call"; free-running races between '
        'two adjacent atomic instructions (ProcWalletLock against the flag test of ProcWalletSetPasswd) cannot be forced from outside; for them the harness '
        'hammers the real wallet and every lock that does not stay in effect is a violation (schedule of C38_lock_survives_setpasswd)',
        'hook file /repo/common/db/creator_verif.go (add-only, build tag verif, shared with C37): lets wallet.New run on the holding memory DB',
        'Coq kernel + vm_compute (refutation witnesses, Examples, case evaluation)',
    ],
    'assumptions': [
        'C38_observed_unlocked_implies_unlock_before and C38_secret_implies_unlock_before hold for EVERY schedule of atomic steps, without guards, since '
        'chain33 66be1e2 (ProcWalletSetPasswd no longer clears and restores the lock flag; former findings C38-F1 / C38-F2, reproduced again when the commit is reverted)',
        'the timed statements (C38_timeout_respected_seq, C38_unlocked_inside_timeout_seq, C38_no_secret_after_timeout, C38_refused_after_timeout) are about quiescent histories (one request at a time, the timer '
        'function running as soon as it is due); Timeout <= 0 is not constrained by the timed oracle (0 = no timeout; the code expires small negative '
        'values at once and turns values below -9223372036 into a ~292-year timeout by int64 wrap-around, as the model does)',
    ],
    'manifest': {
        'level_text': 'full: for every schedule of atomic steps of arbitrarily many concurrent requests, timer expiries and restarts the mutex is exclusive, '
                      'every request that returns a stored key, the seed or a signature has tested the flag under the mutex, no step of a password change '
                      '(right or wrong old password) changes the lock flag, and every observer - lock-free or under the mutex - sees "unlocked" only after a '
                      'verified unlock with no lock / timeout / restart since (chain33 66be1e2 repaired the two former refutations); timeouts: for quiescent histories',
        'level_note': 'hand-written step-level LTS of the wallet lock tied to the Go code by sequential, timed, held-at-DB-operation and '
                      'spinning-observer histories on a real wallet.Wallet; cryptography, DB and queue abstracted; no ticket plugin',
        'technique': 'Coq proof (invariant by induction over arbitrary schedules of a step-level LTS) + '
                     'in-kernel correspondence check against a real wallet.Wallet with forced interleavings',
    },
    'harness_timeout': {'quick': 400, 'thorough': 3000},
}
