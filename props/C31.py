SPEC = {
    'id': 'C31',
    'harness': 'hC31',
    'coq_dir': 'C31',
    'claimed': True,
    'theorems': [
        'C31_spelling', 'C31_spelling_hex', 'C31_spelling_base58_literal', 'C31_base58_accepted_shape', 'C31_base58_any_version_accepted',
        'C31_hex_key_total', 'C31_listed_is_blocked',
        'C31_core_covers_positions', 'C31_blocked_position_rejected', 'C31_blocked_position_rejected_refuted',
        'C31_blocked_position_rejected_partial', 'C31_pool_rejects_at_every_height_refuted',
        'C31_pool_rejects_at_every_height_partial', 'C31_delay_entry_all_members', 'C31_executor_outer_refuted',
        'C31_proxy_inner_rejected_by_executor', 'C31_gate_exact', 'C31_inactive_no_effect', 'C31_rejection_sound',
        'C31_proxy_inner_before_fork_witness', 'C31_height0_hypothesis_needed',
        'C31_verdict_history_independent', 'C31_verdict_history_independent_nth', 'C31_history_blocked_rejected',
        'C31_history_witness',
    ],
    'allowed_axioms': [],
    'shard': 30,
    'check_imports': 'From Coq Require Import List NArith ZArith String Ascii Bool.\n'
                     'From C33 Require Import Lib.Harness C31.Model.\n',
    'rule': 'one test node (solo, ForkAccountBlacklist = 10, eth address driver enabled, stub "evm" driver because the evm '
            'executor is a plugin outside /repo, miner stopped after funding) for the whole run; the blacklist is swapped per '
            'case with types.SetBlockedAccountsForTest. Streams: "parse" (0-3 list entries out of 10 accounts in random '
            'spellings: lower/upper/mixed/EIP-55 hex, 0x/0X/no prefix, base58 literal, mutated entries that make the '
            'configuration panic; 6 IsBlockedAccount probes incl. mutated spellings (other version byte, bad checksum, '
            'length, characters, hex form of a base58 account) and 3 IsBlockedAccountRaw probes); "name" (GetRealExecName on '
            'generated execer names); "scen-single/group/proxy" + hand-written "w-*" cases (one submission: coins transfer / '
            'none / evm-named transaction with ContractAddr and Para (user.evm.*, user.p.para.evm, wrong names, undecodable '
            'payload, 19/21-byte Para) / proxy-exec transaction with an encoded inner transaction or garbage / group of 2-3; '
            'blacklist 0-3 of the accounts in random spellings plus exec addresses and the proxy address; call height in '
            '{1, 2, 9, 10, 11, 15, 1000}); observed per case: the exported predicates per member and for the group (gated, '
            'immediate, nil configuration), EventExecTxList receipt types with an empty blacklist and with the blacklist, '
            'AddTxsToBlock on [entry, clean filler], EventTx reply with an empty blacklist and with the blacklist (accepted '
            'transactions are removed again), EventAddDelayTx reply, and whether a delayed transaction embedded in a block '
            'sent to the pool as EventAddBlock was cached (probed with an empty blacklist: ErrDupTx = cached); "para" '
            '(exported predicates with the coins executor type bound to a para-chain configuration so that the real '
            'recipient differs from To); "hist-*" + hand-written "w-hist-*" (histories of ONE process, case CHist: one '
            'transaction body with a fixed nonce - coins transfer / none / evm-named with ContractAddr, alone or as second '
            'member of a 2-group (groups are asked at the delay entry points as well) - is signed by 2-3 accounts out of 5 funded ones and one unfunded one, so all copies have the '
            'same Transaction.Hash() and differ in the sender only; the history is a sequence of blacklist loads and of asks '
            '(signer, height, enforcement point in {exported predicates, EventExecTxList, AddTxsToBlock, EventTx, '
            'EventAddDelayTx, delayed transaction in a block}); the blacklist is loaded ONLY where the history says so (the '
            '"without blacklist" baselines of EventExecTxList / EventTx are taken before the first load of the history; the '
            'probe after a delayed-transaction-in-a-block step is recorded as a reload); "hist-pair": load [listed signer '
            '(+ unrelated account)], clean signer at point p1, listed signer at point p2 for all 25 (p1, p2), sometimes '
            'followed by two more asks; "hist-pair-rev": listed signer first; "hist-rand": 3-7 steps, random signers, points, '
            'heights and reloads of other lists; "hist-reload": one transaction asked under lists that do / do not name its '
            'sender or recipient, 4 reloads; check_case folds the model state (the set parsed by the last load) over the '
            'history and applies model and spec oracle to every step, the known-finding code is that of the first failing '
            'step). non-trivial = a history asks about a signer that is on the loaded list or observes a rejection; otherwise '
            'non-trivial = some looked-at transaction (member or unwrapped inner) is hit by the '
            'blacklist / some probe is blocked / the configuration panics / the real exec name differs from the execer; '
            'distinct = distinct Gallina case terms',
    'trusted_base': [
        'double SHA-256 (common.Sha2Sum) is a function argument cks of the model (all theorems quantify over it); in the '
        'correspondence check it is a table computed by the harness with the same library for every 25-byte base58 decoding '
        'that occurs in the case (a missing entry makes the model answer "invalid address")',
        'transactions are records of facts read through exported Go functions: From(), GetTo(), GetRealToAddr(), GetExecer(), '
        'types.Decode of the payload as EVMContractAction4Chain33 (ContractAddr, Para), IsEthSignID of the signature type, '
        'address.CheckAddress(To); for proxy-exec transactions the harness repeats the protobuf steps of proxyGetRealTx '
        '(decode Para as a Transaction, copy the signature) to obtain the facts of the inner transaction',
        'everything else that decides a receipt or a pool reply (fees, signatures, expiry, nonce, balances, executor logic) '
        'enters the model as the observable of the same call with an empty blacklist (baseline); the model states that the '
        'blacklist turns exactly the rejected submissions into error receipts / Blocked replies and leaves the rest as the baseline',
        'pool: whether the stage of checkTxs in front of the per-member checkTx passes (Transaction.Check on the merged '
        'transaction, group decoding) is an oracle fact computed by the harness through the exported API; when it fails the '
        'model only demands that the reply equals the (rejecting) baseline',
        'the evm executor is not part of /repo: a stub driver named "evm" that accepts every transaction is registered so '
        'that evm-named and proxy-exec transactions pass the pool\'s remote check and execute (finding C31-F1 at the pool is '
        'therefore shown modulo the real plugin\'s own CheckTx; at the producer and the delay entry points no plugin code runs)',
        'the pool\'s EventGetEvmNonce query is answered by the harness the way rpc/server.go answers when no evm executor '
        'type is registered (Reply{IsOk:false}, i.e. nonce 0); the test node does not serve the rpc topic',
        'the embedded-delayed-transaction observation uses a hand-made block (height and time of the current tip) sent to '
        'the pool as EventAddBlock, as the blockchain module does',
        'histories: the delay cache refuses a hash it already holds (ErrDupTx) after the blacklist check; whether the body\'s '
        'hash already sits in the delay cache is tracked by the harness and given to the model as the baseline reply of the '
        'delay entry (PtDelay base); the process model has one state component, the parsed set (package variable '
        'blockedAccountSet), replaced by every successful load',
        'para stream: ExecutorType.SetConfig on the registered coins type (exported) switches GetRealToAddr to para behaviour in-process',
    ],
    'assumptions': [
        'block height 0 is exempt (execTx runs genesis transactions without checkTx); hypothesis e_h e <> 0 of the executor clauses',
        'heights: the spec calls the rule active when ForkAccountBlacklist <= height; Forks.IsFork additionally treats height -1 as active (C31_gate_exact)',
        'para chains: executor.checkTx returns before the blacklist check for transactions forwarded to the main chain (IsForward2MainChainTx); not modelled, no para node is run',
        'base58: NewBtcAddress ignores the version byte, so strings with another version byte and the same hash160, and the hex form of that hash160, are blocked as well (over-blocking, allowed by the one-directional spec; covered by the parse stream)',
        'AddTxsToBlock is observed far below the block size / count limits (those are property C30)',
    ],
    'manifest': {
        'level_text': 'full for plain (not proxied) transactions and groups at executor, producer, pool and both delay entry '
                      'points, in every accepted spelling (unbounded proofs over all blacklists, transactions, heights; hex '
                      'spelling clause proved, base58 clause = literal identity); partial for proxy-exec transactions '
                      '(pool/producer/delay look at the outer transaction only: open finding C31-F1; the executor looks at the '
                      'inner transaction only: C31-F3). Finding C31-F2 (delayed groups: head only) is repaired in the code: the '
                      'delay entry points expand a group and check every member (C31_delay_entry_all_members)',
        'level_note': 'model = Gallina transcription of account_blacklist.go (hex/base58 parsing down to characters, set, core '
                      'check, gate), GetRealExecName, and the wiring of the five enforcement points; SHA-256, protobuf decoding, '
                      'address derivation and all non-blacklist validity checks are inputs (facts / baseline observables); the '
                      'process model keeps only the parsed set between calls: every answer of a history of loads and checks is the '
                      'pure function of (transaction facts, last loaded list, fork configuration, height) '
                      '(C31_verdict_history_independent), checked against the running code by history cases in which one '
                      'transaction body is signed by several accounts',
        'technique': 'Coq proof (case analysis and induction over lists/strings; refutations by computed witnesses) + in-kernel '
                     'correspondence check against a running test node',
    },
    'harness_timeout': {'quick': 300, 'thorough': 3000},
}
