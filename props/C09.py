SPEC = {
    'id': 'C09',
    'harness': 'hC09',
    'coq_dir': 'C09',
    'claimed': True,
    'theorems': ['C09_getv_partial', 'C09_trash_partial', 'C09_trash_keeps_partial',
                 'C09_trash_deletes_only_old_partial', 'C09_delmvcc_restores',
                 'C09_refuted_getv', 'C09_refuted_trash',
                 'C09_block_reads_correct_partial', 'C09_disconnect_restores_partial', 'C09_inblock_reads_partial',
                 'C09_refuted_disconnect_restores', 'C09_refuted_block_reads_local', 'C09_local_layer_stuck'],
    'allowed_axioms': [],
    'shard': 20,
    'rule': 'one case = one version chain (<= 12 versions x <= 8 keys, 0-4 writes per version, duplicates inside a version, '
            'unique 1-2 byte values) over key sets built from the prefixes a b ab a0 k extended by . - 0-9 ! ~ / , + and the '
            'dangerous suffixes (".", "-", ".00000000000000000005", ".0", "..", ...): AddMVCC per version with the kv list written '
            'to the store (nil value -> Delete, else Set), dump of the store keys, GetV of every query key (written keys + '
            'unwritten neighbours) at every version 0..n (sometimes -1 and 1000000007), Trash(cut) on a copy for every cut with '
            'entry count and all reads again, DelMVCC(top,strict) on a copy + key dump + all reads, DelMVCC(top-1,strict), and the '
            'same chain through MVCCIter (last-value listing before/after DelMVCC). Streams: guarded (key set satisfies Safe2, any '
            'spec failure is a violation) and unrestricted (may run into findings 1/2; only the first divergence is classified), '
            'refused adds (wrong prevHash, version gap), empty/nil values (model comparison only), memdb and goleveldb backends, '
            'plus the two fixed witness chains. non-trivial = some key is written in two different versions; distinct = distinct Gallina terms. '
            'BLOCK cases (CB): one case = one history of <= 9 connect / disconnect / restart operations (chain <= 5 blocks, 32-byte state '
            'hashes, 0-3 writes per block over a Safe2 key set of 2-5 keys) on one store, driven like procExecAddBlock / procExecDelBlock: '
            'NewStateDB + enableMVCC(prev hash | nil), Set of the block KV set + Get of every query key, mvccPlugin.CheckEnable, '
            'mvccPlugin.ExecLocal / ExecDelLocal (= executor.AddMVCC / DelMVCC), kv list written to the store; after every operation every '
            'state hash of the case is opened (NewStateDB(hash, ctx height) + enableMVCC(nil)) and every query key read through StateDB.Get. '
            'Streams: raw layer with / without the StateDB steps (re-organisations, removed blocks coming back, plugin restarts; any spec '
            'failure is a violation), same-hash blocks (empty block on its parent; may run into finding 3), node local layer (executor.LocalDB '
            'over common/db LocalDB; runs into finding 4 at the first query), empty / nil values (model comparison only while such a block is on '
            'the chain), operations that do not fit the chain (wrong prev hash / height, removal below the top: model comparison only), memdb '
            'and goleveldb, 4 fixed witnesses. non-trivial (block case) = at least two operations were carried out',
    'trusted_base': ['goleveldb / memdb iterators behave as ordered maps with prefix ranges (that is property C06/C07; here the range '
                     '[prefix, bytesPrefix(prefix)) is modelled as "has prefix")',
                     'protobuf encoding of types.Int64 / types.LocalDBSet values is abstracted to tagged values (VVer, VKeys); only '
                     'the fact that Int64{0} and an empty set encode to zero bytes is modelled',
                     'the Gallina model coq/theories/C09/Model.v is tied to common/db/mvcc.go, mvcc_iter.go and '
                     'ListHelper.nextKeyValue by the differential check only',
                     'ModelExec.v (plugin_kvmvcc.go, execenv.go AddMVCC/DelMVCC, statedb.go enableMVCC/Get, plugin.go checkFlag) is tied to the '
                     'code by the block cases only; the harness reproduces the call sequence of executor.go procExecAddBlock / procExecDelBlock '
                     '(StateDB steps, CheckEnable, ExecLocal / ExecDelLocal) through the add-only hook /repo/executor/mvcc_verif.go; StateDB is '
                     'used without a queue client (a read without MVCC version answers not-found instead of asking the store)',
                     'the node local layer is executor.LocalDB with its API calls answered in-process the way blockchain/localdb.go answers '
                     'them (common/db LocalDB over the store; 30 lines of glue in harness/cmd/hC09/blocks.go), modelled as "a stored value of '
                     'length 0 reads as not found" for Get and as the plain ordered map for List',
                     'a state hash identifies a state: the block theorems ask that a connected block does not repeat a state hash that is on '
                     'the chain (ops_okb), and that a state hash is non-empty and does not start with "version" (hash_safe: hash, version and '
                     'key-list entries share the prefix .-mvcc-.m.; real state hashes are 32-byte digests)',
                     'the store writer convention (nil value deletes, anything else is Set) is the one of blockchain/blockstore.go, '
                     'reproduced in the harness',
                     'Coq kernel + vm_compute (refutation witnesses, Examples, case evaluation)'],
    'assumptions': ['versions are 0..n-1 in order with n < 2^63, reads at 0 <= v < 2^63 (negative versions are exercised by the '
                    'correspondence check only)',
                    'C09_getv_partial / C09_trash_partial assume every written value is non-nil and non-empty: an empty value is a '
                    '"deleted" marker for the list helper, so GetV skips it and returns the older value; the property text is silent '
                    'about this, such chains are compared implementation-vs-model only',
                    'C09_getv_partial needs Safe1 (no key, the key read included, is another key followed by "."): refuted without it '
                    '(C09_refuted_getv, finding 1)',
                    'C09_trash_partial needs Safe2 (no key is another key followed by a byte <= "."): refuted without it '
                    '(C09_refuted_trash, finding 2)',
                    'C09_delmvcc_restores is conditional on DelMVCC accepting; the unconditional form is C09_disconnect_restores_partial',
                    'C09_block_reads_correct_partial / C09_disconnect_restores_partial / C09_inblock_reads_partial: histories are node-shaped '
                    '(height, previous hash and the block removed follow from the chain), fewer than 2^63 operations, over the plain KVDB '
                    'layer (L = false); every connected state hash is fresh on the chain at that time and hash_safe. Without the fresh-hash '
                    'guard C09_refuted_disconnect_restores (finding 3); over the node local layer C09_refuted_block_reads_local / '
                    'C09_local_layer_stuck (finding 4)',
                    'the GetV guards (non-empty values, Safe1) are asked of the current chain only; blocks that were disconnected may have '
                    'written anything'],
    'manifest': {
        'level_text': 'partial: GetV correctness proved for all histories under the boolean guard Safe1, Trash safety under Safe2, '
                      'DelMVCC-restores unguarded; both guards proved necessary (two open findings reproduced on the Go code). Block '
                      'execution (kvmvcc plugin + StateDB): for every history of connected / disconnected blocks over the plain KVDB layer '
                      'nothing panics, a StateDB opened at the state hash of height i reads the latest write at or below i on the current '
                      'chain, and connect + disconnect restores every read — under fresh state hashes (necessary: finding 3, empty block on its '
                      'parent); over the node local layer the state of height 0 can never be opened (finding 4, proved for all blocks)',
        'level_note': 'hand-written Gallina model of mvcc.go over an ordered map; tied to the Go code by running version chains '
                      'through SimpleMVCC/MVCCHelper/MVCCIter on memdb and goleveldb and evaluating model and spec on the same '
                      'chains inside the Coq kernel; protobuf value encoding and the backend iterators are trusted. Block level: '
                      'hand-written model of plugin_kvmvcc.go / execenv.go / statedb.go tied to the code by block histories driven through '
                      'the real plugin, executor.AddMVCC/DelMVCC and StateDB (hook executor/mvcc_verif.go) on both local layers',
        'technique': 'Coq proof (store characterisation by induction over the history, reverse-walk invariant for Trash, '
                     'store-vs-chain relation preserved by connect / disconnect for block histories) + '
                     'in-kernel correspondence check'},
    'harness_timeout': {'quick': 300, 'thorough': 3000},
}
