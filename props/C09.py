SPEC = {
    'id': 'C09',
    'harness': 'hC09',
    'coq_dir': 'C09',
    'claimed': True,
    'theorems': ['C09_getv_partial', 'C09_trash_partial', 'C09_trash_keeps_partial',
                 'C09_trash_deletes_only_old_partial', 'C09_delmvcc_restores',
                 'C09_refuted_getv', 'C09_refuted_trash'],
    'allowed_axioms': [],
    'shard': 15,
    'rule': 'one case = one version chain (<= 12 versions x <= 8 keys, 0-4 writes per version, duplicates inside a version, '
            'unique 1-2 byte values) over key sets built from the prefixes a b ab a0 k extended by . - 0-9 ! ~ / , + and the '
            'dangerous suffixes (".", "-", ".00000000000000000005", ".0", "..", ...): AddMVCC per version with the kv list written '
            'to the store (nil value -> Delete, else Set), dump of the store keys, GetV of every query key (written keys + '
            'unwritten neighbours) at every version 0..n (sometimes -1 and 1000000007), Trash(cut) on a copy for every cut with '
            'entry count and all reads again, DelMVCC(top,strict) on a copy + key dump + all reads, DelMVCC(top-1,strict), and the '
            'same chain through MVCCIter (last-value listing before/after DelMVCC). Streams: guarded (key set satisfies Safe2, any '
            'spec failure is a violation) and unrestricted (may run into findings 1/2; only the first divergence is classified), '
            'refused adds (wrong prevHash, version gap), empty/nil values (model comparison only), memdb and goleveldb backends, '
            'plus the two fixed witness chains. non-trivial = some key is written in two different versions; distinct = distinct Gallina terms',
    'trusted_base': ['goleveldb / memdb iterators behave as ordered maps with prefix ranges (that is property C06/C07; here the range '
                     '[prefix, bytesPrefix(prefix)) is modelled as "has prefix")',
                     'protobuf encoding of types.Int64 / types.LocalDBSet values is abstracted to tagged values (VVer, VKeys); only '
                     'the fact that Int64{0} and an empty set encode to zero bytes is modelled',
                     'the Gallina model coq/theories/C09/Model.v is tied to common/db/mvcc.go, mvcc_iter.go and '
                     'ListHelper.nextKeyValue by the differential check only',
                     'the store writer convention (nil value deletes, anything else is Set) is the one of blockchain/blockstore.go, '
                     'reproduced in the harness',
                     'Coq kernel + vm_compute (refutation witnesses, Examples, case evaluation)'],
    'assumptions': ['versions are 0..n-1 in order with n < 2^63, reads at 0 <= v < 2^63 (negative versions are exercised by the '
                    'correspondence check only)',
                    'C09_getv_partial / C09_trash_partial assume every written value is non-nil and non-empty: an empty value is a '
                    '"deleted" marker for the list helper, so GetV skips it and returns the older value; the property text is silent '
                    'about this, such chains are compared implementation-vs-model only',
                    'C09_getv_partial needs Safe1 (no key, the key read included, is another key followed by "."): refuted without it '
                    '(C09_refuted_getv, finding 1)',
                    'C09_trash_partial needs Safe2 (no key is another key followed by a byte <= "."): refuted without it '
                    '(C09_refuted_trash, finding 2)',
                    'C09_delmvcc_restores is conditional on DelMVCC accepting (state-hash bookkeeping is checked by correspondence: '
                    'distinct 8-byte hashes); StateDB.Get with MVCC enabled is a direct call of SimpleMVCC.GetV(key, version) and is '
                    'not driven separately'],
    'manifest': {
        'level_text': 'partial: GetV correctness proved for all histories under the boolean guard Safe1, Trash safety under Safe2, '
                      'DelMVCC-restores unguarded; both guards proved necessary (two open findings reproduced on the Go code)',
        'level_note': 'hand-written Gallina model of mvcc.go over an ordered map; tied to the Go code by running version chains '
                      'through SimpleMVCC/MVCCHelper/MVCCIter on memdb and goleveldb and evaluating model and spec on the same '
                      'chains inside the Coq kernel; protobuf value encoding and the backend iterators are trusted',
        'technique': 'Coq proof (store characterisation by induction over the history, reverse-walk invariant for Trash) + '
                     'in-kernel correspondence check'},
    'harness_timeout': {'quick': 300, 'thorough': 3000},
}
