SPEC = {
    'id': 'C03',
    'harness': 'hC03',
    'coq_dir': 'C03',
    'claimed': True,
    'theorems': [
        'C03_complete', 'C03_complete_present', 'C03_absent_no_proof',
        'C03_sound', 'C03_sound_struct', 'C03_sound_injective',
        'C03_honest_heights_ok', 'C03_bad_height_rejected', 'C03_leaf_inner_confusion_rejected',
        'C03_sound_value', 'C03_proof_binds', 'C03_root_unique',
        'C03_verify_total', 'C03_verify_struct_total', 'C03_root_of_symbolic', 'C03_state_proofs', 'C03_ideal_hash',
    ],
    'allowed_axioms': [],
    'shard': 25,
    'check_preamble': 'Open Scope N_scope.\n',
    'rule': 'one case = one committed tree + its probes. The tree is built by the real SetKVPair over 1-10 block heights '
            '(EnableMavlPrefix on for every second case, EnableMavlPrune (PruneHeight 0) for half, LevelDB instead of memdb for 1/7; '
            'keys from a 6-byte alphabet behind shared prefixes incl. the empty key and keys longer than 32 bytes, ~20 % overwrites, '
            'hash-sized values under long and (1/10) short keys; block heights grow monotonically over the run) and read back by the harness from the raw node database (own StoreNode walker). '
            'Streams: tiny (empty tree, 1-6 leaves: every key proved, full mutation set at EVERY proof node for one key), '
            'small (2-4 batches x 2-6 writes: every key proved, every mutation kind at one random node), medium (3-8 x 4-12, '
            'every key proved, light mutations on 2 keys), large (5-10 x 20-40, 12 keys proved), malformed (14 byte-level '
            'probes per case), confuse (the forgeries of the fixed finding C03-leaf-inner-confusion - a node {height 0, size 1} in front '
            'of the honest path of a leaf whose key or value is the forged pair\'s leaf digest - both variants, tree sizes 1-15, plus the '
            'same with height 1 and -1; all must be rejected) and nearmiss (the same forgeries on trees without such a leaf). '
            'Two-sided nodes (inside every mutated key: at every node for tiny, at node 0 and one random node otherwise): the honest proof with the '
            'empty slot of node i filled with the genuine digest of the child on the path / a copy of the sibling / random 32 bytes / '
            '(node 0) the prefixed genuine child digest, each offered with the right pair and a flipped value, the genuine-child forgery also with '
            'flipped key, neighbour key + random value, another key of the tree, and as the path from node i only. Prove probes: GetKVPairProof + VerifyKVPairProof of the returned bytes, '
            'Tree.ConstructProof + Proof.Verify (value, LeafHash incl. prefix, RootHash) on the loaded tree and, in every third case '
            '(kind *-mem), on the UNSAVED tree after the last batch went through Tree.Set (mixed persisted / new nodes); absent neighbour keys. '
            'Mutations: value (bit flip, +00, truncated, empty, other value), key (bit flip, +00, other key, swapped with value), '
            'root (bit flip, empty, truncated, prefixed, older root of the same store, proof from an older root), per node '
            'height+-1, size+-1, sides swapped, digest bit flip, sibling emptied / truncated / prefixed with garbage / prefix removed, '
            'empty side filled, height 0 size 1, negative height, height/size swapped; node dropped / duplicated / exchanged / reversed, '
            'empty proof, extra node appended / prepended, MAVLProof.leafHash / rootHash / unknown fields appended, honest bytes cut; '
            'Proof struct: LeafHash bit flip / other prefix / no prefix / 31 bytes / empty, RootHash vs root argument. '
            'Malformed: random bytes, cuts, bit flips and insertions in honest bytes, oversized length prefix, over-long varint, '
            'wrong wire types, group markers, field 0, int32 extremes - all under recover(). '
            'non-trivial = tree of >= 3 leaves with >= 1 verification probe; distinct = distinct Gallina case terms',
    'trusted_base': [
        'SHA-256 over the protobuf encoding of the 4-field node message is the parameter H of the model. Theorems: for every H '
        'with 32-byte digests, conclusions hold "or H has a collision" (C03_sound, C03_sound_value, C03_proof_binds), '
        'with corollaries for injective H; an injective 32-element H exists in the model (C03_ideal_hash, stdpp encode)',
        'correspondence: H is instantiated per case by a table of SHA-256 values computed by the harness with crypto/sha256 over '
        'its own protobuf encoder (not proof.go / types.go) for every node of the tree and every digest along each supplied path; '
        'a lookup outside the table is a sentinel that fails the case',
        'protobuf decoding (proto.Unmarshal into types.MAVLProof, the call ReadProof makes) is an oracle: the model starts from the '
        'decoded list of (height, size, left, right) records; undecodable bytes must be rejected',
        'the tree handed to the model is read from the raw database by the harness (types.StoreNode records); goleveldb / memdb are oracles',
        'Lib-free reuse of C01: tree, elements, get, ordered, sized, thash (C03_root_of_symbolic ties the byte root to the symbolic root)',
    ],
    'assumptions': [
        'crash-freedom is exercised, not proved: a Go panic is outside any model (every probe runs under recover(); a panic is a violation '
        'with the bytes as replay). C03_verify_total shows the model Verify is total and depends on the list only through the recomputed chain',
        'soundness needs only that the committed tree is sized (inner heights >= 1, leaves height 0 - C01 invariant): the model is the verifier '
        'as repaired by chain33 c3a108e (Proof.Verify rejects supplied nodes with Height < 1), which closed finding C03-leaf-inner-confusion '
        '(LeafNode / InnerNode share one encoding); C03_honest_heights_ok shows honest proofs pass the added test, the confuse stream '
        'replays the former forgeries against the Go code',
        'heights/sizes are int32 in Go and Z in the model; EnableMVCC / EnableMemTree and real pruning (PruneHeight > 0, see C05) are out of scope; '
        'Proof.Verify on a Proof struct containing a nil *InnerNode (not producible from bytes) is out of scope',
        'proof malleability is not part of the property: mutations the verifier cannot see (ignored RightHash next to a LeftHash, bytes in '
        'front of a 32-byte sibling digest, unknown protobuf fields) are accepted by model and implementation alike and satisfy the spec',
    ],
    'manifest': {
        'level_text': 'full for completeness, soundness (no guard on the state since the fix c3a108e of the leaf/inner encoding '
                      'confusion), key/value binding and root uniqueness; crash-freedom of the Go decoder exercised, not proved',
        'level_note': 'parametric hash with collision-extraction conclusions; SHA-256 table computed independently by the harness; '
                      'protobuf decoding, LevelDB/memdb as oracles',
        'technique': 'Coq proof (structural induction on trees and proof paths, collision extraction) + in-kernel correspondence '
                     'check over an independently computed SHA-256 table',
    },
    'harness_timeout': {'quick': 600, 'thorough': 6000},
}
