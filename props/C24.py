SPEC = {
    'id': 'C24',
    'harness': 'hC24',
    'coq_dir': 'C24',
    'claimed': True,
    'theorems': [
        'C24_refines_sorted_list', 'C24_order', 'C24_fifo_ties', 'C24_capacity', 'C24_no_duplicates',
        'C24_observers_agree', 'C24_push_rule', 'C24_reject_unchanged', 'C24_remove_rule',
        'C24_insert_position', 'C24_push_total',
    ],
    'allowed_axioms': [],
    'shard': 25,
    'check_preamble': 'Open Scope Z_scope.\n',
    'rule': 'one case = one push/remove/walk history on a fresh skiplist.Queue with all observers recorded per operation '
            '(Walk(0), First, Last, Size, GetCacheBytes, Exist/GetItem for every key of the alphabet; Walk(count) results; '
            'Push/Remove error class). Streams: hand-written corner cases; small (capacity 1-5, 1-4 score values from -3..3, '
            'key alphabet capacity+1..4); ties (one score, ranks vary); extreme (int64 min/max scores); full-queue (88% pushes); '
            'large (capacity 12-40, scores -40..40, 120-250 ops, observers every 20 ops) for multi-level skip lists; '
            'edge-cap-nonpositive (capacity 0/-1/-2/int64 min: every Push is ErrMemFull, state unchanged; former finding 1, '
            'fixed in 5c1c856). Every history is executed three times under different '
            'math/rand seeds and must give identical observables. non-trivial = some Push was answered on a full queue '
            '(eviction or ErrMemFull); distinct = distinct Gallina case terms',
    'trusted_base': [
        'Scorer.Compare (an interface method supplied by the caller) is modelled as comparison of an integer rank field; '
        'the harness Scorer implements exactly that',
        'container/list elements and Go map keys are identified by the item hash (unique in the queue: proved invariant)',
        'layer 1 only: SkipList Find/Insert/Delete are modelled by their level-0 effect (sl_find/sl_insert/sl_delete); the '
        'independence of the random level structure is checked by the correspondence runs (three rand seeds, large stream), not proved',
        'int64 overflow of GetCacheBytes is not modelled (bytes are unbounded Z; harness sizes stay small)',
    ],
    'assumptions': [
        'ranks strictly higher = higher score, or equal score and Scorer.Compare(newcomer, worst) == Big (the code\'s own admission test); '
        'lowest-ranked = last item in Walk order',
        'C24_fifo_ties assumes the pushes of the history carry increasing arrival stamps (a payload field no queue function reads)',
    ],
    'manifest': {
        'level_text': 'full for the Queue logic over the level-0 view of the skip list (order, FIFO ties, capacity, eviction rule, '
                      'observers, refinement to a sorted list, totality of Push; all histories and all capacities including <= 0, '
                      'finding 1 fixed in 5c1c856); the multi-level pointer structure of SkipList is covered by correspondence only',
        'level_note': 'Scorer.Compare modelled as rank comparison; list elements identified by hash; skip-list levels not modelled '
                      '(observables compared under three different math/rand seeds per history)',
        'technique': 'Coq proof (simulation of a flat sorted-list specification, invariant by induction over op histories) + '
                     'in-kernel correspondence check',
    },
    'harness_timeout': {'quick': 300, 'thorough': 3000},
}
