SPEC = {
    'id': 'C24',
    'harness': 'hC24',
    'coq_dir': 'C24',
    'claimed': True,
    'theorems': [
        'C24_refines_sorted_list', 'C24_order', 'C24_fifo_ties', 'C24_capacity', 'C24_no_duplicates',
        'C24_observers_agree', 'C24_push_rule', 'C24_reject_unchanged', 'C24_remove_rule',
        'C24_insert_position', 'C24_push_total',
        'C24_skiplist_refines_level0', 'C24_skiplist_level_independent', 'C24_queue_uses_level0',
    ],
    'allowed_axioms': [],
    'shard': 25,
    'check_preamble': 'Open Scope Z_scope.\n',
    'rule': 'one case = one push/remove/walk history on a fresh skiplist.Queue with all observers recorded per operation '
            '(Walk(0), First, Last, Size, GetCacheBytes, Exist/GetItem for every key of the alphabet; Walk(count) results; '
            'Push/Remove error class). Streams: hand-written corner cases; small (capacity 1-5, 1-4 score values from -3..3, '
            'key alphabet capacity+1..4); ties (one score, ranks vary); extreme (int64 min/max scores); full-queue (88% pushes); '
            'large (capacity 12-40, scores -40..40, 120-250 ops, observers every 20 ops) for multi-level skip lists; '
            'edge-cap-nonpositive (capacity 0/-1/-2/int64 min: every Push is ErrMemFull, state unchanged; former finding 1, '
            'fixed in 5c1c856). Every history is executed three times under different '
            'math/rand seeds and must give identical observables. non-trivial = some Push was answered on a full queue '
            '(eviction or ErrMemFull); distinct = distinct Gallina case terms. Layer 2 (CSkip cases): one history of '
            'Insert/Delete/Find/FindGreaterOrEqual/in-place update on a skiplist.SkipList under a seeded math/rand; per operation '
            'the result and Len, Level, FindCount, WalkS, the prev chain from Iterator.Last, First, Last; the rand.Int()&0xFFFF '
            'draws randomLevel consumed (re-computed by a second generator with the same seed, advanced in lock-step) are the '
            'input stream of the multi-level Coq model, which must reproduce Level and FindCount exactly; the spec side is the '
            'level-0 sorted list. Streams: fixed corner cases, skip-dups (2-6 scores, duplicates allowed), skip-queue-like (one node '
            'per score, Find then Insert or mutate), skip-large (scores -40..40, 120-260 ops), skip-drain (grow then delete everything). '
            'non-trivial there = the list reached 3 levels and some Delete removed a node',
    'trusted_base': [
        'Scorer.Compare (an interface method supplied by the caller) is modelled as comparison of an integer rank field; '
        'the harness Scorer implements exactly that',
        'container/list elements and Go map keys are identified by the item hash (unique in the queue: proved invariant)',
        'layer 1 (Queue) uses the level-0 effect of SkipList Find/Insert/Delete (sl_find/sl_insert/sl_delete/sl_update); layer 2 '
        '(SkipModel.v) is a pointer-free model of skiplist.go (node records with next arrays, prev, tail, level, count, findcount in a '
        'heap indexed by node numbers; loops with fuel count+1; nil dereference / index out of range = Panic) and is proved to refine '
        'level 0 for every random stream; the two layers are connected by C24_queue_uses_level0 (insertSkipValue/deleteSkipValue are '
        'level-0 histories), not by re-running the Queue proofs over the heap model',
        'math/rand: the model takes the rand.Int() results as an input list (an exhausted list ends randomLevel\'s loop); the harness '
        'relies on rand.Seed(s) and rand.New(rand.NewSource(s)) producing the same sequence',
        'int64 overflow of GetCacheBytes is not modelled (bytes are unbounded Z; harness sizes stay small)',
    ],
    'assumptions': [
        'ranks strictly higher = higher score, or equal score and Scorer.Compare(newcomer, worst) == Big (the code\'s own admission test); '
        'lowest-ranked = last item in Walk order',
        'C24_fifo_ties assumes the pushes of the history carry increasing arrival stamps (a payload field no queue function reads)',
    ],
    'manifest': {
        'level_text': 'full for the Queue logic over the level-0 view of the skip list (order, FIFO ties, capacity, eviction rule, '
                      'observers, refinement to a sorted list, totality of Push; all histories and all capacities including <= 0, '
                      'finding 1 fixed in 5c1c856); full for the multi-level SkipList (Insert/Delete/Find/FindGreaterOrEqual refine the '
                      'level-0 sorted list for every level stream, no nil dereference, loops bounded, prev/tail consistent)',
        'level_note': 'Scorer.Compare modelled as rank comparison; list elements identified by hash; skip-list nodes live in a heap '
                      'indexed by node numbers (pointer-free), random numbers are an input stream; Queue proofs are over the level-0 view',
        'technique': 'Coq proof (simulation of a flat sorted-list specification, invariant by induction over op histories) + '
                     'in-kernel correspondence check',
    },
    'harness_timeout': {'quick': 300, 'thorough': 3000},
}
