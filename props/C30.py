SPEC = {
    'id': 'C30', 'harness': 'hC30', 'coq_dir': 'C30',
    'claimed': True,
    'theorems': ['C30_taken_is_unblocked_prefix', 'C30_count_le', 'C30_count_le_any_limits',
                 'C30_count_over_limit_adds_nothing', 'C30_count_le_unguarded_refuted',
                 'C30_size_le', 'C30_size_le_any_limits', 'C30_size_le_encoded_partial',
                 'C30_size_le_encoded_unguarded_refuted', 'C30_groups_atomic', 'C30_order_preserved',
                 'C30_blocked_skipped', 'C30_blocked_member_never_taken',
                 'C30_expire_removes_whole_groups', 'C30_expire_complete_partial', 'C30_expire_subseq',
                 'C30_expire_fuel_enough', 'C30_expire_trailing_group_refuted',
                 'C30_expire_parsable_header_refuted', 'C30_expire_negative_groupcount_refuted'],
    'allowed_axioms': [],
    'shard': 150,
    'rule': 'AddTxsToBlock through a solo client (queue + config only) with configs whose mver.consensus.maxTxNumber table '
            '(base, ForkChainParamV1, ForkChainParamV2) holds tiny limits (-2..20) and whose fork heights are small; heights -1, 0, 1 and '
            'fork height -1/+0/+1 for both MaxTxNumber forks and ForkAccountBlacklist. Streams: add-count (0..10 pool entries: plain '
            'transactions, groups of 2-4, 12 malformed group-head variants, blocked To/From members, optional 0..8 initial transactions '
            'incl. over the limit); add-size (real sizes: a ~19.9 MB initial transaction or first pool entry leaves 0..2500 bytes of room, '
            'one unit tuned so that the running size hits bound-2..bound+2, initial block over the bound); add-size-biggroup (groups of '
            'multi-megabyte members at bound-2..bound+2); rep (20000-40000 copies of one transaction, MaxTxNumber 20000/34000/40000); '
            'CheckTxExpire: 0..7 well-formed segments (plain / groups of 1-4 with undecodable 32-byte headers) with Expire drawn from '
            'boundary values of all three expiry modes (height, block time, TxHeight window with Low/High = 200/600 and 2/3), heights '
            '0,1,999..1001,5000,-1, block time 0,1,1.6e9; plus trailing truncated group, negative GroupCount, header that parses as protobuf. '
            'non-trivial = at least one transaction appended (add) / at least one removed without panic (expire); distinct = distinct case terms',
    'trusted_base': ['transactions are abstract: Size() (real types.Size), GroupCount, Expire, Next!=nil, what Header decodes to (harness calls '
                     'types.Decode to classify it) and "blocked" (by construction: To or signer address in the injected blacklist) are inputs of the model',
                     'the Gallina model coq/theories/C30/Model.v is tied to base.go / tx.go / config_mver.go by the differential check only',
                     'max_tx_at models versionList.GetForkName + mversion.Get by their effect (entry with the greatest fork height <= h, later fork name wins ties)',
                     'enc_size models protobuf framing of repeated field txs=7 (1 tag byte + length varint); compared with the real types.Size(block) on every add case',
                     'Coq kernel + vm_compute (refutation witnesses, Examples, case evaluation)'],
    'assumptions': ['main chain config (cfg.IsPara() = false) in all generated cases; the para branch of GetTxHeight is modelled but not exercised',
                    'int/int64 overflow of the running size/count is not modelled (sizes are bounded by memory)',
                    'C30_count_le / C30_size_le assume the initial block is within the limit (otherwise nothing is added: '
                    'C30_count_over_limit_adds_nothing, C30_size_le_any_limits); C30_size_le_encoded_partial assumes 5*MaxTxNumber <= 100000 '
                    '(refuted without it, finding 3)',
                    'C30_expire_* assume the input is a concatenation of plain transactions and complete groups whose head GroupCount is the group length; '
                    'C30_expire_complete_partial additionally that member headers do not parse as protobuf (findings 1, 2, 4 otherwise)',
                    'solo.CreateBlock afterwards applies types.TransactionSort (from ForkRootHash on), which is outside this property'],
    'manifest': {'level_text': 'AddTxsToBlock: full (count, size sum, atomic groups, order, blacklist) for every pool and every limits; encoded size <= MaxBlockSize '
                               'partial (guard 5*MaxTxNumber <= 100000). CheckTxExpire: full for well-formed expanded lists, three refuted unguarded statements',
                 'level_note': 'Model of AddTxsToBlock/CheckTxExpire/isExpire/GetTxGroup/IsExpire/MaxTxNumber lookup over abstract transactions; '
                               'correspondence on ~1700 generated cases per run against the real BaseClient with real sizes up to 20 MB',
                 'technique': 'Coq proof (induction over the pool / the segment list) + in-kernel correspondence check'},
    'harness_timeout': {'quick': 300, 'thorough': 3000},
}
