SPEC = {
    'id': 'C16',
    'harness': 'hC16',
    'coq_dir': 'C16',
    'claimed': True,
    'theorems': ['C16_decode_encode', 'C16_encode_injective', 'C16_hash_ignores_sig_and_header', 'C16_hash_binds',
                 'C16_fullhash_binds', 'C16_clone_preserves_hash_fullhash', 'C16_sign_then_verify',
                 'C16_altered_fails_partial', 'C16_altered_fails_refuted', 'C16_disabled_fails', 'C16_unsigned_fails'],
    'allowed_axioms': [],
    'shard': 200,
    'rule': 'schema of Transaction/Signature by reflection (1 case); encodings of generated transactions (every field '
            'empty/default, short, 127/128-byte, 16 KiB payload; int edges incl. negative and min/max; nil, empty and '
            'filled Signature); hash pairs: each exported field of a base transaction altered in turn (by reflection: '
            'flip/clear/truncate/append, inc/zero/negate) plus signature-only, signature+header and unrelated pairs; '
            'per signature driver (secp256k1, ed25519, sm2, secp256r1, secp256k1eth) x 3 registry configurations '
            '(default; per-driver enable heights; EnableTypes subset with "none" enabled): sign with a random key, '
            'CheckSign unchanged at heights -1, 0, 1, H-1, H, H+1, 2^40, then at an enabled height after every '
            'single-field alteration, public-key alterations (flip, parity, truncate, append, pad to 65, '
            '(un)compressed, hybrid), signature alterations (flip, truncate, append, zero, ECDSA (r,n-s), r+n, s+n, '
            'n-r, DER padding / long-form length, CertSignature wrappers, ed25519 S+L, S+2L, R sign bit, eth v/s variants), '
            'type alterations (every other driver, address-id bits, bits 15/30/31, 0, unknown) and removal of the signature. '
            'non-trivial = encoding non-empty / pair / verify case where something was altered or verification succeeded; '
            'distinct = distinct Gallina case terms',
    'trusted_base': [
        'SHA-256 is a Section function assumed injective in C16_hash_binds / C16_fullhash_binds (no collisions among encodings)',
        'signature drivers are not verified: theorems are about an ideal signature functionality (verify accepts exactly '
        'the issued (key, message, signature) triples up to the scheme-specific malleability relation mall); the '
        'correspondence check takes the real driver verdict (Validate called directly by the harness on the bytes the model '
        'says are signed) as an oracle and compares CheckSign against gate(model) && that verdict',
        'golang/protobuf deterministic Marshal is the oracle for the wire encoding on the implementation side; crypto/sha256 '
        '(Go stdlib) recomputes Hash/FullHash from the encoded bytes',
    ],
    'assumptions': [
        'no executor-specific crypto driver override (ExecutorType.GetCryptoDriver returns ErrNotSupport, the ExecTypeBase default)',
        'Transaction.To is valid UTF-8 (proto.Marshal rejects other strings and types.Encode panics)',
        'transactions carry no unknown protobuf fields (CloneTx drops them; Sign would sign them)',
        'negative block heights bypass the enable check (crypto.WithLoadOptionEnableCheck) - modelled, outside the spec oracle',
        'Signature.Ty bits outside CryptoIDMask 0x3fff8fff (address id bits 12-14, bits 30-31) do not select the driver: a changed '
        'ty that still names an enabled driver is modelled but not judged by the spec oracle (ty is not in the property text)',
    ],
    'manifest': {
        'level_text': 'partial: encoding injectivity, hash/fullhash/clone clauses proved unbounded for the model (SHA-256 assumed '
                      'injective); signature clauses proved for an ideal signature functionality, alteration of the signature bytes '
                      'only up to the scheme malleability relation (full-strength statement refuted; six malleability findings recorded)',
        'level_note': 'trusted: SHA-256 injectivity, ideal signature functionality in place of the drivers (their verdict is an oracle '
                      'in the correspondence check), golang/protobuf as encoding oracle',
        'technique': 'Coq proof (decoder round trip => injectivity; ideal-functionality argument) + in-kernel byte-exact correspondence check',
    },
    'harness_timeout': {'quick': 300, 'thorough': 3000},
}
