SPEC = {
    'id': 'C16',
    'harness': 'hC16',
    'coq_dir': 'C16',
    'claimed': True,
    'theorems': ['C16_decode_encode', 'C16_encode_injective', 'C16_hash_ignores_sig_and_header', 'C16_hash_binds',
                 'C16_fullhash_binds', 'C16_clone_preserves_hash_fullhash', 'C16_sign_then_verify',
                 'C16_altered_fails_partial', 'C16_altered_fails_refuted', 'C16_disabled_fails', 'C16_unsigned_fails',
                 # extension: unknown protobuf fields
                 'C16_hash_ignores_unknown_fields', 'C16_checksign_ignores_unknown_fields', 'C16_clone_drops_unknown_fields',
                 'C16_clone_same_encoding_iff', 'C16_hash_binds_message_refuted', 'C16_hash_binds_message_partial',
                 'C16_sign_then_verify_message_refuted', 'C16_sign_then_verify_message_partial',
                 'C16_sign_then_verify_message_exact',
                 # extension: Signature.ty / sender
                 'C16_ty_only_selects_driver', 'C16_sender_bound_refuted', 'C16_sender_bound_partial',
                 # From() and the sender gate of Transaction.CheckSign (finding 11 repaired, /repo 909acb0)
                 'C16_from_total', 'C16_checksign_is_gate_and_driver', 'C16_unusable_addr_id_rejected',
                 'C16_accepted_has_sender', 'C16_sign_then_verify_tx', 'C16_altered_fails_tx_partial',
                 'C16_disabled_or_unsigned_fails_tx', 'C16_ty_selects_driver_and_sender',
                 'C16_checksign_tx_ignores_unknown_fields',
                 # extension: secp256k1eth note mode
                 'C16_eth_same_action_same_verdict', 'C16_eth_unbound_outer_fields', 'C16_eth_accepted_binds',
                 'C16_eth_altered_fails_refuted', 'C16_eth_unbound_outer_fields_ok',
                 # extension: general decoder against the encoder
                 'C16_wire_decode_encode', 'C16_signed_bytes_decode', 'C16_wire_decode_encode_unknown',
                 'C16_wire_decode_injective_refuted', 'C16_wire_decode_injective_partial'],
    'allowed_axioms': [],
    'shard': 200,
    'rule': 'schema of Transaction/Signature by reflection (1 case); encodings of generated transactions (every field '
            'empty/default, short, 127/128-byte, 16 KiB payload; int edges incl. negative and min/max; nil, empty and '
            'filled Signature); hash pairs: each exported field of a base transaction altered in turn (by reflection: '
            'flip/clear/truncate/append, inc/zero/negate) plus signature-only, signature+header and unrelated pairs; '
            'per signature driver (secp256k1, ed25519, sm2, secp256r1, secp256k1eth) x 3 registry configurations '
            '(default; per-driver enable heights; EnableTypes subset with "none" enabled): sign with a random key, '
            'CheckSign unchanged at heights -1, 0, 1, H-1, H, H+1, 2^40, then at an enabled height after every '
            'single-field alteration, public-key alterations (flip, parity, truncate, append, pad to 65, '
            '(un)compressed, hybrid), signature alterations (flip, truncate, append, zero, ECDSA (r,n-s), r+n, s+n, '
            'n-r, DER padding / long-form length, CertSignature wrappers, ed25519 S+L, S+2L, R sign bit, eth v/s variants), '
            'type alterations (every other driver, address-id bits, bits 15/30/31, 0, unknown) and removal of the signature. '
            'Extension streams (default registry and the per-driver-height configuration): wire-* = the canonical encoding of '
            'a signed transaction (6 driver slots in turn) with unknown fields appended / prepended / inserted at a field '
            'boundary (varint incl. over-long value and key encodings, length-delimited, fixed32/64, empty and nested groups, '
            'numbers 12..2^29-1), declared numbers with another wire type, declared fields repeated (same / other / explicit '
            'default value, int32 truncation, a second Signature occurrence with ty only / an unknown field / empty body), '
            'fields shuffled, malformed input (stray end group, number 0 / 2^29, varint overflow, length beyond the end, '
            'reserved wire types, invalid UTF-8 in to, mismatched group end, truncation) - decoded by types.Decode, observed: '
            'declared fields, unknown bytes of Transaction and Signature, Encode, Encode(Clone), Encode(CloneTx), Hash / FullHash '
            'against the stripped message, CheckSign; resign = such a message signed again through a key wrapper that records '
            'the bytes Sign hands to the key, then CheckSign; from-* = per driver, honest types with address id 0..7, then ty '
            'with every other address id, bits 30 / 31 / 15 / 16, another driver, negative height: CheckSign and From() '
            '(string or panic); fromany-* = presented transactions without an honest signer behind them: per driver the crypto id, '
            'the id with bit 30, an unknown id and "none", each with address id 0..7 and the signer\'s key / no key / one byte / '
            '65 random bytes, plus a transaction without Signature: From() first (as mempool.checkTx asks), then CheckSign; action* = secp256k1eth/types.DecodeTxAction on encoded transactions (execers with / without '
            '"evm", EVM actions with every note spelling, coins actions with merged / replaced oneof members, invalid UTF-8, '
            'unknown / repeated / malformed fields); eth-* = Ethereum transactions (legacy transfer / call / create, dynamic-fee, '
            'access-list) signed with a fresh key and wrapped as rpc/ethrpc AssembleChain33Tx does, CheckSign unchanged at 4 '
            'heights, after every outer field alteration, after payload alterations (gasLimit, gasPrice, alias, amount, para, '
            'contractAddr, code, note empty / 0x / 0X / upper / tail / odd / bit flip / other inner (v,r,s), unknown and repeated '
            'payload fields, garbage), signature flip / key truncation / removal, and transactions signed by Transaction.Sign '
            'with a secp256k1eth key (coins transfer and EVM action, with and without note). '
            'non-trivial = encoding non-empty / pair / verify case where something was altered or verification succeeded; '
            'distinct = distinct Gallina case terms',
    'trusted_base': [
        'SHA-256 is a Section function assumed injective in C16_hash_binds / C16_fullhash_binds (no collisions among encodings)',
        'signature drivers are not verified: theorems are about an ideal signature functionality (verify accepts exactly '
        'the issued (key, message, signature) triples up to the scheme-specific malleability relation mall); the '
        'correspondence check takes the real driver verdict (Validate called directly by the harness on the bytes the model '
        'says are signed) as an oracle and compares CheckSign against gate(model) && that verdict',
        'golang/protobuf deterministic Marshal is the oracle for the wire encoding on the implementation side; crypto/sha256 '
        '(Go stdlib) recomputes Hash/FullHash from the encoded bytes',
        'extension: google.golang.org/protobuf Unmarshal is modelled (ProtoUnknown.v / ModelUnknown.v: tag and value consumption, '
        'unknown-field retention, last-wins, message merge, UTF-8 validation) and compared case by case; its recursion limit of '
        '10000 nested groups is not modelled',
        'extension (secp256k1eth): go-ethereum (UnmarshalBinary, LondonSigner.Hash, Keccak-256, Ecrecover, VerifySignature) and '
        'address.ExecAddress are oracles: the harness hands the parsed Ethereum transaction (chain id, nonce, value, data, to), '
        'ExecAddress(execer) and the two inner verdicts (over Keccak(msg) / over the signing hash) to the model, which decides '
        'which one VerifyBytes uses and which cross-checks apply; DecodeTxAction itself is modelled and compared directly',
        'extension (From): which address ids have a driver that derives an address from a public key is probed by the harness '
        '(address.PubKeyToAddr under recover) and given to the model; that the eth driver (id 2) panics on an empty key is '
        'written into the check (SpecExt.adrv_of); address strings are compared for equality / emptiness only. In the '
        'theorems the address drivers are an arbitrary function adrv : id -> key -> {no driver, panic, address}; that the '
        'deferred recover in Transaction.fromAddr confines every driver panic is Go semantics, checked case by case',
    ],
    'assumptions': [
        'no executor-specific crypto driver override (ExecutorType.GetCryptoDriver returns ErrNotSupport, the ExecTypeBase default)',
        'Transaction.To is valid UTF-8 (proto.Marshal rejects other strings and types.Encode panics)',
        'C16_eth_same_action_same_verdict / _unbound_outer_fields / _accepted_binds carry the boolean guard decodes_plainb (the signed '
        'bytes decode back to the declared fields); C16_signed_bytes_decode discharges it for every transaction Go can hold '
        '(wire_okb: int ranges, valid UTF-8 in to, lengths below 2^64) and C16_eth_unbound_outer_fields_ok is the guard-free form',
        'C16_wire_decode_encode_unknown covers unknown fields in canonical varint / length-delimited / fixed32 / fixed64 form at '
        'message level; groups, over-long varints and unknown fields inside the Signature are covered by the correspondence check only',
        'negative block heights bypass the enable check (crypto.WithLoadOptionEnableCheck) - modelled, outside the spec oracle',
        'Signature.Ty bits outside CryptoIDMask 0x3fff8fff (address id bits 12-14, bits 30-31) do not select the driver: in the '
        'original CVerify stream a changed ty that still names an enabled driver is not judged; the CFrom stream judges it (a '
        'changed ty naming the same driver must fail: finding 10; From() never panics and an accepted transaction has a sender '
        'derived by a driver: finding 11, repaired in /repo 909acb0 - a panic or a sender-less acceptance is a violation again)',
        'C16_sign_then_verify_tx carries the guard usable adrv ty pub = true: a signature type whose address format has no '
        'driver is not a type to sign with (C16_unusable_addr_id_rejected: it is refused for the honest signer as well); '
        'the theorems stated on check_sign (the part of CheckSign after the sender gate: signature present, types.CheckSign) '
        'carry over through C16_checksign_is_gate_and_driver',
    ],
    'manifest': {
        'level_text': 'partial: encoding injectivity, hash/fullhash/clone clauses proved unbounded for the model (SHA-256 assumed '
                      'injective); signature clauses proved for an ideal signature functionality, alteration of the signature bytes '
                      'only up to the scheme malleability relation (full-strength statement refuted; six malleability findings recorded); '
                      'From() total and CheckSign refusing types without a derivable sender proved at full strength (finding 11 repaired)',
        'level_note': 'trusted: SHA-256 injectivity, ideal signature functionality in place of the drivers (their verdict is an oracle '
                      'in the correspondence check), golang/protobuf as encoding oracle',
        'technique': 'Coq proof (decoder round trip => injectivity; ideal-functionality argument) + in-kernel byte-exact correspondence check',
    },
    'harness_timeout': {'quick': 300, 'thorough': 3000},
}
