SPEC = {
    'id': 'C29',
    'harness': 'hC29',
    'coq_dir': 'C29',
    'claimed': True,
    'theorems': ['C29_crash_consistent_partial', 'C29_resume_same_final_partial',
                 'C29_history_crash_consistent_partial', 'C29_history_resume_partial',
                 'C29_redeliver_same_final_partial', 'C29_example_history', 'C29_split_batch_unsafe',
                 'C29_connect_is_one_unit', 'C29_disconnect_is_one_unit', 'C29_log_one_unit_per_op'],
    'allowed_axioms': [],
    'shard': 12,
    'rule': 'a factory test node builds executed block trees rooted at the genesis block (one coins transfer to a '
            'fresh address per block, so every block has its own state root; a BIG block has 1500 / 2800 `none` '
            'transactions beside it). A history = tree + delivery order. '
            'Per history one child process delivers the whole order to a node whose blockchain and store databases '
            'are the fault-injecting goleveldb wrapper "crashleveldb" (registered from the harness through '
            'RegisterDBCreatorVerif; it serialises and counts Set/SetSync/Delete/DeleteSync/Batch.Write/Tx.Commit '
            'over both databases, records every completed write and os.Exit(77)s before - or after - the N-th), '
            'never crashes and stops without closing anything. Then per crash point a child on a fresh data '
            'directory is terminated at that write, and another child starts a node on the same directory, reads '
            'height, last header, view tip, hash/header/block at every height up to height+3, GetTx of EVERY transaction '
            '(folded per block: one height, none, or "they disagree") / stored td / '
            'LoadBlockByHash / sequence-by-hash of every block of the tree, the state keys touched by any block at '
            'the tip\'s state hash (compared with the factory\'s values), and the sequence log; then it delivers the '
            'whole order again and reads everything once more. Histories: (1) genesis + 2 blocks (thorough 4): every '
            'boundary from the very first write of an empty database; (2) trunk of 13, branch of 3 from height 11 '
            'that overtakes it: the last 14 boundaries (last trunk block, branch stores, 2 disconnects, 3 connects; '
            'thorough: all); (3) random trees satisfying the C25 guard (trunk 12-15, 2-3 branches, one overtaking, '
            'varied difficulty bits) delivered nearly in order with local swaps (orphans) and re-deliveries: last 12 '
            'boundaries (thorough: 38 such histories, every boundary of every fourth). Every 5th-7th boundary '
            'also in "after" mode; (4) BIG blocks, whose connect / disconnect batch is larger than the 1 MiB at '
            'which neighbouring code (reduce.go, prune.go) flushes its batches - the harness computes the batch size '
            'from the trace and fails when it is below 1.1 MiB: (4a) block 1 small, block 2 with 1501 transactions '
            '(connect batch 12 000 KVs, 1.7 MB), block 3 small: every boundary from the big block\'s store to the '
            'end, the writes of the big block also in "after" mode; (4b) trunk of 13 whose tip has 2801 '
            'transactions (disconnect batch 1.15 MB of keys), detached by a branch of 3 from height 11: the '
            'boundaries of the disconnect writes up to the first state commit of the branch, before and after. The '
            'crash points of (4) are taken from the writes the node really made, so a connect or disconnect that '
            'takes several writes gets a crash point between any two of them. '
            'Plus the end point of every history (history complete, process stops). One case = one crash '
            'point. kinds = history/mode-next write. non-trivial = at least one write of the history is lost; '
            'distinct = distinct Gallina case terms',
    'trusted_base': [
        'atomicity and durability of one LevelDB write (batch or point write) against a process stop: the model\'s '
        'crash states are the prefixes of the log of write units; torn or reordered writes and loss of unsynced '
        'writes on power failure are outside the model (the injected fault is process termination)',
        'the harness classifies the keys of every write into the model\'s facts (blockLastHeight, Height:, TD:, '
        'TX:, Seq:, HashToSeq:, LastSequence, the header/body/receipt table rows, flags, state tree nodes), one '
        'unit per write the database wrapper saw; the TX: records of one write become the model\'s single FTx of '
        'a block only when the write holds the record of EVERY transaction of the block with one height (or '
        'deletes every one), a part of them is FOther; keys of '
        'the per-address transaction lists and counters, fee totals, short-hash markers, executor local records and '
        'the para-chain title table are not part of the property\'s records and are dropped; anything else '
        'becomes FOther, which equals nothing',
        'block hashes and state roots are abstract identifiers; block execution is an oracle (every block of the '
        'tree executes); which store/connect/disconnect operations a delivery causes comes from the C25 '
        'fork-choice model, instrumented to emit them in code order',
        'two guards of the model\'s connect step restate tests the code made earlier on the same block: the height '
        'test of maybeAcceptBlock (height = parent node\'s height + 1, the parent node being the tip) and "the '
        'block\'s rows are stored" (dbMaybeStoreBlock succeeded before connectBestChain / LoadBlockByHash found '
        'the block in reorganizeChain; NoneRollback is off); with them the theorems need no validity hypothesis on '
        'the operation sequence',
        'start-up is modelled for chains shorter than the 128-block cache and 10240-block index windows (every '
        'height from 0 is read)',
    ],
    'assumptions': [
        'among the genesis block and the delivered blocks a hash identifies a block (hypothesis hash_identifies of the '
        'history theorems; check_case evaluates it on every generated tree)',
        'default test configuration: mavl store without prefix/prune/MVCC, sequence recording on, not a para '
        'chain, no finalizer, consensus may roll back, quick tx index on, single writer (ProcessBlock from one '
        'goroutine)',
        'C29_redeliver_same_final_partial models the restarted node\'s index as the recovered chain only and its '
        'deliveries by the C25 model (blockExists\' database lookups and the skip of dbMaybeStoreBlock for stored '
        'headers are not in that model); the Go side is checked on the final records after re-delivery',
        'redelivery after restart uses the same order; generated histories satisfy the C25 guard (unique heaviest '
        'block at height >= 12) or are linear, so the final chain does not depend on the order',
    ],
    'manifest': {
        'level_text': 'partial: unbounded Coq theorems over all operation sequences / all delivery histories and all crash indices '
                      '(recovered chain = chain after a prefix of the operations; height, last block, height->hash, '
                      'block rows, tx index, total difficulties and the states of the chain agree; start-up succeeds; '
                      'resuming ends in the uninterrupted run\'s chain), assuming each LevelDB write is atomic and '
                      'durable; the Go node is killed at every write boundary of generated growth and '
                      'reorganisation histories (including blocks whose batches exceed 1 MiB) and restarted: its writes equal the model\'s log prefix unit by unit and its '
                      'recovered and resumed records equal the model\'s and satisfy the spec oracle',
        'level_note': 'LevelDB write atomicity/durability assumed; fault = process termination between writes; '
                      'execution is an oracle; re-delivery after restart is proved at the level of the C25 fork-choice '
                      'model; wallet/mempool/p2p stores are not covered',
        'technique': 'Coq proof (invariant over operation histories + prefix decomposition of the write log) + '
                     'process-level fault injection at every durable write with in-kernel correspondence check',
    },
    'harness_timeout': {'quick': 2400, 'thorough': 14400},
    'coqc_timeout': 1500,
}
