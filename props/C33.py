SPEC = {
    'id': 'C33',
    'harness': 'hC33',
    'coq_dir': 'C33',
    'claimed': True,
    'theorems': ['C33_recovered_paths_total', 'C33_recovered_guard_example',
                 'C33_no_panic_outside_recover', 'C33_no_panic_example', 'C33_validator_optional_example',
                 'C33_crash_characterisation', 'C33_loop_never_panics',
                 'C33_light_block_never_panics', 'C33_light_block_example',
                 'C33_download_reply_never_panics', 'C33_download_reply_go_level', 'C33_download_accepts_only_requested',
                 'C33_download_job_survives', 'C33_download_loop_total', 'C33_download_job_delivers_sent',
                 'C33_download_job_example', 'C33_serve_handlers_total', 'C33_serve_request',
                 'C33_serve_request_example', 'C33_chain_get_blocks_total', 'C33_chain_get_blocks_example',
                 'C33_peer_handlers_total',
                 'C33_peer_handlers_example',
                 'C33_header_request_total', 'C33_block_sequences_total', 'C33_p2pstore_handlers_total',
                 'C33_p2pstore_example'],
    'allowed_axioms': [],
    'shard': 60,
    'check_preamble': 'From C33 Require Import C33.Model C33.Streams C33.Store.\nOpen Scope Z_scope.\n',
    'rule': 'histories of 2-14 events (3-30 thorough) fed to the real light-broadcast component: light blocks '
            '(TxCount 1-6 with 0-8 short hashes from an alphabet of 8 keys, heights 0-5, 6 header hashes so that the '
            'duplicate filter is hit; malformed variants: nil header, TxCount in {-2^63,-1,0,2^45+1,2^62}, more/fewer/no '
            'hashes than TxCount, nil miner transaction, empty hash), mempool content changes (stub mempool answering '
            'EventTxListByHash from a table of 25 transactions: plain, 2- and 3-member groups built by '
            'types.CreateTxGroup, carriers with GroupCount 2/1/21/3/-1/20 whose Header decodes to 3/2/2/garbage/2/20 '
            'transactions or is empty), iterations of the pending loop with a virtual clock (types.SetTimeDelta; '
            'timeouts 1-5 s; the clock also steps back), node height changes, block request / response / unknown peer '
            'messages (decodable or not, nil ProtoMsg, heights -1..6, locally unavailable heights), iterations of '
            'the block-request loop. Streams: "guarded" (pools stripped of expanding entries whenever some group would not '
            'fit behind its short hash in some light block of the history, validation enabled: more blocks complete), '
            '"unrestricted" and "malformed" (every light block malformed; validation disabled in 1 of 8 cases). There is no '
            'open finding: every spec failure in every stream is a violation. In these streams the loops are driven one iteration '
            'at a time through the hook and a panic of the loop body is caught by the harness. "live": 21 hand-written '
            '+ 6 (40 thorough) generated histories, each in a CHILD process (RLIMIT_AS 16 GiB) with the real '
            'pendBlockLoop/blockRequestLoop goroutines and real time; the observable is the exit status and what was '
            'posted/published before; includes the witnesses of the three repaired findings (group that does not fit arrives '
            'for a pending block; TxCount 2^40 and 2^45; nil validator), which the node must now survive, and the three height '
            'comparisons of the loop body. After every event: survived?, blocks handed to the blockchain module (publisher, height, header '
            'fields, MainHash/MainHeight, transaction ids per slot), peer messages published (kind, peer, height), '
            'lengths of the pending and block-request lists. non-trivial = something was posted, published, pending '
            'or crashed; distinct = distinct Gallina case terms. '
            'STREAM paths (all in child processes of the harness, real in-process libp2p hosts: one node host running '
            'download.InitProtocol and peer.InitProtocol with a stub blockchain/mempool, six scripted serving hosts; a child '
            'that dies marks the case in progress as not survived and the rest of the batch goes to a fresh child): '
            '"net-dl" 10 fixed + 110 (2500 thorough) download jobs of 1-3 heights (also start>end, no pid) from 1-4 peers in '
            'latency order, every (peer, height) scripted with two replies (phase one, re-download in checkTask): no stream, '
            'reset, short / wrong 17-byte header, undecodable, oversized, truncated frame, no Message, EMPTY item list, first '
            'item without value / with a transaction, wrong height, several items, a Block or a request as the frame; '
            'observables: acknowledgement, survival, blocks handed to the blockchain module, requests seen per peer and '
            'height. "net-srv" / "net-srv-nonneg" 60+30 (1200+600) histories of 2-6 requests to the node\'s two download '
            'stream handlers (old: nil Message, both: wrong header, garbage, ranges from a table of int64 edge values, around '
            '256, tip 0-6, stub answering blocks / empty list / error); nonneg = starts mapped to non-negative values (more '
            'requests get past the first test); every spec failure (a forwarded range that is not '
            '0 <= End-Start <= 256) is a violation; observables: range forwarded to the '
            'blockchain module, what the requester read (blocks / end of stream / reset). "net-srvlive": the same handlers in '
            'front of a REAL test-node blockchain, 17 requests: the ranges whose int64 difference wraps (witness of repaired '
            'finding 4) through both handlers, then the same ranges straight to the blockchain module through the queue as the '
            'rpc module sends them; observable = request at which the child dies (none). "net-ver" 50 (1000) histories of 3-6 requests to handleStreamVersion / handleStreamVersionOld (26 '
            'address strings: public, private, loopback, IPv6, non-numeric / overflowing / signed ports, too few parts, '
            'not a multiaddr; other channel; nil Message; wrong header): reply AddrFrom, end of stream / reset, address-book '
            'and blacklist effects. "net-lim": the node\'s own peer-info queries (1 s ticker of the real peer protocol, 6 '
            'peers in the routing table, 5 (12) rounds, VerLimit 6.8.9 (thorough also "", 7, 6.8.9.1, x.8)) answered with 34 '
            'version strings / wrong header / garbage / reset: refreshed, blacklisted or nothing. '
            '"net-store": 4 fixed + 24 (500 thorough) histories of 3-7 requests in child processes against the real p2pstore '
            'protocol (p2pstore.InitProtocol on the node host) in front of a REAL test node: blockchain module at height 3 with '
            'recorded sequences and chunk records 0..2 written into its database, a leveldb chunk store with 12 bodies, a routing '
            'table of the six serving hosts. Requests: old header protocol (nil Message, wrong header, garbage), signed P2PRequest '
            'to the header / chunk-record / fetch-chunk handlers (no Headers, wrong or missing signature, other or no oneof '
            'member, wrong header), unsigned to the shard-peer handler (Count from 20 int32 edge values, with / without key), '
            'full-node (reads nothing), and EventGetHeaders / EventGetBlockSequences straight to the blockchain module as the rpc '
            'module sends them; ranges from 30 int64 edge values, around 1000 / 10000, small ones. Observables per request: what '
            'the requester reads (reset, end of stream, error reply, header heights, number of records / bodies / peers / nil and '
            'set sequence entries), whether a writer on the routing table is blocked afterwards (probe after shard-peer and '
            'fetch-chunk requests), the request at which the child dies. The fixed histories contain the witnesses of the '
            'repaired findings 5-7, which must be survived; spec oracle on the implementation: survived, table never blocked, '
            'at most 10000 headers / 1000 sequence entries per reply',
    'trusted_base': [
        'Go run-time semantics written into the model: make panics for n < 0 or n > 2^45 (8-byte elements, linux/amd64) and '
        'aborts the process (no recover) when the OS cannot provide the memory; s[i] panics for i >= len; field access '
        'through nil panics; protobuf getters are nil-safe. The memory available to one make is the parameter c_cap '
        '(2^31 elements in the check: the child runs under RLIMIT_AS 16 GiB; the generators avoid counts between 2^12 and 2^40)',
        'the mempool answers EventTxListByHash with one entry per requested hash (system/mempool getTxListByHash does; a '
        'shorter reply would panic at txList.GetTxs()[i] - not peer-controlled, not modelled); the local blockchain '
        'answers GetBlocks with an error or at least one item',
        'transactions, header hashes, short hashes and peers are identities; the harness maps real objects to ids by their '
        'encoding and gives the model, for every pool-level transaction, its GroupCount and what its Header decodes to',
        'hook file /repo/system/p2p/dht/protocol/broadcast/lt_verif.go (build tag verif): constructor mirroring '
        'broadcastProtocol.init without libp2p subscriptions and worker goroutines; wrappers for handleBroadcastReceive, '
        'handleBroadcastSend, buildLtBlock, handleAddBlock, list lengths; TickPendVerif/TickReqVerif repeat the statements '
        'of the two ticker cases (the live stream runs the real loops)',
        'stream paths (Streams.v): protobuf decoding and msgio framing are outside the model - the harness decodes every frame '
        'it sends with types.Decode and gives the model the structure (a decoded repeated field has no nil element, a decoded '
        'oneof member no nil message: C33_download_reply_go_level shows this is what the decoder relies on); ReadStream with a '
        'wrong 17-byte header returns a nil error and a zero message (modelled, observed); utils.IsPublicIP and '
        'multiaddr.NewMultiaddr are oracles evaluated by the harness on every string of a case; Peerstore.AddAddr tolerates a '
        'nil multiaddr (libp2p memory address book); strconv.Atoi and strings.Split are transcribed; the task list of a '
        'download job has distinct decodable peers in latency order and at most 20 heights (per-peer task limit never reached, '
        'scheduling is C35); the local blockchain module answers EventGetBlocks with an error or non-nil items; '
        'ProcGetBlockDetailsMsg is transcribed for a chain whose blocks 0..tip exist',
        'p2pstore handlers (Store.v): protobuf decoding as above (the harness decodes every P2PRequest it sends and gives the '
        'model Headers present?, signature valid?, oneof member); signature verification is an oracle (valid = signed by the '
        'harness with the requester\'s key over the message without the signature); ProcGetHeadersMsg, GetBlockSequences and '
        'GetChunkRecord are transcribed for a chain whose blocks / sequences 0..tip / 0..last and chunk records 0..nrec-1 exist '
        '(GetChunkRecord as the closed form of its loop, which ends at the first missing record); loadChunk over the local store as '
        'a list of heights with the key order of fmt "%012d" transcribed (fmt12, bytes order); kbucket NearestPeers only as far as '
        'its count argument goes (make with count+bucketsize under the read lock, slice to count after it; peerDistance = 40 '
        'bytes), its result as min(count, table size); the closer-peer lists of the fetch-chunk reply, the concurrency counter '
        '(maxConcurrency) and the extended routing table (the harness keeps it empty so that env.RoutingTable is used) are not modelled; '
        'append of n pointers is fatal above the same capacity as make',
        'not modelled: libp2p itself, the tx/block pubsub topics (validated inside pubsub), the asynchronous p2pstore handlers '
        '(request/response peer-info-for-chunk, request/response peer-addr, fetch-peer-addr, fetch-active-peer) and the client '
        'side of p2pstore (replies to the node\'s own chunk / header / record queries), the other protocol packages, the client '
        'side of the version query (same parse functions), event handlers fed by the local RPC other than the two ranges above: '
        'status partial. Observed, not modelled: handleStreamFetchChunk loads every body of the requested key range into memory '
        'before it compares the count (a request Start=0, End=10^12-1 reads the whole local chunk store): bounded by the store, '
        'not by the request',
    ],
    'assumptions': [
        'C33_recovered_paths_total / C33_no_panic_outside_recover: guard mem_ok = the operating system can provide a slice with '
        'one element per short hash of a light block the node has received and decoded (length (lt_sh lb) <= c_cap; addLtBlock '
        'allocates 8+8+16 bytes per counted transaction only after 0 < TxCount <= len(STxHashes) was tested, and the decoded '
        'hash list already occupies 16 bytes per hash plus the strings). An environment assumption about memory, not about a '
        'number in the message; C33_crash_characterisation shows it is the only way left to end the process in the model',
        'the block filter (LRU of 1024 hashes) never evicts within a history',
        'C33_serve_request / C33_chain_get_blocks_total: request fields and the chain height are int64 values (their Go type); '
        'memory for 257 resp. 1000 pointers',
        'C33_header_request_total / C33_block_sequences_total / C33_p2pstore_handlers_total: request fields, chain height and last '
        'sequence are int64 values, ReqPeers.Count an int32 (their Go types); memory for 10000 pointers and for one 40-byte '
        'record per peer of the routing table plus 20 (env_ok)',
    ],
    'manifest': {
        'level_text': 'partial: proved for the modelled index/allocation/nil logic of the light-block and peer-message paths '
                      '(after repairs in chain33 no history of peer messages, pool changes and loop iterations ends the '
                      'process or panics in a background loop, given memory for a slice as long as a received hash list), of the '
                      'download reply decoder / retry loop / job (no reply panics the per-height goroutines, only a first-item '
                      'block of the requested height is accepted), of the two serving-side download handlers (total; after a fourth '
                      'repair - the int64 range test wrapped for a huge negative start and the request reached a fatal allocation '
                      'in the blockchain module - every int64 request is survived and every forwarded range has a non-negative '
                      'start and at most 257 heights; ProcGetBlockDetailsMsg itself answers every int64 range with an error or at most '
                      '1000 blocks), of the version / version-limit handlers (total) and of the p2pstore header (old and signed), chunk-record, '
                      'fetch-chunk, shard-peer and full-node stream handlers with ProcGetHeadersMsg / GetBlockSequences / GetChunkRecord / '
                      'loadChunk / NearestPeers behind them (after three more repairs - the same wrapped count test in ProcGetHeadersMsg '
                      'let an unsigned header request size a slice with 2^40 pointers, in GetBlockSequences it let an rpc request append '
                      'until memory ran out, and the shard-peer handler passed a peer\'s Count to NearestPeers, where a negative one '
                      'panicked with the routing table\'s read lock held and a huge one asked for 86 GB - every typed request is survived, '
                      'leaves the table unlocked and gets a reply within the limit of its kind); everything else is outside the model',
        'level_note': 'model = hand-written Gallina transcription of addLtBlock/buildPendBlock/buildPendList/pendBlockLoop/'
                      'handlePeerMsg/addBlockRequest/handleBlockReqList with explicit Go panic semantics; mempool and chain '
                      'are stubs; hook file builds the component without libp2p; Streams.v = transcription of '
                      'downloadBlockFromPeerOld/downloadBlock/handleEventDownloadBlock/checkTask, handleStreamDownloadBlock(Old), '
                      'ProcGetBlockDetailsMsg, handleStreamVersion(Old)/setExternalAddr/parseIPAndPort/checkVersionLimit into '
                      'Done | Dropped | Panicked | Died with the recover status of each path; Store.v = transcription of the p2pstore stream '
                      'handlers handleStreamGetHeader(Old)/GetChunkRecord/FetchChunk/FetchShardPeers/IsFullNode with AuthenticateMessage, '
                      'ProcGetHeadersMsg, GetBlockSequences, GetChunkRecord, loadChunk and the count handling of NearestPeers',
        'technique': 'Coq proof (invariant of the pending list by induction over event histories) + in-kernel '
                     'correspondence check, crash-prone cases in child processes',
    },
    'harness_timeout': {'quick': 400, 'thorough': 3000},
}
