SPEC = {
    'id': 'C05',
    'harness': 'hC05',
    'coq_dir': 'C05',
    'claimed': True,
    'theorems': [
        'C05_refuted', 'C05_refuted_fork', 'C05_prune_keeps_live_partial', 'C05_prune_keeps_live_partial_inputs',
        'C05_guard_nonvacuous',
        'C05_prune_deletes_only_superseded', 'C05_commit_tree_is_C01_set', 'C05_prune_implies_prefix',
    ],
    'allowed_axioms': [],
    'shard': 32,
    'check_preamble': 'Open Scope N_scope.\n',
    'rule': 'one case = one history of commits / pruning runs / restarts run against the real mavl node database '
            '(mavl/db: SetKVPair, GetKVPair, PruningTree; EnableMavlPrefix + EnableMavlPrune as the store forces; '
            'PruneHeight 2-5) on a scratch LevelDB without the ARC node cache. A commit names its parent (an earlier '
            'commit of the history inside the retained interval, or the empty root), its height and its write set, and '
            'is applied through SetKVPair or through the MemSet+Commit path (empty write set = no store call). The '
            'background pruning run that Tree.Save starts at heights that are multiples of PruneHeight is awaited '
            '(hook VerifWaitPrune), PruningTree is also called directly at heights up to the top, restarts reset the '
            'package globals. After every commit / pruning run: every key of the universe (3-13 keys incl. the empty key, '
            'prefixes of each other, an absent key) is read at EVERY distinct state root produced so far (live or not), and '
            'the database records are counted by class (nodes, level-1/level-2 index entries, root records, total ancestor '
            'hashes, maxBlockHeight, secLvlPruningHeight). A history ends at the first unreadable live version or failing commit. '
            'Streams: 2 fixed witnesses; GUARDED (any spec failure is a violation unless it matches finding 3): linear small / '
            'linear with height gaps and empty heights / forks and re-commits with consecutive heights where every height '
            'saves and every state is new / linear with height jumps across the 500000 and 1500000 thresholds / large '
            '(12 keys, 30 commits); UNRESTRICTED: same-value rewrites, empty heights on forks, exact re-commits, empty values. '
            'STORE streams (case SCase): the same kind of history run through a store created by mavl.New(cfg, sub, nil) with '
            'sub = {enableMavlPrefix: false|true, enableMavlPrune: true, pruneHeight 2-10} - the model resolves the configuration '
            '(effective_cfg: prune forces prefix) - through Store.Set / Store.MemSet+Commit (empty write sets included) / Store.Get; '
            'background pruning runs awaited, synchronous runs = mavl/db PruningTree on the store database (the store has no call '
            'for it); restart = database closed and a new store created on it; the ARC node cache the store switches on is purged '
            'before every commit / pruning run / read round; Store.Close is never called (it sets the package-wide quit flag that '
            'makes later pruning runs no-ops) and the harness exits 3 when the canary history sees no node record deleted. '
            '3 fixed histories store-witness-returns (prune on, prefix off/on, pruneHeight 2/3/10: an account goes 100 -> 70 -> 100 '
            'while a counter changes every block); GUARDED store-returns(-small): linear, every writing commit produces a state '
            'not seen before (usually a counter key written by every block) while single keys take 2-3 values each - values return '
            'to earlier values (A -> B -> A) and are rewritten unchanged next to other changes; store-guarded-forks (as guarded-forks); '
            'UNRESTRICTED store-free-forks. '
            'non-trivial = at least 3 commits, a version with >= 2 keys and at least one pruning run; distinct = distinct case terms',
    'trusted_base': [
        'SHA-256 over the protobuf encoding of LeafNode/InnerNode is idealised as a free term algebra (C01\'s symbolic hash; '
        'injective); database keys = optional height prefix + hash, the prefix never enters a hash (InnerNode.Hash trims)',
        'LevelDB is an oracle (finite map with batch writes); the ARC node cache is switched OFF in the harness (raw '
        'dbm.NewDB without SetCacheSize): reads behave as after a process restart. With the cache a deleted node of height > 2 '
        'stays readable until restart, and a cached node object carries a stale parentNode pointer into later commits '
        '(an older root hash can be appended to an index entry) - noted, not modelled',
        'hook /repo/system/store/mavl/db/prune_verif.go: VerifResetPruneGlobals (maxBlockHeight, secLvlPruningH, quit, '
        'pruningState back to process-start values), VerifWaitPrune (wg.Wait without quit), VerifPruneConsts',
        'store streams: mavl.New / Store.Set / MemSet / Commit / Get are the real code; the node cache of the store database is '
        'emptied by the harness (GetCache().Purge()) before each operation, so cached copies of deleted nodes are not observed '
        '(same abstraction as above); Store.Get cannot tell a root that does not load from absent keys (model: store_get_at_root)',
        'node database streams: the MemSet shortcut of the store ("empty write set: keep the parent root, no tree") is transcribed in the harness '
        '(mode 1 with an empty write set makes no call); non-empty MemSet+Commit equals SetKVPair',
        'the spec oracle (Spec.v) uses C01\'s finite-map specification (apply_writes / sget) for the abstract states; '
        'live = on the tip\'s chain and within PruneHeight of the greatest height committed so far',
    ],
    'assumptions': [
        'heights 0 <= h < 10^10 (the %010d key layout is order preserving); int32/int64 arithmetic does not overflow',
        'the flush thresholds of the scan loops (999 distinct keys / 10000 entries per round) are not reached: one round '
        'per pruning run (model and generated histories)',
        'a commit materialises the whole parent version in the model, Go loads lazily: equal while the parent version is '
        'complete, and a history ends at the first incomplete live version',
        'GetKVPair cannot distinguish an empty value from an absent key (both nil): read code "absent" for both',
        'the partial theorem covers LINEAR histories (every commit builds on the previous one; height gaps, empty write sets, '
        'MemSet shortcut, arbitrary pruning runs up to the top height, all three pruning levels with arbitrary thresholds '
        '>= PruneHeight); histories with re-organisations are covered by the correspondence check only',
    ],
    'manifest': {
        'level_text': 'partial: unbounded Coq theorem for linear histories under the boolean guard "every writing commit '
                      'produces a state root not produced before" (all configurations, write sets, height gaps, interleaved '
                      'pruning runs, three levels); full-strength statement refuted in Coq with two witnesses reproduced on '
                      'the Go code; fork/re-commit histories by in-kernel correspondence on generated histories; three open '
                      'known findings',
        'level_note': 'symbolic injective hash (C01), LevelDB as oracle, node cache off, add-only hook to reset/await the '
                      'package-level pruning state; model = annotated-tree transcription of tree.go/node.go/prune.go whose '
                      'erasure is proved equal to C01\'s set',
        'technique': 'Coq proof (history invariant by induction over operation lists: stamped version trees, creation sets '
                     'of database keys, index-entry provenance; safety argument for deleted keys) + in-kernel correspondence '
                     'check (vm_compute) on generated commit/prune histories',
    },
    'harness_timeout': {'quick': 600, 'thorough': 6000},
}
