SPEC = {
    'id': 'C26',
    'harness': 'hC26',
    'coq_dir': 'C26',
    'claimed': True,
    'theorems': ['C26_sequence_gapfree', 'C26_sequence_no_reuse', 'C26_replay_is_best_chain', 'C26_nonvacuous',
                 'C26_kv_refines_log', 'C26_kv_refines_log_run', 'C26_best_chain_no_repeat',
                 'C26_seq_by_hash_names_latest_add', 'C26_seq_by_hash_on_best_chain', 'C26_seq_by_hash_off_chain_iff',
                 'C26_index_entry_monotone', 'C26_index_oracle_holds', 'C26_range_query_is_log_segment',
                 'C26_main_queries_alias', 'C26_no_recording_no_log', 'C26_readd_nonvacuous',
                 'C26_para_own_log', 'C26_para_norec_no_own_log', 'C26_para_main_seq_replay_refuted',
                 'C26_para_main_seq_replay_partial', 'C26_para_nonvacuous'],
    'allowed_axioms': [],
    'shard': 20,
    'rule': 'harness hC26. Streams tree/exhaustive (the generator of hC25, unchanged: a factory test node builds executed '
            'block trees (trunk 8-18 blocks, 3-5 side branches, fork points below and above the 12-block margin, 4 '
            'Difficulty values); every order (creation, reverse, by height, shuffles, shuffles with duplicates, local '
            'swaps, orders with blocks missing; plus all orders of the off-trunk blocks of one small tree) is delivered '
            'to a fresh node (memdb, every 6th leveldb) through ProcessBlock); stream flip (two branches from a common '
            'prefix extended in turns, 2-4 reorganisations X -> Y -> X ..., blocks leave the best chain and come back; '
            'kinds ending in +readd have a hash with more than one add record); stream norec (same histories with '
            'isRecordBlockSequence=false). Read back: after every delivery tip, total difficulty, '
            'LoadBlockLastSequence, GetSequenceByHash(delivered block); at the end hash at every height, '
            'GetBlockSequence(0..last), ProcGetSeqByHash / ProcGetMainSeqByHash for every block of the tree, a hash of '
            'no block and the empty hash, LoadBlockLastMainSequence, GetBlockSequences for 7 ranges (edges at 0, last, '
            'the 1000 limit, negative starts, int64 wrap, random pairs), ProcDelParaChainBlockMsg(tip / block below / '
            'genesis, pid self). Stream para: para-chain test nodes (Title user.p.b., isParaChain, with and without '
            'isRecordBlockSequence) driven by ProcAddParaChainBlockMsg / ProcDelParaChainBlockMsg (pid self) over a '
            'small executed tree: add a child of the tip, delete the tip, refused operations (parent not the tip, '
            'block not the tip, wrong height, no block); guarded = strictly increasing sequence numbers, unrestricted = '
            'also repeated / lower numbers (incl. Rollback\'s choice), witness = the refutation witnesses; read back per '
            'operation error class, tip, LoadBlockLastMainSequence, LoadBlockLastSequence, at the end '
            'GetBlockByMainSequence over -3..max+2, own log, both by-hash queries for every block, ranges. '
            'non-trivial = the run contains an orphan or a reorganisation (para: >= 3 executed and >= 1 refused '
            'operation); distinct = distinct Gallina case terms',
    'trusted_base': [
        'C25.Model (block acceptance, fork choice, reorganisation) is the source of the connect/disconnect trace; '
        'its correspondence with process.go is checked per delivery in the same cases',
        'block execution/validity is an oracle (all generated blocks are valid)',
        'the key-value store batch is atomic (sequence records are written in the block batch); the database is '
        'modelled as a last-write-wins map over the six sequence key families',
        'block hashes are abstract identifiers (N); distinct blocks have distinct hashes',
        'para chain: blocks reach the node only through its consensus module (pid "self"); blocks of height <= 0 and '
        'the deletion of the genesis block are outside the model (error class 8, never generated)',
    ],
    'assumptions': [
        'sequence recording is on from height 0 (the start-up rule of saveBlockSequence / CheckSequenceStatus / '
        'CreateSequences is not modelled); LastSequence + 1 does not overflow int64',
        'single-threaded deliveries (ProcessBlock holds chainLock)',
        'BlockChain.Rollback is not driven (read only: it is the in-repository caller that re-uses a sequence number)',
    ],
    'manifest': {
        'level_text': 'full for the node\'s own log (main chain and para chain): for every delivery history the '
                      'sequence numbers are 0..last without gap or reuse, the replay of the log is the best chain, '
                      'the hash index names the latest add record of a block (never removed; on the best chain iff no '
                      'delete record follows; replay up to it puts the block on top of the current chain below it), '
                      'GetBlockSequences returns log segments, no recording = no log; partial for the records a para '
                      'chain keeps under the caller\'s sequence numbers (guard: numbers increase; refuted otherwise, '
                      'known finding 1); the Go nodes agree with the model on every generated history (per-delivery '
                      'results, final chain, whole log, index, range and main-sequence queries)',
        'level_note': 'model of ProcessBlock/connectBestChain/reorganizeChain (C25) and of saveBlockSequence, the '
                      'by-hash / by-sequence reads, GetBlockSequences, ProcGetSeqByHash, ProcGetMainSeqByHash, '
                      'ProcAdd/DelParaChainBlockMsg at key level; block execution is an oracle; the DelBlock return '
                      'value (-1, shadowed variable) only feeds the push notifier and is not part of this property',
        'technique': 'Coq proof (invariants by induction over delivery histories / operation lists, strict-replay '
                     'invariant of the connect/disconnect trace) + in-kernel correspondence check',
    },
    'harness_timeout': {'quick': 400, 'thorough': 3600},
}
