SPEC = {
    'id': 'C26',
    'harness': 'hC26',
    'coq_dir': 'C26',
    'claimed': True,
    'theorems': ['C26_sequence_gapfree', 'C26_sequence_no_reuse', 'C26_replay_is_best_chain'],
    'allowed_axioms': [],
    'shard': 16,
    'rule': 'same generator as C25 (harness hC25 with --extra c26): a factory test node builds executed block trees '
            '(trunk 8-18 blocks, 3-5 side branches, fork points below and above the 12-block margin, 4 Difficulty '
            'values); every order (creation, reverse, by height, shuffles, shuffles with duplicates, local swaps, '
            'orders with blocks missing; plus all orders of the off-trunk blocks of one small tree) is delivered to a '
            'fresh node (memdb, every 6th leveldb) through ProcessBlock; the sequence log is read back with '
            'LoadBlockLastSequence / GetBlockSequence(0..last). non-trivial = the run contains an orphan or a '
            'reorganisation; distinct = distinct Gallina case terms',
    'trusted_base': [
        'C25.Model (block acceptance, fork choice, reorganisation) is the source of the connect/disconnect trace; '
        'its correspondence with process.go is checked per delivery in the same cases',
        'block execution/validity is an oracle (all generated blocks are valid)',
        'the key-value store batch is atomic (sequence records are written in the block batch)',
    ],
    'assumptions': [
        'isRecordBlockSequence = true from height 0, not a para chain',
        'single-threaded deliveries (ProcessBlock holds chainLock)',
    ],
    'manifest': {
        'level_text': 'full: for every delivery history of the model the sequence numbers are 0..last without gap or '
                      'reuse and the replay of the log is the best chain; the Go node agrees with the model on every '
                      'generated history (per-delivery results, final chain, whole log)',
        'level_note': 'model of ProcessBlock/connectBestChain/reorganizeChain and saveBlockSequence; block execution is '
                      'an oracle; the DelBlock return value (-1, shadowed variable) only feeds the push notifier and is '
                      'not part of this property',
        'technique': 'Coq proof (invariant by induction over delivery histories) + in-kernel correspondence check',
    },
    'harness_timeout': {'quick': 400, 'thorough': 3600},
}
