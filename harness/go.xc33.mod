module verifharness


go 1.21

replace github.com/ava-labs/avalanchego => github.com/33cn/avalanchego v1.10.10-0.20240529041529-ada691598153

require (
	github.com/BurntSushi/toml v1.3.2
	github.com/XiaoMi/pegasus-go-client v0.0.0-20210825081735-b8a75c1eac2b
	github.com/ava-labs/avalanchego v0.0.0-00010101000000-000000000000
	github.com/btcsuite/btcd v0.24.2
	github.com/btcsuite/btcd/btcec/v2 v2.3.4
	github.com/btcsuite/btcd/btcutil v1.1.5
	github.com/btcsuite/btcd/chaincfg/chainhash v1.1.0
	github.com/decred/base58 v1.0.3
	github.com/dgraph-io/badger v1.6.2
	github.com/dgryski/go-farm v0.0.0-20190423205320-6a90982ecee2
	github.com/ethereum/go-ethereum v1.14.8
	github.com/getamis/alice v1.0.3
	github.com/go-stack/stack v1.8.1
	github.com/golang/protobuf v1.5.4
	github.com/golang/snappy v0.0.5-0.20220116011046-fa5810519dcb
	github.com/google/uuid v1.3.0
	github.com/hashicorp/golang-lru v0.5.5-0.20210104140557-80c98217689d
	github.com/influxdata/influxdb v1.9.5
	github.com/ipfs/go-log/v2 v2.5.1
	github.com/kevinms/leakybucket-go v0.0.0-20200115003610-082473db97ca
	github.com/libp2p/go-libp2p v0.30.0
	github.com/libp2p/go-libp2p-kad-dht v0.23.0
	github.com/libp2p/go-libp2p-kbucket v0.5.0
	github.com/libp2p/go-libp2p-pubsub v0.9.3
	github.com/libp2p/go-msgio v0.3.0
	github.com/mattn/go-colorable v0.1.13
	github.com/mr-tron/base58 v1.2.0
	github.com/multiformats/go-multiaddr v0.11.0
	github.com/pkg/errors v0.9.1
	github.com/qianlnk/pgbar v0.0.0-20210208085217-8c19b9f2477e
	github.com/rcrowley/go-metrics v0.0.0-20190826022208-cac0b30c2563
	github.com/rs/cors v1.7.0
	github.com/shopspring/decimal v1.2.0
	github.com/spf13/cobra v1.5.0
	github.com/stretchr/testify v1.9.0
	github.com/syndtr/goleveldb v1.0.1-0.20220614013038-64ee5596c38a
	github.com/tjfoc/gmsm v1.3.2
	golang.org/x/crypto v0.22.0
	golang.org/x/net v0.24.0
	golang.org/x/sys v0.20.0
	google.golang.org/grpc v1.56.3
	google.golang.org/protobuf v1.34.2
	gopkg.in/check.v1 v1.0.0-20201130134442-10cb98267c6c
	gopkg.in/go-playground/webhooks.v5 v5.2.0
	gopkg.in/natefinch/lumberjack.v2 v2.2.1
)

require (
	github.com/AndreasBriese/bbloom v0.0.0-20190825152654-46b345b51c96 // indirect
	github.com/DataDog/zstd v1.5.2 // indirect
	github.com/Microsoft/go-winio v0.6.2 // indirect
	github.com/agl/ed25519 v0.0.0-20170116200512-5312a6153412 // indirect
	github.com/andreyvit/diff v0.0.0-20170406064948-c7f18ee00883 // indirect
	github.com/apache/arrow/go/arrow v0.0.0-20200923215132-ac86123a3f01 // indirect
	github.com/apache/arrow/go/v11 v11.0.0 // indirect
	github.com/benbjohnson/clock v1.3.5 // indirect
	github.com/benbjohnson/immutable v0.2.1 // indirect
	github.com/beorn7/perks v1.0.1 // indirect
	github.com/bits-and-blooms/bitset v1.10.0 // indirect
	github.com/btcsuite/btclog v0.0.0-20170628155309-84c8d2346e9f // indirect
	github.com/cenkalti/backoff/v4 v4.2.0 // indirect
	github.com/cespare/xxhash v1.1.0 // indirect
	github.com/cespare/xxhash/v2 v2.3.0 // indirect
	github.com/cockroachdb/errors v1.11.3 // indirect
	github.com/cockroachdb/fifo v0.0.0-20240606204812-0bbfbd93a7ce // indirect
	github.com/cockroachdb/logtags v0.0.0-20230118201751-21c54148d20b // indirect
	github.com/cockroachdb/pebble v1.1.1 // indirect
	github.com/cockroachdb/redact v1.1.5 // indirect
	github.com/cockroachdb/tokenbucket v0.0.0-20230807174530-cc333fc44b06 // indirect
	github.com/consensys/bavard v0.1.13 // indirect
	github.com/consensys/gnark-crypto v0.12.1 // indirect
	github.com/containerd/cgroups v1.1.0 // indirect
	github.com/coreos/go-systemd/v22 v22.5.0 // indirect
	github.com/cpuguy83/go-md2man/v2 v2.0.2 // indirect
	github.com/crate-crypto/go-kzg-4844 v1.0.0 // indirect
	github.com/davecgh/go-spew v1.1.1 // indirect
	github.com/davidlazar/go-crypto v0.0.0-20200604182044-b73af7476f6c // indirect
	github.com/deckarep/golang-set/v2 v2.6.0 // indirect
	github.com/decred/dcrd/crypto/blake256 v1.1.0 // indirect
	github.com/decred/dcrd/dcrec/edwards v1.0.0 // indirect
	github.com/decred/dcrd/dcrec/secp256k1/v4 v4.4.0 // indirect
	github.com/dgraph-io/ristretto v0.0.2 // indirect
	github.com/docker/go-units v0.5.0 // indirect
	github.com/dustin/go-humanize v1.0.0 // indirect
	github.com/elastic/gosigar v0.14.2 // indirect
	github.com/ethereum/c-kzg-4844 v1.0.0 // indirect
	github.com/flynn/noise v1.0.0 // indirect
	github.com/francoispqt/gojay v1.2.13 // indirect
	github.com/getamis/sirius v1.1.7 // indirect
	github.com/getsentry/sentry-go v0.27.0 // indirect
	github.com/go-logr/logr v1.2.4 // indirect
	github.com/go-logr/stdr v1.2.2 // indirect
	github.com/go-ole/go-ole v1.3.0 // indirect
	github.com/go-task/slim-sprig v0.0.0-20230315185526-52ccab3ef572 // indirect
	github.com/godbus/dbus/v5 v5.1.0 // indirect
	github.com/gofrs/flock v0.8.1 // indirect
	github.com/gofrs/uuid v3.3.0+incompatible // indirect
	github.com/gogo/protobuf v1.3.2 // indirect
	github.com/golang-jwt/jwt/v4 v4.5.0 // indirect
	github.com/golang/mock v1.6.0 // indirect
	github.com/google/flatbuffers v2.0.8+incompatible // indirect
	github.com/google/go-cmp v0.5.9 // indirect
	github.com/google/gopacket v1.1.19 // indirect
	github.com/google/pprof v0.0.0-20230817174616-7a8ec2ada47b // indirect
	github.com/googleapis/gax-go/v2 v2.12.0 // indirect
	github.com/gorilla/rpc v1.2.0 // indirect
	github.com/gorilla/websocket v1.5.0 // indirect
	github.com/grpc-ecosystem/grpc-gateway/v2 v2.12.0 // indirect
	github.com/hashicorp/errwrap v1.1.0 // indirect
	github.com/hashicorp/go-bexpr v0.1.10 // indirect
	github.com/hashicorp/go-multierror v1.1.1 // indirect
	github.com/hashicorp/golang-lru/v2 v2.0.5 // indirect
	github.com/holiman/uint256 v1.3.1 // indirect
	github.com/huin/goupnp v1.3.0 // indirect
	github.com/inconshreveable/mousetrap v1.0.0 // indirect
	github.com/influxdata/flux v0.131.0 // indirect
	github.com/influxdata/influxql v1.1.1-0.20210223160523-b6ab99450c93 // indirect
	github.com/ipfs/boxo v0.8.0 // indirect
	github.com/ipfs/go-cid v0.4.1 // indirect
	github.com/ipfs/go-datastore v0.6.0 // indirect
	github.com/ipfs/go-ipfs-util v0.0.2 // indirect
	github.com/ipfs/go-log v1.0.5 // indirect
	github.com/ipld/go-ipld-prime v0.20.0 // indirect
	github.com/jackpal/go-nat-pmp v1.0.2 // indirect
	github.com/jbenet/go-temp-err-catcher v0.1.0 // indirect
	github.com/jbenet/goprocess v0.1.4 // indirect
	github.com/klauspost/compress v1.16.7 // indirect
	github.com/klauspost/cpuid/v2 v2.2.5 // indirect
	github.com/koron/go-ssdp v0.0.4 // indirect
	github.com/kr/pretty v0.3.1 // indirect
	github.com/kr/text v0.2.0 // indirect
	github.com/libp2p/go-buffer-pool v0.1.0 // indirect
	github.com/libp2p/go-cidranger v1.1.0 // indirect
	github.com/libp2p/go-flow-metrics v0.1.0 // indirect
	github.com/libp2p/go-libp2p-asn-util v0.3.0 // indirect
	github.com/libp2p/go-libp2p-record v0.2.0 // indirect
	github.com/libp2p/go-nat v0.2.0 // indirect
	github.com/libp2p/go-netroute v0.2.1 // indirect
	github.com/libp2p/go-reuseport v0.4.0 // indirect
	github.com/libp2p/go-yamux/v4 v4.0.1 // indirect
	github.com/libp2p/zeroconf/v2 v2.2.0 // indirect
	github.com/marten-seemann/tcp v0.0.0-20210406111302-dfbc87cc63fd // indirect
	github.com/mattn/go-isatty v0.0.20 // indirect
	github.com/mattn/go-runewidth v0.0.13 // indirect
	github.com/matttproud/golang_protobuf_extensions v1.0.4 // indirect
	github.com/miekg/dns v1.1.55 // indirect
	github.com/mikioh/tcpinfo v0.0.0-20190314235526-30a79bb1804b // indirect
	github.com/mikioh/tcpopt v0.0.0-20190314235656-172688c1accc // indirect
	github.com/minio/blake2b-simd v0.0.0-20160723061019-3f5f724cb5b1 // indirect
	github.com/minio/sha256-simd v1.0.1 // indirect
	github.com/mitchellh/mapstructure v1.5.0 // indirect
	github.com/mitchellh/pointerstructure v1.2.0 // indirect
	github.com/mmcloughlin/addchain v0.4.0 // indirect
	github.com/multiformats/go-base32 v0.1.0 // indirect
	github.com/multiformats/go-base36 v0.2.0 // indirect
	github.com/multiformats/go-multiaddr-dns v0.3.1 // indirect
	github.com/multiformats/go-multiaddr-fmt v0.1.0 // indirect
	github.com/multiformats/go-multibase v0.2.0 // indirect
	github.com/multiformats/go-multicodec v0.9.0 // indirect
	github.com/multiformats/go-multihash v0.2.3 // indirect
	github.com/multiformats/go-multistream v0.4.1 // indirect
	github.com/multiformats/go-varint v0.0.7 // indirect
	github.com/nbutton23/zxcvbn-go v0.0.0-20180912185939-ae427f1e4c1d // indirect
	github.com/olekukonko/tablewriter v0.0.5 // indirect
	github.com/onsi/ginkgo/v2 v2.11.0 // indirect
	github.com/opencontainers/runtime-spec v1.1.0 // indirect
	github.com/opentracing/opentracing-go v1.2.0 // indirect
	github.com/pbnjay/memory v0.0.0-20210728143218-7b4eea64cf58 // indirect
	github.com/pegasus-kv/thrift v0.13.0 // indirect
	github.com/pmezard/go-difflib v1.0.0 // indirect
	github.com/polydawn/refmt v0.89.0 // indirect
	github.com/prometheus/client_golang v1.14.0 // indirect
	github.com/prometheus/client_model v0.4.0 // indirect
	github.com/prometheus/common v0.42.0 // indirect
	github.com/prometheus/procfs v0.9.0 // indirect
	github.com/qianlnk/to v0.0.0-20191230085244-91e712717368 // indirect
	github.com/quic-go/qpack v0.4.0 // indirect
	github.com/quic-go/qtls-go1-20 v0.3.2 // indirect
	github.com/quic-go/quic-go v0.37.6 // indirect
	github.com/quic-go/webtransport-go v0.5.3 // indirect
	github.com/raulk/go-watchdog v1.3.0 // indirect
	github.com/rivo/uniseg v0.2.0 // indirect
	github.com/rogpeppe/go-internal v1.9.0 // indirect
	github.com/rollbar/rollbar-go v1.2.0 // indirect
	github.com/russross/blackfriday/v2 v2.1.0 // indirect
	github.com/sergi/go-diff v1.0.0 // indirect
	github.com/shirou/gopsutil v3.21.11+incompatible // indirect
	github.com/sirupsen/logrus v1.9.3 // indirect
	github.com/spaolacci/murmur3 v1.1.0 // indirect
	github.com/spf13/pflag v1.0.5 // indirect
	github.com/stretchr/objx v0.5.2 // indirect
	github.com/supranational/blst v0.3.11 // indirect
	github.com/tklauser/go-sysconf v0.3.12 // indirect
	github.com/tklauser/numcpus v0.6.1 // indirect
	github.com/uber/jaeger-client-go v2.28.0+incompatible // indirect
	github.com/uber/jaeger-lib v2.4.1+incompatible // indirect
	github.com/urfave/cli/v2 v2.25.7 // indirect
	github.com/whyrusleeping/go-keyspace v0.0.0-20160322163242-5b898ac5add1 // indirect
	github.com/xlab/treeprint v0.0.0-20180616005107-d6fb6747feb6 // indirect
	github.com/xrash/smetrics v0.0.0-20201216005158-039620a65673 // indirect
	github.com/yusufpapurcu/wmi v1.2.2 // indirect
	go.opencensus.io v0.24.0 // indirect
	go.opentelemetry.io/otel v1.14.0 // indirect
	go.opentelemetry.io/otel/exporters/otlp/internal/retry v1.11.2 // indirect
	go.opentelemetry.io/otel/exporters/otlp/otlptrace v1.11.2 // indirect
	go.opentelemetry.io/otel/exporters/otlp/otlptrace/otlptracegrpc v1.11.2 // indirect
	go.opentelemetry.io/otel/exporters/otlp/otlptrace/otlptracehttp v1.11.2 // indirect
	go.opentelemetry.io/otel/sdk v1.11.2 // indirect
	go.opentelemetry.io/otel/trace v1.14.0 // indirect
	go.opentelemetry.io/proto/otlp v0.19.0 // indirect
	go.uber.org/atomic v1.11.0 // indirect
	go.uber.org/dig v1.17.0 // indirect
	go.uber.org/fx v1.20.0 // indirect
	go.uber.org/mock v0.2.0 // indirect
	go.uber.org/multierr v1.11.0 // indirect
	go.uber.org/zap v1.25.0 // indirect
	golang.org/x/exp v0.0.0-20231110203233-9a3e6036ecaa // indirect
	golang.org/x/mod v0.17.0 // indirect
	golang.org/x/sync v0.7.0 // indirect
	golang.org/x/term v0.19.0 // indirect
	golang.org/x/text v0.14.0 // indirect
	golang.org/x/tools v0.20.0 // indirect
	golang.org/x/xerrors v0.0.0-20220907171357-04be3eba64a2 // indirect
	gonum.org/v1/gonum v0.11.0 // indirect
	google.golang.org/api v0.128.0 // indirect
	google.golang.org/genproto v0.0.0-20230530153820-e85fd2cbaebc // indirect
	google.golang.org/genproto/googleapis/api v0.0.0-20230530153820-e85fd2cbaebc // indirect
	google.golang.org/genproto/googleapis/rpc v0.0.0-20230530153820-e85fd2cbaebc // indirect
	gopkg.in/tomb.v2 v2.0.0-20161208151619-d5d1b5820637 // indirect
	gopkg.in/yaml.v3 v3.0.1 // indirect
	k8s.io/apimachinery v0.17.5 // indirect
	lukechampine.com/blake3 v1.2.1 // indirect
	rsc.io/tmplfunc v0.0.3 // indirect
)


require github.com/33cn/chain33 v0.0.0
replace github.com/33cn/chain33 => /var/tmp/xC33-repo
