// hC13: block execution is deterministic (C13).
//
// (a) combinators: util.DelDupKey, util.DelDupTx, types.TransactionSort,
// executor.sortedPluginNames (hook executor/c13_verif.go), types.VerifySignature
// (verifyTxsSignature fan-out) and merkle.CalcMultiLayerMerkleInfo (gather by index) are
// called on generated inputs; every case carries a permutation the Coq model is run under.
//
// (b) repeated execution (a test): generated block sequences are executed by worker
// processes (this binary re-executed) under different GOMAXPROCS / taskset widths, in fresh
// processes and in processes with unrelated prior activity; SHA-256 digests of the receipts,
// KV sets, state roots, local KV sets (add/del), stored block details and the final
// blockchain database must be identical across runs.
//
// (c) large tx roots: for blocks of 81 .. ~9000 cheap main-chain transactions (sizes around
// 512*k for the taskset widths k of the workers: that is where GetMerkleRoot's chunk size reaches
// its 256 cap and the last chunk is padded) the same worker processes compute
// merkle.CalcMerkleRoot before / after ForkRootHash, the TxHash and block hash of
// util.CreateNewBlock, merkle.GetMerkleRoot of the hash list and merkle.CalcMerkleRootCache;
// every run must return the roots of the harness' own sequential reference (pairwise double
// SHA-256, last element duplicated on odd levels).
package main

import (
	"bytes"
	"crypto/sha256"
	"encoding/binary"
	"encoding/hex"
	"encoding/json"
	"fmt"
	"os"
	"os/exec"
	"path/filepath"
	"runtime"
	"strings"
	"sync"
	"time"

	"github.com/33cn/chain33/common/address"
	"github.com/33cn/chain33/common/crypto"
	"github.com/33cn/chain33/common/log"
	"github.com/33cn/chain33/common/merkle"
	"github.com/33cn/chain33/executor"
	"github.com/33cn/chain33/queue"
	_ "github.com/33cn/chain33/system"
	"github.com/33cn/chain33/types"
	"github.com/33cn/chain33/util"
	"github.com/33cn/chain33/util/testnode"
	"verifharness/hlib"
)

// ---------- alphabets (copies of C13.Check.key_dict / exec_dict; compared by the CDict case) ----------

var keyDict = [][]byte{
	[]byte(""), []byte("a"), []byte("ab"), []byte("b"), []byte("aa"), []byte("B"), []byte("k1"), []byte("k2"),
	[]byte("k10"), []byte("K1"), []byte("stat"), []byte("mvcc"), []byte("addrindex"), []byte("txindex"),
	[]byte("fee"), []byte("addrfeeindex"), []byte("mavl-coins-bty-1"), []byte("mavl-coins-bty-2"),
	[]byte("a.b"), []byte("a-b"), {0}, {255}, {97, 0}, {97, 255},
}

var execDict = []string{
	"coins", "none", "user.p.a.coins", "user.p.a.none", "user.p.b.coins", "user.p.ab.none", "user.p.", "user.p.x",
	"user.p..c", "user.write", "user.p.b.user.x", "user.pa.coins", "ticket", "user.p.a.", "user.p.B.none", "main",
	"user.P.a.none", "user.p.a", "", "user.p.0.token",
}

const badIdx = 9999

func keyIndex(b []byte) uint64 {
	for i, k := range keyDict {
		if bytes.Equal(k, b) {
			return uint64(i)
		}
	}
	return badIdx
}

// ---------- inputs (the replay format) ----------

type input struct {
	Kind  string    `json:"kind"`
	L     []int     `json:"l,omitempty"`     // key / hash / exec / name indices, or 0/1 sign flags
	Pi    []int     `json:"pi,omitempty"`    // permutation handed to the model
	Procs int       `json:"procs,omitempty"` // GOMAXPROCS for the call
	Scen  *scen     `json:"scen,omitempty"`
	Wk    []wkMode  `json:"wk,omitempty"`
	Root  *rootSpec `json:"root,omitempty"`
}

func nl(xs []int) string {
	it := make([]string, len(xs))
	for i, x := range xs {
		it[i] = fmt.Sprint(x)
	}
	return "[" + strings.Join(it, ";") + "]"
}

func perm(r *hlib.Rng, n int) []int {
	p := make([]int, n)
	for i := range p {
		p[i] = i
	}
	hlib.Shuffle(r, p)
	return p
}

func randList(r *hlib.Rng, n, alpha int, from []int) []int {
	l := make([]int, n)
	for i := range l {
		l[i] = from[r.Intn(alpha)]
	}
	return l
}

func subAlphabet(r *hlib.Rng, size, total int) []int {
	p := perm(r, total)
	return p[:size]
}

func hasDup(l []int) bool {
	seen := map[int]bool{}
	for _, x := range l {
		if seen[x] {
			return true
		}
		seen[x] = true
	}
	return false
}

func withProcs(n int, f func()) {
	if n <= 0 {
		f()
		return
	}
	old := runtime.GOMAXPROCS(n)
	defer runtime.GOMAXPROCS(old)
	f()
}

// ---------- (a) combinator cases ----------

type env struct {
	cfg    *types.Chain33Config
	o      *hlib.Out
	txPool []*types.Transaction // distinct signed transactions
	good   []*types.Transaction
	bad    []*types.Transaction
}

func (e *env) doDict() {
	ks := make([]string, len(keyDict))
	for i, k := range keyDict {
		ks[i] = hlib.Hx(k)
	}
	es := make([]string, len(execDict))
	for i, k := range execDict {
		es[i] = hlib.Hx([]byte(k))
	}
	e.o.Emit("dict", false, hlib.App("CDict", hlib.List(ks), hlib.List(es)), input{Kind: "dict"}, nil)
}

func (e *env) doDupKey(in input) {
	kvs := make([]*types.KeyValue, len(in.L))
	pos := map[*types.KeyValue]int{}
	for i, k := range in.L {
		kvs[i] = &types.KeyValue{Key: append([]byte{}, keyDict[k]...), Value: []byte{byte(i)}}
		pos[kvs[i]] = i
	}
	orig := append([]*types.KeyValue{}, kvs...)
	out := util.DelDupKey(kvs)
	res := make([]int, len(out))
	for i, kv := range out {
		p, ok := pos[kv]
		if !ok || !bytes.Equal(kv.Key, keyDict[in.L[p]]) || !bytes.Equal(orig[p].Value, []byte{byte(p)}) {
			p = badIdx
		}
		res[i] = p
	}
	e.o.Emit("dupkey", hasDup(in.L), fmt.Sprintf("(CDupKey %s %s)", nl(in.L), nl(res)), in, res)
}

func (e *env) doDupTx(in input) {
	txs := make([]*types.TransactionCache, len(in.L))
	pos := map[*types.TransactionCache]int{}
	for i, h := range in.L {
		txs[i] = &types.TransactionCache{Transaction: e.txPool[h]}
		pos[txs[i]] = i
	}
	out := util.DelDupTx(txs)
	res := make([]int, len(out))
	for i, tx := range out {
		p, ok := pos[tx]
		if !ok || tx.Transaction != e.txPool[in.L[p]] {
			p = badIdx
		}
		res[i] = p
	}
	e.o.Emit("duptx", hasDup(in.L), fmt.Sprintf("(CDupTx %s %s)", nl(in.L), nl(res)), in, res)
}

func (e *env) execTxs(l []int) ([]*types.Transaction, map[*types.Transaction]int) {
	txs := make([]*types.Transaction, len(l))
	pos := map[*types.Transaction]int{}
	for i, x := range l {
		txs[i] = &types.Transaction{Execer: []byte(execDict[x]), Payload: []byte{byte(i)}, Nonce: int64(i)}
		pos[txs[i]] = i
	}
	return txs, pos
}

func titlesOf(l []int) int {
	seen := map[string]bool{}
	for _, x := range l {
		t, ok := types.GetParaExecTitleName(execDict[x])
		if !ok {
			t = types.MainChainName
		}
		seen[t] = true
	}
	return len(seen)
}

func (e *env) doTxSort(in input) {
	seenOut := map[string]bool{}
	for rep := 0; rep < 4; rep++ {
		txs, pos := e.execTxs(in.L)
		out := types.TransactionSort(txs)
		res := make([]int, len(out))
		for i, tx := range out {
			p, ok := pos[tx]
			if !ok {
				p = badIdx
			}
			res[i] = p
		}
		s := nl(res)
		if seenOut[s] {
			continue
		}
		seenOut[s] = true
		e.o.Emit("txsort", titlesOf(in.L) > 1, fmt.Sprintf("(CTxSort %s %s %s)", nl(in.L), nl(in.Pi), s), in, res)
	}
}

func (e *env) doPlugins(in input) {
	names := make([]string, len(in.L))
	for i, k := range in.L {
		names[i] = string(keyDict[k])
	}
	seenOut := map[string]bool{}
	for rep := 0; rep < 6; rep++ {
		var out []string
		if in.Kind == "plugins-real" {
			out = executor.VerifSortedPluginNames()
		} else {
			out = executor.VerifSortedPluginNamesOf(names)
		}
		res := make([]int, len(out))
		for i, n := range out {
			res[i] = int(keyIndex([]byte(n)))
		}
		s := nl(res)
		if seenOut[s] {
			continue
		}
		seenOut[s] = true
		e.o.Emit(in.Kind, len(in.L) > 1, fmt.Sprintf("(CPlugins %s %s %s)", nl(in.L), nl(in.Pi), s), in, res)
	}
}

func (e *env) sigTxs(l []int) []*types.Transaction {
	txs := make([]*types.Transaction, len(l))
	gi, bi := 0, 0
	for i, ok := range l {
		if ok == 1 {
			txs[i] = types.CloneTx(e.good[gi%len(e.good)])
			gi++
		} else {
			txs[i] = types.CloneTx(e.bad[bi%len(e.bad)])
			bi++
		}
	}
	return txs
}

func (e *env) doVerify(in input) {
	txs := e.sigTxs(in.L)
	oks := make([]int, len(txs))
	allok := true
	for i, tx := range txs {
		if tx.CheckSign(1) {
			oks[i] = 1
		} else {
			allok = false
		}
	}
	var out bool
	withProcs(in.Procs, func() {
		out = types.VerifySignature(e.cfg, &types.Block{Height: 1}, txs)
	})
	o := 0
	if out {
		o = 1
	}
	e.o.Emit("verify", !allok && len(txs) > 1, fmt.Sprintf("(CVerify %s %s %d)", nl(oks), nl(in.Pi), o), in, out)
}

var zero32 [32]byte

func (e *env) doMulti(in input) {
	txs, _ := e.execTxs(in.L)
	full := make([][]byte, len(txs))
	for i, tx := range txs {
		full[i] = tx.FullHash()
	}
	slice := func(s, c int) [][]byte {
		if s < 0 || c < 0 || s+c > len(full) {
			return nil
		}
		cp := make([][]byte, c)
		for i := range cp {
			cp[i] = append([]byte{}, full[s+i]...)
		}
		return cp
	}
	var root []byte
	var chains []*types.ChildChain
	withProcs(in.Procs, func() {
		root, chains = merkle.CalcMultiLayerMerkleInfo(e.cfg, 1, txs)
	})
	rows := make([]string, len(chains))
	var childs [][]byte
	for i, c := range chains {
		ok := 0
		sl := slice(int(c.StartIndex), int(c.TxCount))
		if len(sl) > 0 && bytes.Equal(c.ChildHash, merkle.GetMerkleRoot(sl)) {
			ok = 1
		}
		childs = append(childs, append([]byte{}, c.ChildHash...))
		rows[i] = fmt.Sprintf("(%s,%d,%d,%d)", hlib.Hx([]byte(c.Title)), c.StartIndex, c.TxCount, ok)
	}
	rootok := 0
	switch {
	case len(txs) == 0:
		if bytes.Equal(root, zero32[:]) && len(chains) == 0 {
			rootok = 1
		}
	case len(chains) == 1:
		if bytes.Equal(root, chains[0].ChildHash) {
			rootok = 1
		}
	case len(chains) > 1:
		if bytes.Equal(root, merkle.GetMerkleRoot(childs)) {
			rootok = 1
		}
	}
	pi := in.Pi
	if len(pi) < len(chains) {
		pi = nil
		for i := 0; i < len(chains); i++ {
			pi = append(pi, i)
		}
	}
	e.o.Emit("multi", len(chains) > 1, fmt.Sprintf("(CMulti %s %s [%s] %d)", nl(in.L), nl(pi), strings.Join(rows, ";"), rootok),
		in, map[string]interface{}{"chains": len(chains), "rootok": rootok})
}

func (e *env) run(in input) {
	switch in.Kind {
	case "dict":
		e.doDict()
	case "dupkey":
		e.doDupKey(in)
	case "duptx":
		e.doDupTx(in)
	case "txsort":
		e.doTxSort(in)
	case "plugins", "plugins-real":
		e.doPlugins(in)
	case "verify":
		e.doVerify(in)
	case "multi":
		e.doMulti(in)
	}
}

func (e *env) prepare(r *hlib.Rng) {
	keys := util.TestPrivkeyList
	for i := 0; i < 10; i++ {
		tx := util.CreateTxWithExecer(e.cfg, nil, "none")
		tx.Nonce = int64(1000 + i)
		tx.Payload = []byte{byte(i)}
		tx.Sign(types.SECP256K1, keys[i%len(keys)])
		e.txPool = append(e.txPool, tx)
	}
	for i := 0; i < 4; i++ {
		tx := util.CreateTxWithExecer(e.cfg, nil, "none")
		tx.Nonce = int64(2000 + i)
		tx.Sign(types.SECP256K1, keys[i])
		e.good = append(e.good, tx)
	}
	// bad: flipped signature byte, foreign public key, missing signature, altered payload
	b1 := types.Clone(e.good[0]).(*types.Transaction)
	b1.Signature.Signature[10] ^= 1
	b2 := types.Clone(e.good[1]).(*types.Transaction)
	b2.Signature.Pubkey = append([]byte{}, e.good[2].Signature.Pubkey...)
	b3 := types.Clone(e.good[2]).(*types.Transaction)
	b3.Signature = nil
	b4 := types.Clone(e.good[3]).(*types.Transaction)
	b4.Payload = []byte("changed")
	e.bad = []*types.Transaction{b1, b2, b3, b4}
}

func (e *env) combinators(r *hlib.Rng, thorough bool) {
	mult := 1
	if thorough {
		mult = 12
	}
	all := func(n int) []int {
		l := make([]int, n)
		for i := range l {
			l[i] = i
		}
		return l
	}
	e.doDict()
	// DelDupKey
	for i := 0; i < 180*mult; i++ {
		n := i / 12
		if n > 14 {
			n = r.Intn(15)
		}
		a := 1 + r.Intn(5)
		e.run(input{Kind: "dupkey", L: randList(r, n, a, subAlphabet(r, a, len(keyDict)))})
	}
	// DelDupTx
	for i := 0; i < 156*mult; i++ {
		n := i / 12
		if n > 12 {
			n = r.Intn(13)
		}
		a := 1 + r.Intn(6)
		e.run(input{Kind: "duptx", L: randList(r, n, a, subAlphabet(r, a, len(e.txPool)))})
	}
	// TransactionSort
	for i := 0; i < 156*mult; i++ {
		n := i / 12
		if n > 12 {
			n = r.Intn(13)
		}
		a := 1 + r.Intn(7)
		e.run(input{Kind: "txsort", L: randList(r, n, a, subAlphabet(r, a, len(execDict))), Pi: perm(r, n)})
	}
	// plugin names
	e.run(input{Kind: "plugins-real", L: []int{10, 11, 12, 13, 14, 15}, Pi: perm(r, 6)})
	for i := 0; i < 90*mult; i++ {
		n := i / 8
		if n > 9 {
			n = r.Intn(10)
		}
		e.run(input{Kind: "plugins", L: subAlphabet(r, n, len(keyDict)), Pi: perm(r, n)})
	}
	_ = all
	// signature fan-out
	procs := []int{1, 2, 4, 16}
	for i := 0; i < 60*mult; i++ {
		n := i / 5
		if n > 10 {
			n = r.Intn(14)
		}
		l := make([]int, n)
		nbad := r.Intn(3)
		if r.Chance(1, 6) {
			nbad = n
		}
		for j := range l {
			l[j] = 1
		}
		for j := 0; j < nbad && n > 0; j++ {
			l[r.Intn(n)] = 0
		}
		e.run(input{Kind: "verify", L: l, Pi: perm(r, n), Procs: procs[i%len(procs)]})
	}
	// multi-layer merkle: sorted lists (as blocks carry them) and unsorted ones
	for i := 0; i < 140*mult; i++ {
		n := i / 10
		if n > 11 {
			n = r.Intn(12)
		}
		a := 1 + r.Intn(6)
		l := randList(r, n, a, subAlphabet(r, a, len(execDict)))
		if i%3 != 0 {
			txs, pos := e.execTxs(l)
			srt := types.TransactionSort(txs)
			l2 := make([]int, len(srt))
			for j, tx := range srt {
				l2[j] = l[pos[tx]]
			}
			l = l2
		}
		e.run(input{Kind: "multi", L: l, Pi: perm(r, n+1), Procs: procs[i%len(procs)]})
	}
}

// ---------- (b) scenarios ----------

type scen struct {
	ID      int        `json:"id"`
	Stat    bool       `json:"stat"`
	MVCC    bool       `json:"mvcc"`
	AddrFee bool       `json:"addrfee"`
	Blocks  [][]string `json:"blocks"` // hex encoded transactions per block
}

type wkMode struct {
	Tag     string `json:"tag"`
	Procs   int    `json:"procs"`   // GOMAXPROCS (0: default)
	CPUs    int    `json:"cpus"`    // taskset -c 0-(CPUs-1) (0: no pinning)
	Prior   int    `json:"prior"`   // 0 none, 1 unrelated node run and closed first, 2 unrelated node kept executing concurrently
	Noise   bool   `json:"noise"`   // busy goroutines during execution
	LevelDB bool   `json:"leveldb"` // leveldb backends instead of memdb
	Reps    int    `json:"reps"`    // runs of every scenario inside the process
}

type job struct {
	Mode   wkMode     `json:"mode"`
	Scens  []scen     `json:"scens"`
	Roots  []rootSpec `json:"roots,omitempty"`
	Result string     `json:"result"`
	Seed   uint64     `json:"seed"`
}

const nObs = 10

var obsNames = [nObs]string{"raw receipts (EventExecTxList)", "receipt data", "state KV set", "state root / tx root / block hash",
	"local KV set (EventAddBlock)", "local KV set (EventDelBlock)", "stored block detail", "removed transactions / errors",
	"ProcessBlock's own execution stored the receipts ExecBlock returned", "blockchain database dump"}

type runRes struct {
	Scen   int        `json:"scen"`
	Tag    string     `json:"tag"`
	NumCPU int        `json:"numcpu"`
	Procs  int        `json:"procs"`
	Obs    [][]string `json:"obs"` // per block, nObs-1 hex digests; last entry: [db dump digest]
	Note   string     `json:"note,omitempty"`
	Stats  [][5]int   `json:"stats,omitempty"` // per block: proposed, kept, ExecOk receipts, ExecPack receipts, local KVs of EventAddBlock
	Us     int64      `json:"us,omitempty"`    // large tx roots: time spent in the worker
}

func quiet() {
	if os.Getenv("C13_DEBUG") != "" {
		log.SetLogLevel("error")
		return
	}
	log.SetLogLevel("crit")
}

var nodeMu sync.Mutex

// newNode creates a test node (creation is serialised: concurrent testnode construction in one
// process collides in the wallet set-up).
func newNode(sc *scen, leveldb bool) *testnode.Chain33Mock {
	nodeMu.Lock()
	defer nodeMu.Unlock()
	cfg := types.NewChain33Config(types.GetDefaultCfgstring())
	m := cfg.GetModuleConfig()
	if !leveldb {
		m.BlockChain.Driver = "memdb"
		m.Store.Driver = "memdb"
		m.Wallet.Driver = "memdb"
	}
	if sc != nil {
		m.Exec.EnableStat = sc.Stat
		m.Exec.EnableMVCC = sc.MVCC
		m.Exec.EnableAddrFeeIndex = sc.AddrFee
	}
	n := testnode.NewWithConfig(cfg, nil)
	quiet()
	cl := n.GetClient()
	_ = cl.Send(cl.NewMessage("consensus", types.EventMinerStop, nil), false)
	deadline := time.Now().Add(60 * time.Second)
	for n.GetBlockChain().GetBlockHeight() < 0 {
		if time.Now().After(deadline) {
			panic("genesis block not created")
		}
		time.Sleep(2 * time.Millisecond)
	}
	return n
}

func dg(parts ...[]byte) string {
	h := sha256.New()
	var l [8]byte
	for _, p := range parts {
		binary.BigEndian.PutUint64(l[:], uint64(len(p)))
		h.Write(l[:])
		h.Write(p)
	}
	return hex.EncodeToString(h.Sum(nil))
}

func errBytes(err error) []byte {
	if err == nil {
		return []byte("ok")
	}
	return []byte("err:" + err.Error())
}

func sendExec(cl queue.Client, ev int64, d *types.BlockDetail) []byte {
	b, _ := sendExecN(cl, ev, d)
	return b
}

func sendExecN(cl queue.Client, ev int64, d *types.BlockDetail) ([]byte, int) {
	msg := cl.NewMessage("execs", ev, d)
	if err := cl.Send(msg, true); err != nil {
		return errBytes(err), 0
	}
	resp, err := cl.Wait(msg)
	if err != nil {
		return errBytes(err), 0
	}
	set, ok := resp.GetData().(*types.LocalDBSet)
	if !ok {
		return []byte(fmt.Sprintf("unexpected reply %T", resp.GetData())), 0
	}
	var parts [][]byte
	for _, kv := range set.KV {
		parts = append(parts, kv.Key, kv.Value)
	}
	return []byte(dg(parts...)), len(set.KV)
}

func decodeTxs(hexes []string) []*types.Transaction {
	txs := make([]*types.Transaction, len(hexes))
	for i, h := range hexes {
		b, err := hex.DecodeString(h)
		if err != nil {
			panic(err)
		}
		tx := &types.Transaction{}
		if err := types.Decode(b, tx); err != nil {
			panic(err)
		}
		txs[i] = tx
	}
	return txs
}

// runScenario executes the block sequence on a fresh node and returns the digests.
func runScenario(sc *scen, leveldb bool) (obs [][]string, note string, stats [][5]int) {
	n := newNode(sc, leveldb)
	defer n.Close()
	cfg := n.GetClient().GetConfig()
	cl := n.GetClient()
	chain := n.GetBlockChain()
	parent := n.GetBlock(0)
	for bi, hexes := range sc.Blocks {
		row := make([]string, nObs-1)
		txs := decodeTxs(hexes)
		blk := util.CreateNewBlock(cfg, parent, txs)
		// 0: raw receipts of the block as proposed
		rc, err := util.ExecTx(cl, parent.StateHash, types.Clone(blk).(*types.Block))
		if err != nil {
			row[0] = dg(errBytes(err))
		} else {
			row[0] = dg(types.Encode(rc))
		}
		d, deltxs, err := util.ExecBlock(cl, parent.StateHash, blk, false, true, false)
		if err != nil || d == nil {
			row[7] = dg(errBytes(err))
			row[8] = "same"
			obs = append(obs, row)
			note += fmt.Sprintf("block %d: ExecBlock: %v; ", bi+1, err)
			continue
		}
		var rparts, kparts, dparts [][]byte
		for _, r := range d.Receipts {
			rparts = append(rparts, types.Encode(r))
		}
		for _, kv := range d.KV {
			kparts = append(kparts, kv.Key, kv.Value)
		}
		for _, tx := range deltxs {
			dparts = append(dparts, tx.Hash())
		}
		row[1] = dg(rparts...)
		row[2] = dg(kparts...)
		row[3] = dg(d.Block.StateHash, d.Block.TxHash, d.Block.Hash(cfg), types.Encode(d.Block))
		addDigest, nLocal := sendExecN(cl, types.EventAddBlock, d)
		row[4] = dg(addDigest)
		stt := [5]int{len(txs), len(d.Block.Txs), 0, 0, nLocal}
		for _, r := range d.Receipts {
			if r.Ty == types.ExecOk {
				stt[2]++
			} else if r.Ty == types.ExecPack {
				stt[3]++
			}
		}
		stats = append(stats, stt)
		if os.Getenv("C13_DEBUG") != "" {
			for i, r := range d.Receipts {
				var lt []int32
				for _, l := range r.Logs {
					lt = append(lt, l.Ty)
					if l.Ty == 1 {
						fmt.Fprintf(os.Stderr, "DBG   err=%s\n", l.Log)
					}
				}
				fmt.Fprintf(os.Stderr, "DBG block %d tx %d exec=%s ty=%d logs=%v\n", bi+1, i, d.Block.Txs[i].Execer, r.Ty, lt)
			}
		}
		var perr error
		if len(d.Block.Txs) == 0 {
			perr = types.ErrEmptyTx
		} else {
			_, _, _, perr = chain.ProcessBlock(false, &types.BlockDetail{Block: types.Clone(d.Block).(*types.Block)}, "peer1", true, 0)
		}
		dparts = append(dparts, errBytes(perr))
		row[7] = dg(dparts...)
		if perr != nil {
			note += fmt.Sprintf("block %d: ProcessBlock: %v; ", bi+1, perr)
			row[5], row[6], row[8] = dg(), dg(), "same"
			obs = append(obs, row)
			continue
		}
		row[5] = dg(sendExec(cl, types.EventDelBlock, d))
		st, err := chain.GetBlock(d.Block.Height)
		row[8] = "same"
		if err != nil {
			row[6] = dg(errBytes(err))
			row[8] = "stored block not readable"
		} else {
			row[6] = dg(types.Encode(st))
			// the node executed the block a second time while connecting it: same receipts, same block
			if len(st.Receipts) != len(d.Receipts) || !bytes.Equal(st.Block.Hash(cfg), d.Block.Hash(cfg)) {
				row[8] = fmt.Sprintf("differs: %d vs %d receipts", len(st.Receipts), len(d.Receipts))
			} else {
				for i := range st.Receipts {
					if !bytes.Equal(types.Encode(st.Receipts[i]), types.Encode(d.Receipts[i])) {
						row[8] = fmt.Sprintf("differs: receipt %d", i)
						break
					}
				}
			}
		}
		if row[8] != "same" {
			note += fmt.Sprintf("block %d: ExecBlock vs stored: %s; ", bi+1, row[8])
		}
		obs = append(obs, row)
		parent = d.Block
	}
	// final dump of the blockchain database (blocks, receipts, local indexes)
	h := sha256.New()
	cnt := 0
	it := chain.GetDB().Iterator(nil, nil, false)
	for it.Rewind(); it.Valid(); it.Next() {
		var l [8]byte
		binary.BigEndian.PutUint64(l[:], uint64(len(it.Key())))
		h.Write(l[:])
		h.Write(it.Key())
		binary.BigEndian.PutUint64(l[:], uint64(len(it.Value())))
		h.Write(l[:])
		h.Write(it.Value())
		cnt++
	}
	it.Close()
	obs = append(obs, []string{hex.EncodeToString(h.Sum(nil)), fmt.Sprint(cnt)})
	return obs, note, stats
}

func workerMain(jobfile string) {
	b, err := os.ReadFile(jobfile)
	if err != nil {
		panic(err)
	}
	var j job
	if err := json.Unmarshal(b, &j); err != nil {
		panic(err)
	}
	quiet()
	var results []runRes
	stop := make(chan struct{})
	var wg sync.WaitGroup
	if j.Mode.Prior > 0 {
		// unrelated prior activity: another chain with other transactions, other plugin settings
		r := hlib.NewRng(j.Seed ^ 0xabcdef)
		other := genScenario(r, 99, 4)
		other.Stat = true
		runScenario(&other, false)
		if j.Mode.Prior == 2 {
			wg.Add(1)
			go func() {
				defer wg.Done()
				for k := 0; ; k++ {
					select {
					case <-stop:
						return
					default:
					}
					o2 := genScenario(r, 100+k, 3)
					runScenario(&o2, false)
				}
			}()
		}
	}
	if j.Mode.Noise {
		for k := 0; k < 6; k++ {
			wg.Add(1)
			go func(k int) {
				defer wg.Done()
				x := sha256.Sum256([]byte{byte(k)})
				for {
					select {
					case <-stop:
						return
					default:
					}
					for q := 0; q < 2000; q++ {
						x = sha256.Sum256(x[:])
					}
					runtime.Gosched()
				}
			}(k)
		}
	}
	reps := j.Mode.Reps
	if reps < 1 {
		reps = 1
	}
	rootPass := func(when string) {
		for _, rs := range j.Roots {
			t := time.Now()
			obs := rootObs(genCfg, rs)
			results = append(results, runRes{Scen: rs.ID, Tag: j.Mode.Tag + "#" + when, NumCPU: runtime.NumCPU(),
				Procs: runtime.GOMAXPROCS(0), Obs: [][]string{obs}, Us: time.Since(t).Microseconds()})
		}
	}
	rootPass("pre")
	for rep := 0; rep < reps; rep++ {
		for i := range j.Scens {
			sc := j.Scens[i]
			obs, note, stats := runScenario(&sc, j.Mode.LevelDB)
			results = append(results, runRes{Scen: sc.ID, Tag: fmt.Sprintf("%s#%d", j.Mode.Tag, rep), NumCPU: runtime.NumCPU(),
				Procs: runtime.GOMAXPROCS(0), Obs: obs, Note: note, Stats: stats})
		}
	}
	if len(j.Scens) > 0 {
		rootPass("post") // same process, after the block sequences were executed
	}
	close(stop)
	wg.Wait()
	out, _ := json.Marshal(results)
	if err := os.WriteFile(j.Result, out, 0o644); err != nil {
		panic(err)
	}
}

// ---------- (c) large tx roots ----------

// rootSpec names one block of N cheap main-chain transactions (rebuilt from N and Salt on both sides).
type rootSpec struct {
	ID   int    `json:"id"`
	N    int    `json:"n"`
	Salt uint64 `json:"salt"`
}

const rootIDBase = 1000000
const rootHeight = 5 // ForkRootHash (and ForkBlockHash) are active from height 1 in the local configuration

var rootObsNames = []string{"merkle.CalcMerkleRoot before ForkRootHash (height 0)", "merkle.CalcMerkleRoot after ForkRootHash",
	"TxHash of util.CreateNewBlock", "block hash of util.CreateNewBlock", "merkle.GetMerkleRoot(tx hashes)", "merkle.CalcMerkleRootCache"}

// rootTxs: unsigned-in-effect transactions (a filler signature makes Hash and FullHash differ); only the
// hashes matter. All executors are main-chain ones: TransactionSort keeps the order, one child chain.
func rootTxs(rs rootSpec) []*types.Transaction {
	execs := []string{"none", "coins", "ticket"}
	txs := make([]*types.Transaction, rs.N)
	for i := range txs {
		p := make([]byte, 12)
		binary.BigEndian.PutUint64(p[:8], rs.Salt)
		binary.BigEndian.PutUint32(p[8:], uint32(i))
		txs[i] = &types.Transaction{Execer: []byte(execs[i%len(execs)]), Payload: p, Nonce: int64(i) + 1,
			To: "1JmFaA6unrCFYEWPGRi7uuXY1KthTJxJEP", Signature: &types.Signature{Ty: 1, Pubkey: p[4:], Signature: p}}
	}
	return txs
}

func rootParent() *types.Block {
	return &types.Block{Height: rootHeight - 1, BlockTime: 1600000000, TxHash: zero32[:], StateHash: zero32[:], ParentHash: zero32[:]}
}

// rootObs: what the implementation computes in this process (NumCPU / GOMAXPROCS as started).
func rootObs(cfg *types.Chain33Config, rs rootSpec) (obs []string) {
	obs = make([]string, len(rootObsNames))
	step := func(k int, f func() []byte) {
		defer func() {
			if e := recover(); e != nil {
				obs[k] = fmt.Sprintf("panic: %v", e)
			}
		}()
		obs[k] = hex.EncodeToString(f())
	}
	txs := rootTxs(rs)
	step(0, func() []byte { return merkle.CalcMerkleRoot(cfg, 0, txs) })
	step(1, func() []byte { return merkle.CalcMerkleRoot(cfg, rootHeight, txs) })
	var blk *types.Block
	step(2, func() []byte {
		blk = util.CreateNewBlock(cfg, rootParent(), txs)
		return blk.TxHash
	})
	step(3, func() []byte { return blk.Hash(cfg) })
	step(4, func() []byte {
		hs := make([][]byte, len(txs)) // getMerkleRoot works in place: hand it its own slice
		for i, tx := range txs {
			hs[i] = tx.Hash()
		}
		return merkle.GetMerkleRoot(hs)
	})
	step(5, func() []byte {
		cs := make([]*types.TransactionCache, len(txs))
		for i, tx := range txs {
			cs[i] = types.NewTransactionCache(tx)
		}
		return merkle.CalcMerkleRootCache(cs)
	})
	return obs
}

func sha2(b []byte) []byte {
	a := sha256.Sum256(b)
	a = sha256.Sum256(a[:])
	return a[:]
}

// seqRoot: the reference. One level = duplicate the last element when the count is odd, hash pairs.
func seqRoot(leaves [][]byte) []byte {
	if len(leaves) == 0 {
		return zero32[:]
	}
	cur := make([][]byte, len(leaves))
	copy(cur, leaves)
	for len(cur) > 1 {
		if len(cur)%2 == 1 {
			cur = append(cur, cur[len(cur)-1])
		}
		next := make([][]byte, 0, len(cur)/2)
		for i := 0; i < len(cur); i += 2 {
			next = append(next, sha2(append(append(make([]byte, 0, 64), cur[i]...), cur[i+1]...)))
		}
		cur = next
	}
	return cur[0]
}

// rootRef: the same observables from the reference computation (no call into common/merkle).
func rootRef(cfg *types.Chain33Config, rs rootSpec) []string {
	txs := rootTxs(rs)
	hs, fhs := make([][]byte, len(txs)), make([][]byte, len(txs))
	for i, tx := range txs {
		hs[i], fhs[i] = tx.Hash(), tx.FullHash()
	}
	pre, post := seqRoot(hs), seqRoot(fhs)
	p := rootParent()
	blk := &types.Block{Height: p.Height + 1, BlockTime: p.BlockTime + 1, ParentHash: p.Hash(cfg), Txs: txs, TxHash: post}
	ref := [][]byte{pre, post, post, blk.Hash(cfg), pre, pre}
	out := make([]string, len(ref))
	for i, b := range ref {
		out[i] = hex.EncodeToString(b)
	}
	return out
}

func rootNum(s string) uint64 {
	b, err := hex.DecodeString(s)
	if err != nil || len(b) != 32 {
		d := sha256.Sum256([]byte("not a hash: " + s))
		return binary.BigEndian.Uint64(d[:8])>>1 | 1
	}
	return binary.BigEndian.Uint64(b[:8]) >> 1
}

func nums(xs []string) string {
	it := make([]string, len(xs))
	for i, x := range xs {
		it[i] = fmt.Sprint(rootNum(x))
	}
	return "[" + strings.Join(it, ";") + "]"
}

// capPartial: GetMerkleRoot on ncpu CPUs cuts 256-leaf chunks (cap reached) and pads the last one.
func capPartial(n, ncpu int) bool { return ncpu >= 2 && n >= 512*ncpu && n%256 != 0 }

func rootSizes(r *hlib.Rng, thorough bool) []rootSpec {
	// 512*k (k = taskset width) is where the 256 cap is reached: 1030/1500 (2), 1537/2100 (3, 4), 2600, 4200 (8), 8300 (16);
	// 81 / 600: chunked below the cap; 1024: cap reached, no partial chunk
	ns := []int{81, 600, 1024, 1030, 1500, 1537, 2100, 2600, 4200, 8300}
	ks := []int{2, 3, 4, 8, 16}
	extra := 3
	if thorough {
		extra = 40
		for _, k := range ks {
			ns = append(ns, 512*k-1, 512*k, 512*k+1, 512*k+255, 512*k+256, 512*k+257, 1024*k+131)
		}
	}
	for i := 0; i < extra; i++ {
		k := ks[r.Intn(len(ks))]
		n := 512*k + 1 + r.Intn(700)
		if thorough && i%4 == 3 {
			n = 82 + r.Intn(9400)
		}
		if n%256 == 0 {
			n++
		}
		ns = append(ns, n)
	}
	out := make([]rootSpec, len(ns))
	for i, n := range ns {
		out[i] = rootSpec{ID: rootIDBase + i, N: n, Salt: r.U64()}
	}
	return out
}

// emitRoots: one CRoot case per block size: reference vs every run of every worker.
func emitRoots(o *hlib.Out, roots []rootSpec, ms []wkMode, all []runRes) {
	for _, rs := range roots {
		ref := rootRef(genCfg, rs)
		var runs []runRes
		for _, r := range all {
			if r.Scen == rs.ID && len(r.Obs) == 1 {
				runs = append(runs, r)
			}
		}
		vs, tags, ncpus := make([]string, len(runs)), make([]string, len(runs)), make([]string, len(runs))
		diff, capped, par, us := "", 0, 0, int64(0)
		for i, r := range runs {
			us += r.Us
			vs[i] = nums(r.Obs[0])
			ncpus[i] = fmt.Sprint(r.NumCPU)
			tags[i] = fmt.Sprintf("%s(ncpu=%d,procs=%d)", r.Tag, r.NumCPU, r.Procs)
			if capPartial(rs.N, r.NumCPU) {
				capped++
			}
			if rs.N > 80 && r.NumCPU >= 2 {
				par++
			}
			for k := 0; k < len(ref) && k < len(r.Obs[0]) && diff == ""; k++ {
				if r.Obs[0][k] != ref[k] {
					diff = fmt.Sprintf("%s, %d transactions, %s: %s, sequential reference %s", tags[i], rs.N, rootObsNames[k], r.Obs[0][k], ref[k])
				}
			}
		}
		kind := "troot-sequential"
		if capped > 0 {
			kind = "troot-cap-padded"
		} else if par > 0 {
			kind = "troot-chunked"
		}
		rsc := rs
		o.Emit(kind, capped > 0, fmt.Sprintf("(CRoot %d [%s] %s [%s])", rs.N, strings.Join(ncpus, ";"), nums(ref), strings.Join(vs, ";")),
			input{Kind: "troot", Root: &rsc, Wk: ms},
			map[string]interface{}{"txs": rs.N, "runs": tags, "reference": ref, "first_difference": diff,
				"runs_on_parallel_path": par, "runs_with_cap_and_padded_last_chunk": capped, "worker_ms_all_runs": us / 1000})
	}
}

// ---------- scenario generation ----------

func addrOf(k crypto.PrivKey) string {
	return address.PubKeyToAddr(address.DefaultID, k.PubKey().Bytes())
}

var genCfg *types.Chain33Config

func signed(tx *types.Transaction, r *hlib.Rng, k crypto.PrivKey) *types.Transaction {
	tx.Nonce = int64(r.U64() >> 2)
	tx.Signature = nil
	tx.Sign(types.SECP256K1, k)
	return tx
}

func genScenario(r *hlib.Rng, id, nblocks int) scen {
	cfg := genCfg
	keys := util.TestPrivkeyList
	coin := cfg.GetCoinPrecision()
	sc := scen{ID: id}
	enc := func(tx *types.Transaction) string { return hex.EncodeToString(types.Encode(tx)) }
	var history []string
	// block 1: fund three accounts from the genesis account
	var b1 []string
	for _, k := range []int{0, 2, 3} {
		b1 = append(b1, enc(signed(util.CreateCoinsTx(cfg, nil, addrOf(keys[k]), 1000*coin), r, keys[1])))
	}
	b1 = append(b1, enc(signed(util.CreateTxWithExecer(cfg, nil, "none"), r, keys[1])))
	sc.Blocks = append(sc.Blocks, b1)
	history = append(history, b1...)
	funded := []int{0, 1, 2, 3}
	paraExecs := []string{"user.p.para1.none", "user.p.abc.coins", "user.p.para1.token", "user.p.zz.none", "user.write"}
	amounts := []int64{1, 2, 5, 10, 100, 250, 3000}
	for b := 1; b < nblocks; b++ {
		var blk []string
		n := 2 + r.Intn(8)
		// one surely valid transaction per block
		blk = append(blk, enc(signed(util.CreateTxWithExecer(cfg, nil, "none"), r, keys[1])))
		for len(blk) < n {
			switch r.Intn(12) {
			case 0, 1, 2, 3:
				from := funded[r.Intn(len(funded))]
				to := r.Intn(len(keys))
				if to == from && r.Chance(7, 8) { // ErrSendSameToRecv only now and then
					to = (to + 1) % len(keys)
				}
				blk = append(blk, enc(signed(util.CreateCoinsTx(cfg, nil, addrOf(keys[to]), amounts[r.Intn(len(amounts))]*coin), r, keys[from])))
			case 4:
				blk = append(blk, enc(signed(util.CreateTxWithExecer(cfg, nil, "none"), r, keys[r.Intn(len(keys))])))
			case 5, 6:
				blk = append(blk, enc(signed(util.CreateTxWithExecer(cfg, nil, paraExecs[r.Intn(len(paraExecs))]), r, keys[funded[r.Intn(len(funded))]])))
			case 7:
				tx := util.CreateManageTx(cfg, keys[0], fmt.Sprintf("c13-key%d", r.Intn(3)), "add", fmt.Sprintf("v%d", r.Intn(4)))
				blk = append(blk, enc(signed(tx, r, keys[0])))
			case 8:
				if len(blk) > 0 {
					blk = append(blk, blk[r.Intn(len(blk))]) // duplicate inside the block
				}
			case 9:
				blk = append(blk, history[r.Intn(len(history))]) // replay of an earlier block's transaction
			case 10:
				t1 := util.CreateCoinsTx(cfg, nil, addrOf(keys[r.Intn(len(keys))]), amounts[r.Intn(5)]*coin)
				t2 := util.CreateCoinsTx(cfg, nil, addrOf(keys[4+r.Intn(2)]), amounts[r.Intn(len(amounts))]*coin)
				t1.Nonce, t2.Nonce = int64(r.U64()>>2), int64(r.U64()>>2)
				g, err := types.CreateTxGroup([]*types.Transaction{t1, t2}, cfg.GetMinTxFeeRate())
				if err != nil {
					continue
				}
				k1, k2 := keys[funded[r.Intn(len(funded))]], keys[funded[r.Intn(len(funded))]]
				if g.SignN(0, types.SECP256K1, k1) != nil || g.SignN(1, types.SECP256K1, k2) != nil {
					continue
				}
				for _, tx := range g.GetTxs() {
					blk = append(blk, enc(tx))
				}
			case 11:
				tx := util.CreateCoinsTx(cfg, nil, addrOf(keys[4]), coin)
				tx.Expire = 1 // expired by height
				blk = append(blk, enc(signed(tx, r, keys[funded[r.Intn(len(funded))]])))
			}
		}
		sc.Blocks = append(sc.Blocks, blk)
		history = append(history, blk...)
	}
	return sc
}

// ---------- master: spawn workers, compare ----------

func modes(thorough bool) []wkMode {
	ms := []wkMode{
		{Tag: "fresh-p1-c1", Procs: 1, CPUs: 1},
		{Tag: "fresh-p4-c4", Procs: 4, CPUs: 4},
		{Tag: "fresh-p16-c16", Procs: 16, CPUs: 16},
		{Tag: "fresh-c2-leveldb", CPUs: 2, LevelDB: true},
		{Tag: "fresh-p2-c3", Procs: 2, CPUs: 3},
		{Tag: "prior-p4", Procs: 4, CPUs: 4, Prior: 1, Reps: 2},
		{Tag: "prior-concurrent-noise-p16", Procs: 16, CPUs: 8, Prior: 2, Noise: true},
	}
	if thorough {
		for _, c := range []int{5, 6, 7, 8, 12} {
			ms = append(ms, wkMode{Tag: fmt.Sprintf("fresh-c%d", c), CPUs: c})
		}
		ms = append(ms, wkMode{Tag: "fresh-p16-c1", Procs: 16, CPUs: 1}, wkMode{Tag: "fresh-p1-c16", Procs: 1, CPUs: 16},
			wkMode{Tag: "prior-noise-p2-reps3", Procs: 2, CPUs: 4, Prior: 1, Noise: true, Reps: 3},
			wkMode{Tag: "prior-concurrent-leveldb", Prior: 2, LevelDB: true, Reps: 2})
	}
	return ms
}

func spawn(dir string, idx int, j job, timeout time.Duration) ([]runRes, error) {
	jf := filepath.Join(dir, fmt.Sprintf("job_%d.json", idx))
	j.Result = filepath.Join(dir, fmt.Sprintf("res_%d.json", idx))
	os.Remove(j.Result)
	b, _ := json.Marshal(j)
	if err := os.WriteFile(jf, b, 0o644); err != nil {
		return nil, err
	}
	self, err := os.Executable()
	if err != nil {
		return nil, err
	}
	args := []string{self, "--extra", "worker:" + jf, "--out", dir}
	if j.Mode.CPUs > 0 {
		ncpu := runtime.NumCPU()
		c := j.Mode.CPUs
		if c > ncpu {
			c = ncpu
		}
		args = append([]string{"taskset", "-c", fmt.Sprintf("0-%d", c-1)}, args...)
	}
	cmd := exec.Command(args[0], args[1:]...)
	tmp := filepath.Join(dir, "tmp")
	os.MkdirAll(tmp, 0o755)
	cmd.Env = append(os.Environ(), "TMPDIR="+tmp)
	if j.Mode.Procs > 0 {
		cmd.Env = append(cmd.Env, fmt.Sprintf("GOMAXPROCS=%d", j.Mode.Procs))
	}
	var buf bytes.Buffer
	cmd.Stdout, cmd.Stderr = &buf, &buf
	if err := cmd.Start(); err != nil {
		return nil, err
	}
	done := make(chan error, 1)
	go func() { done <- cmd.Wait() }()
	select {
	case err = <-done:
	case <-time.After(timeout):
		cmd.Process.Kill()
		err = fmt.Errorf("worker timeout after %v", timeout)
	}
	if err != nil {
		tail := buf.String()
		if len(tail) > 1500 {
			tail = tail[len(tail)-1500:]
		}
		return nil, fmt.Errorf("worker %s: %v: %s", j.Mode.Tag, err, tail)
	}
	rb, err := os.ReadFile(j.Result)
	if err != nil {
		return nil, err
	}
	var res []runRes
	if err := json.Unmarshal(rb, &res); err != nil {
		return nil, err
	}
	os.Remove(jf)
	os.Remove(j.Result)
	return res, nil
}

// vector folds the per-block digests of one run into nObs numbers (first 8 bytes of a SHA-256 each).
func vector(r runRes, runIdx int) []uint64 {
	v := make([]uint64, nObs)
	for k := 0; k < nObs; k++ {
		if k == 8 {
			// self-consistency flag: 0 when every block says "same"; otherwise a value that differs from
			// run to run, so that the case fails even if all runs are inconsistent in the same way
			for _, row := range r.Obs[:max(len(r.Obs)-1, 0)] {
				if len(row) > 8 && row[8] != "same" {
					v[k] = uint64(1000 + runIdx)
				}
			}
			continue
		}
		var parts [][]byte
		if k == nObs-1 {
			if len(r.Obs) > 0 {
				parts = append(parts, []byte(strings.Join(r.Obs[len(r.Obs)-1], ",")))
			}
		} else {
			for _, row := range r.Obs[:max(len(r.Obs)-1, 0)] {
				if k < len(row) {
					parts = append(parts, []byte(row[k]))
				}
			}
		}
		d, _ := hex.DecodeString(dg(parts...))
		v[k] = binary.BigEndian.Uint64(d[:8]) >> 1
	}
	return v
}

func firstDiff(a, b runRes) string {
	for i := 0; i < len(a.Obs) && i < len(b.Obs); i++ {
		for k := 0; k < len(a.Obs[i]) && k < len(b.Obs[i]); k++ {
			if a.Obs[i][k] != b.Obs[i][k] {
				if i == len(a.Obs)-1 {
					return fmt.Sprintf("%s: %s vs %s", obsNames[nObs-1], a.Obs[i], b.Obs[i])
				}
				return fmt.Sprintf("block %d, %s: %s vs %s", i+1, obsNames[k], a.Obs[i][k], b.Obs[i][k])
			}
		}
	}
	if len(a.Obs) != len(b.Obs) {
		return "different number of blocks observed"
	}
	return ""
}

func repeated(o *hlib.Out, scens []scen, roots []rootSpec, ms []wkMode, seed uint64, dir string, timeout time.Duration) error {
	type res struct {
		rs  []runRes
		err error
	}
	out := make([]res, len(ms))
	sem := make(chan struct{}, 3)
	var wg sync.WaitGroup
	for i := range ms {
		wg.Add(1)
		go func(i int) {
			defer wg.Done()
			sem <- struct{}{}
			defer func() { <-sem }()
			rs, err := spawn(dir, i, job{Mode: ms[i], Scens: scens, Roots: roots, Seed: seed}, timeout)
			out[i] = res{rs, err}
		}(i)
	}
	wg.Wait()
	os.RemoveAll(filepath.Join(dir, "tmp"))
	for i := range out {
		if out[i].err != nil {
			return out[i].err
		}
	}
	for si := range scens {
		sc := scens[si]
		var runs []runRes
		for i := range out {
			for _, r := range out[i].rs {
				if r.Scen == sc.ID {
					runs = append(runs, r)
				}
			}
		}
		vs := make([]string, len(runs))
		tags := make([]string, len(runs))
		diff := ""
		ntx := 0
		for _, b := range sc.Blocks {
			ntx += len(b)
		}
		for i, r := range runs {
			v := vector(r, i)
			it := make([]string, len(v))
			for k, x := range v {
				it[k] = fmt.Sprint(x)
			}
			vs[i] = "[" + strings.Join(it, ";") + "]"
			tags[i] = fmt.Sprintf("%s(ncpu=%d,procs=%d)", r.Tag, r.NumCPU, r.Procs)
			if i > 0 && diff == "" {
				if d := firstDiff(runs[0], r); d != "" {
					diff = fmt.Sprintf("%s vs %s: %s", runs[0].Tag, r.Tag, d)
				}
			}
		}
		note := ""
		var stats [][5]int
		if len(runs) > 0 {
			note = runs[0].Note
			stats = runs[0].Stats
		}
		scc := sc
		o.Emit(fmt.Sprintf("runs-stat%v-mvcc%v-addrfee%v", sc.Stat, sc.MVCC, sc.AddrFee), ntx > len(sc.Blocks),
			fmt.Sprintf("(CRuns %d [%s])", nObs, strings.Join(vs, ";")),
			input{Kind: "runs", Scen: &scc, Wk: ms},
			map[string]interface{}{"runs": tags, "first_difference": diff, "blocks": len(sc.Blocks), "txs": ntx, "note": note,
				"per_block_proposed_kept_ok_pack_localkvs": stats})
	}
	var all []runRes
	for i := range out {
		all = append(all, out[i].rs...)
	}
	emitRoots(o, roots, ms, all)
	return nil
}

func max(a, b int) int {
	if a > b {
		return a
	}
	return b
}

func main() {
	opts := hlib.ParseFlags()
	if strings.HasPrefix(opts.Extra, "worker:") {
		genCfg = types.NewChain33Config(types.GetDefaultCfgstring())
		workerMain(strings.TrimPrefix(opts.Extra, "worker:"))
		return
	}
	quiet()
	genCfg = types.NewChain33Config(types.GetDefaultCfgstring())
	o := hlib.NewOut(opts.OutDir)
	defer o.Close()
	r := hlib.NewRng(opts.Seed)
	e := &env{cfg: genCfg, o: o}
	e.prepare(r)
	timeout := 240 * time.Second
	if opts.Thorough() {
		timeout = 1500 * time.Second
	}
	if opts.Replay != "" {
		var in input
		if err := hlib.ReplayInput(opts.Replay, &in); err != nil {
			fmt.Println("replay:", err)
			os.Exit(2)
		}
		if in.Kind == "troot" && in.Root != nil {
			if err := repeated(o, nil, []rootSpec{*in.Root}, in.Wk, opts.Seed, opts.OutDir, timeout); err != nil {
				fmt.Println(err)
				o.Close()
				os.Exit(3)
			}
			return
		}
		if in.Kind == "runs" {
			if err := repeated(o, []scen{*in.Scen}, nil, in.Wk, opts.Seed, opts.OutDir, timeout); err != nil {
				fmt.Println(err)
				o.Close()
				os.Exit(3)
			}
			return
		}
		e.run(in)
		return
	}
	t0 := time.Now()
	e.combinators(r.Fork(), opts.Thorough())
	// scenarios
	nsc, nblocks := 3, 5
	if opts.Thorough() {
		nsc, nblocks = 10, 8
	}
	rs := r.Fork()
	var scens []scen
	for i := 0; i < nsc; i++ {
		sc := genScenario(rs, i, nblocks+rs.Intn(3))
		sc.Stat = i%2 == 1
		sc.MVCC = false // enableMVCC on a test node panics in StateDB.enableMVCC ("must be synchronized from 0 height")
		sc.AddrFee = i%3 == 2
		scens = append(scens, sc)
	}
	roots := rootSizes(r.Fork(), opts.Thorough())
	t1 := time.Now()
	if err := repeated(o, scens, roots, modes(opts.Thorough()), opts.Seed, opts.OutDir, timeout); err != nil {
		fmt.Println(err)
		o.Close()
		os.Exit(3)
	}
	fmt.Printf("hC13: combinators %.1fs, repeated runs %.1fs\n", t1.Sub(t0).Seconds(), time.Since(t1).Seconds())
	fmt.Printf("hC13: %d cases\n", o.Count())
}
