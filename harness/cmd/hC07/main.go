// hC07: drives common/db ListHelper (List / PrefixCount) on single GoMemDB / GoLevelDB
// databases and on merged layers, with a paging client that continues from the last key.
package main

import (
	"bytes"
	"encoding/hex"
	"fmt"
	"os"
	"path/filepath"

	"github.com/33cn/chain33/common/db"
	clog "github.com/33cn/chain33/common/log"
	"github.com/33cn/chain33/types"
	"verifharness/hlib"
)

type input struct {
	Op      string      `json:"op"` // list | count | pages
	Merged  bool        `json:"merged"`
	Backend []string    `json:"backend"` // per layer: memdb | leveldb
	Layers  [][]hlib.KV `json:"layers"`
	Prefix  string      `json:"prefix"`
	Key     string      `json:"key,omitempty"`
	Count   int32       `json:"count"`
	Dir     int32       `json:"dir"`
	Stem    [][2]int    `json:"stem,omitempty"`  // long-key cases: the common stem, run-length encoded
	Items   []string    `json:"items,omitempty"` // op self: the byte strings of the literal self-check
}

type env struct {
	out   *hlib.Out
	ldb   []db.DB // reusable on-disk databases, one per layer slot
	ldbOK bool
	// long-key streams: the stem the case terms are written around (none: plain hex)
	st   hlib.Stem
	stem []byte
}

func (e *env) setStem(runs [][2]int) {
	e.st = hlib.Stem{Runs: runs}
	e.stem = e.st.Bytes()
}

func (e *env) hx(b []byte) string        { return hlib.H1Stem(b, e.stem) }
func (e *env) hb(items [][]byte) string  { return hlib.HBStem(items, e.stem) }
func (e *env) ly(ls []hlib.Layer) string { return hlib.LayersCoqStem(ls, e.stem) }
func (e *env) wrap(term string) string   { return hlib.WithStem(e.st, e.stem, term) }
func (e *env) in(i input) input          { i.Stem = e.st.Runs; return i }

func (e *env) openLdb(dir string) {
	for i := 0; i < 3; i++ {
		d, err := db.NewGoLevelDB(fmt.Sprintf("c07ldb%d", i), dir, 4)
		if err != nil {
			panic(err)
		}
		e.ldb = append(e.ldb, d)
	}
	e.ldbOK = true
}

func clearDB(d db.DB) {
	it := d.Iterator(nil, types.EmptyValue, false)
	var ks [][]byte
	for it.Rewind(); it.Valid(); it.Next() {
		ks = append(ks, append([]byte{}, it.Key()...))
	}
	it.Close()
	for _, k := range ks {
		if err := d.Delete(k); err != nil {
			panic(err)
		}
	}
}

// build makes the databases for the layers.
func (e *env) build(layers []hlib.Layer, backend []string) []db.DB {
	dbs := make([]db.DB, len(layers))
	for i, l := range layers {
		var d db.DB
		if backend[i] == "leveldb" {
			d = e.ldb[i]
			clearDB(d)
		} else {
			m, err := db.NewGoMemDB("", "", 0)
			if err != nil {
				panic(err)
			}
			d = m
		}
		for _, k := range l.SortedKeys() {
			if err := d.Set(k, l[string(k)]); err != nil {
				panic(err)
			}
		}
		dbs[i] = d
	}
	return dbs
}

func helper(dbs []db.DB, merged bool) *db.ListHelper {
	if !merged {
		return db.NewListHelper(dbs[0])
	}
	its := make([]db.IteratorDB, len(dbs))
	for i, d := range dbs {
		its[i] = d
	}
	return db.NewListHelper(db.NewMergedIteratorDB(its))
}

func fuelOf(layers []hlib.Layer) int {
	n := 2
	for _, l := range layers {
		n += len(l)
	}
	return n
}

// keyOf recovers the key of a returned item the way a client does: from the item itself
// (key-only, key+value) or from the value (values are unique per key in the generated data).
func keyOf(item []byte, d int32, val2key map[string][]byte) []byte {
	if d&db.ListKeyOnly != 0 {
		return item
	}
	if d&db.ListWithKey != 0 {
		var kv types.KeyValue
		if err := types.Decode(item, &kv); err != nil {
			panic(err)
		}
		return kv.Key
	}
	k, ok := val2key[string(item)]
	if !ok {
		panic("value without key: " + hex.EncodeToString(item))
	}
	return k
}

func val2key(layers []hlib.Layer) map[string][]byte {
	m := map[string][]byte{}
	for _, l := range layers {
		for k, v := range l {
			if len(v) > 0 {
				m[string(v)] = []byte(k)
			}
		}
	}
	return m
}

func toInput(op string, merged bool, backend []string, layers []hlib.Layer, prefix, key []byte, count, d int32) input {
	in := input{Op: op, Merged: merged, Backend: backend, Prefix: hlib.HexS(prefix), Key: hlib.HexS(key), Count: count, Dir: d}
	for _, l := range layers {
		in.Layers = append(in.Layers, l.JSON())
	}
	return in
}

func safe(f func()) (panicked string) {
	defer func() {
		if r := recover(); r != nil {
			panicked = fmt.Sprint(r)
		}
	}()
	f()
	return ""
}

func (e *env) runList(kind string, merged bool, backend []string, layers []hlib.Layer, prefix, key []byte, count, d int32) {
	dbs := e.build(layers, backend)
	lh := helper(dbs, merged)
	var res [][]byte
	if p := safe(func() { res = lh.List(prefix, key, count, d) }); p != "" {
		res = [][]byte{[]byte("PANIC " + p)}
	}
	e.out.Emit(kind, len(res) > 0,
		e.wrap(hlib.App("CList", hlib.Bool(merged), e.ly(layers), e.hx(prefix), e.hx(key),
			hlib.Z(int64(count)), hlib.Z(int64(d)), e.hb(res))),
		e.in(toInput("list", merged, backend, layers, prefix, key, count, d)), hexes(res))
}

func (e *env) runCount(kind string, merged bool, backend []string, layers []hlib.Layer, prefix []byte) {
	dbs := e.build(layers, backend)
	lh := helper(dbs, merged)
	var c int64
	if p := safe(func() { c = lh.PrefixCount(prefix) }); p != "" {
		c = -1
	}
	e.out.Emit(kind, c > 0,
		e.wrap(hlib.App("CCount", hlib.Bool(merged), e.ly(layers), e.hx(prefix), hlib.Z(c))),
		e.in(toInput("count", merged, backend, layers, prefix, nil, 0, 0)), c)
}

func (e *env) runPages(kind string, merged bool, backend []string, layers []hlib.Layer, prefix []byte, n, d int32) {
	dbs := e.build(layers, backend)
	e.runPagesOn(kind, dbs, merged, backend, layers, prefix, n, d)
}

func (e *env) runPagesOn(kind string, dbs []db.DB, merged bool, backend []string, layers []hlib.Layer, prefix []byte, n, d int32) {
	lh := helper(dbs, merged)
	v2k := val2key(layers)
	var pages [][][]byte
	finished := false
	var key []byte
	// the client gives up after maxReq requests (every terminating run needs at most one request
	// per stored entry plus the final empty page): finished = false is the observable
	// "did not terminate" (impl = None in the case), which the spec rejects
	maxReq := fuelOf(layers)
	pan := safe(func() {
		for req := 0; req < maxReq; req++ {
			res := lh.List(prefix, key, n, d)
			if len(res) == 0 {
				finished = true
				return
			}
			pages = append(pages, res)
			key = keyOf(res[len(res)-1], d, v2k)
		}
	})
	if pan != "" {
		finished = true
		pages = append(pages, [][]byte{[]byte("PANIC " + pan)})
	}
	items := []string{}
	impl := [][]string{}
	total := 0
	for _, p := range pages {
		items = append(items, e.hb(p))
		impl = append(impl, hexes(p))
		total += len(p)
	}
	e.out.Emit(kind, total > 0,
		e.wrap(hlib.App("CPages", hlib.Bool(merged), e.ly(layers), e.hx(prefix),
			hlib.Z(int64(n)), hlib.Z(int64(d)), hlib.Opt(finished, hlib.List(items)))),
		e.in(toInput("pages", merged, backend, layers, prefix, nil, n, d)),
		map[string]interface{}{"finished": finished, "pages": impl})
}

func hexes(bs [][]byte) []string {
	out := []string{}
	for _, b := range bs {
		out = append(out, hlib.HexS(b))
	}
	return out
}

// ---------- generators ----------

var alphabet = []byte{0x00, 'a', 'b', 0xff}

func randKey(r *hlib.Rng, minLen, maxLen int) []byte {
	n := r.Range(minLen, maxLen)
	k := make([]byte, n)
	for i := range k {
		k[i] = hlib.Pick(r, alphabet)
	}
	return k
}

var prefixes = [][]byte{{}, []byte("a"), []byte("ab"), {0xff}, {0xff, 0xff}, {'a', 0xff}, []byte("b"), {'a', 0xff, 0xff}, {0x00}}

func bytesPrefix(p []byte) []byte {
	for i := len(p) - 1; i >= 0; i-- {
		if p[i] < 0xff {
			l := append([]byte{}, p[:i+1]...)
			l[i]++
			return l
		}
	}
	return nil
}

// genLayers makes nl layers around prefix p. allowEmptyKey=false keeps every key non-empty.
func genLayers(r *hlib.Rng, nl int, p []byte, maxPer int, allowEmptyKey bool) []hlib.Layer {
	// a common pool so that layers collide on keys
	pool := [][]byte{}
	np := r.Range(1, maxPer+2)
	for i := 0; i < np; i++ {
		var k []byte
		switch r.Intn(10) {
		case 0, 1:
			k = randKey(r, 1, 3) // anywhere
		case 2:
			if lim := bytesPrefix(p); lim != nil && r.Chance(1, 2) {
				k = lim // the exclusive upper bound itself
			} else {
				k = append([]byte{}, p...) // the prefix itself
			}
		default:
			k = append(append([]byte{}, p...), randKey(r, 0, 2)...)
		}
		if len(k) == 0 && !allowEmptyKey {
			k = []byte{hlib.Pick(r, alphabet)}
		}
		pool = append(pool, k)
	}
	layers := make([]hlib.Layer, nl)
	for li := range layers {
		l := hlib.Layer{}
		for _, k := range pool {
			if !r.Chance(3, 5) && nl > 1 {
				continue
			}
			if len(l) >= maxPer {
				break
			}
			if r.Chance(3, 10) {
				l[string(k)] = []byte{} // tombstone
			} else {
				l[string(k)] = append([]byte{byte('1' + li)}, k...) // unique per (layer, key)
			}
		}
		layers[li] = l
	}
	return layers
}

func underCount(layers []hlib.Layer, p []byte) int {
	seen := map[string]bool{}
	for _, l := range layers {
		for k := range l {
			if bytes.HasPrefix([]byte(k), p) {
				seen[k] = true
			}
		}
	}
	return len(seen)
}

func allKeys(layers []hlib.Layer) [][]byte {
	seen := hlib.Layer{}
	for _, l := range layers {
		for k := range l {
			seen[k] = nil
		}
	}
	return seen.SortedKeys()
}

var pageDirs = []int32{0, 1, 4, 5, 8, 9}
var oddDirs = []int32{3, 6, 7, 12, 13, 10, 11}

// genStem makes a run-length encoded stem of 120..200 bytes (around the 128-byte mark of
// mergedIterator's prevKey buffer), optionally starting like a local-db key.
var stemLens = []int{120, 124, 126, 127, 128, 129, 130, 132, 144, 160, 200}
var stemBytes = []byte{'a', 'b', 0x00, 0xff, '-', '0', 'a', 'b'}

func genStem(r *hlib.Rng) [][2]int {
	total := hlib.Pick(r, stemLens)
	runs := [][2]int{}
	if r.Chance(1, 3) {
		for _, c := range []byte("LODB-") {
			runs = append(runs, [2]int{int(c), 1})
		}
		total -= 5
	}
	nr := r.Range(1, 3)
	last := -1
	for i := 0; i < nr; i++ {
		n := total
		if i < nr-1 {
			n = r.Range(1, total-(nr-1-i))
		}
		b := int(hlib.Pick(r, stemBytes))
		for b == last || (i == nr-1 && b == 0xff && !r.Chance(1, 3)) {
			b = int(hlib.Pick(r, stemBytes))
		}
		runs = append(runs, [2]int{b, n})
		last = b
		total -= n
	}
	return runs
}

// selfCheck emits the stem notation next to plain hex for a few byte strings.
func (e *env) selfCheck(kind string, items [][]byte) {
	e.out.Emit(kind, true, e.wrap(hlib.App("CSelf", e.hb(items), hlib.HB(items))),
		e.in(input{Op: "self", Items: hexes(items)}), hexes(items))
}

// longSet: one key set whose keys share the long stem, with everything the guarded short-key
// stream does on a set: the paging client for every page size and direction, PrefixCount, single
// List calls continuing from stored / absent keys.
func (e *env) longSet(r *hlib.Rng, s int, nl int, merged bool, maxPer int, useLdb bool) {
	e.setStem(genStem(r))
	defer e.setStem(nil)
	stem := e.stem
	cut := func(b []byte) []byte { return append([]byte{}, b[:len(b)-1]...) }
	with := func(b []byte, c ...byte) []byte { return append(append([]byte{}, b...), c...) }
	// the prefix the keys are generated around
	var p []byte
	switch r.Intn(10) {
	case 0, 1:
		p = with(stem, hlib.Pick(r, alphabet))
	case 2:
		p = with(stem, 0xff, 0xff)
	case 3, 4:
		p = cut(stem)
	default:
		p = with(stem)
	}
	layers := genLayers(r, nl, p, maxPer, false)
	// the prefix that is listed: mostly the same, sometimes a shorter one
	pl := p
	switch r.Intn(10) {
	case 0:
		pl = []byte{}
	case 1:
		pl = with(p[:1])
	case 2:
		pl = cut(p)
	}
	backend := e.backends(r, nl, useLdb)
	tag := fmt.Sprintf("long-L%d", nl)
	if !merged {
		if backend[0] = "memdb"; useLdb && e.ldbOK {
			backend[0] = "leveldb" // the single-database path: both backends for sure
		}
		tag = "long-single-" + backend[0]
	}
	if s < 4 || s%16 == 0 {
		e.selfCheck("long-selfcheck", [][]byte{stem, cut(stem), cut(cut(stem)), p, bytesPrefix(p), bytesPrefix(cut(stem)), with(p, 'a', 0x00), with([]byte{0x0a, 0x96, 0x01}, stem...)})
	}
	t := underCount(layers, pl)
	dirs := append([]int32{}, pageDirs...)
	dirs = append(dirs, hlib.Pick(r, oddDirs))
	dbs := e.build(layers, backend)
	for _, d := range dirs {
		for n := int32(0); n <= int32(t)+1; n++ {
			e.runPagesOn("pages-"+tag, dbs, merged, backend, layers, pl, n, d)
		}
	}
	e.runCount("count-"+tag, merged, backend, layers, pl)
	e.runCount("count-"+tag, merged, backend, layers, stem)
	e.runCount("count-"+tag, merged, backend, layers, with(p, randKey(r, 0, 1)...))
	keys := allKeys(layers)
	for i := 0; i < 9; i++ {
		var key []byte
		switch r.Intn(5) {
		case 0:
			key = randKey(r, 1, 3)
		case 1:
			key = with(p, randKey(r, 0, 2)...)
		default:
			if len(keys) > 0 {
				key = hlib.Pick(r, keys)
			}
		}
		count := hlib.Pick(r, []int32{-1, 0, 1, 1, 2, 3, int32(t), int32(t) + 1})
		d := int32(r.Intn(16))
		if r.Chance(1, 4) {
			d, count = 2, 1 // the "seek" request
		}
		e.runList("list-"+tag, merged, backend, layers, pl, key, count, d)
	}
}

func (e *env) backends(r *hlib.Rng, nl int, useLdb bool) []string {
	b := make([]string, nl)
	for i := range b {
		b[i] = "memdb"
		if useLdb && e.ldbOK && r.Chance(1, 2) {
			b[i] = "leveldb"
		}
	}
	return b
}

func main() {
	opts := hlib.ParseFlags()
	clog.SetLogLevel("crit") // ListHelper logs an error line for every Seek beyond the range
	o := hlib.NewOut(opts.OutDir)
	defer o.Close()
	e := &env{out: o}
	tmp := filepath.Join(opts.OutDir, "ldbtmp")
	os.RemoveAll(tmp)
	if err := os.MkdirAll(tmp, 0o755); err != nil {
		panic(err)
	}
	defer os.RemoveAll(tmp)
	e.openLdb(tmp)
	defer func() {
		for _, d := range e.ldb {
			d.Close()
		}
	}()

	if opts.Replay != "" {
		var in input
		if err := hlib.ReplayInput(opts.Replay, &in); err != nil {
			panic(err)
		}
		layers := []hlib.Layer{}
		for _, jl := range in.Layers {
			l := hlib.Layer{}
			for _, kv := range jl {
				k, _ := hex.DecodeString(kv.Key)
				v, _ := hex.DecodeString(kv.Val)
				l[string(k)] = v
			}
			layers = append(layers, l)
		}
		prefix, _ := hex.DecodeString(in.Prefix)
		key, _ := hex.DecodeString(in.Key)
		e.setStem(in.Stem)
		switch in.Op {
		case "list":
			e.runList("replay", in.Merged, in.Backend, layers, prefix, key, in.Count, in.Dir)
		case "count":
			e.runCount("replay", in.Merged, in.Backend, layers, prefix)
		case "pages":
			e.runPages("replay", in.Merged, in.Backend, layers, prefix, in.Count, in.Dir)
		case "self":
			items := [][]byte{}
			for _, h := range in.Items {
				b, _ := hex.DecodeString(h)
				items = append(items, b)
			}
			e.selfCheck("replay", items)
		}
		return
	}

	r := hlib.NewRng(opts.Seed)
	nsets := 24
	maxPer := 6
	nlong := 16
	maxPerLong := 6
	if opts.Thorough() {
		nsets = 700
		maxPer = 8
		nlong = 240
		maxPerLong = 7
	}
	shapes := []struct {
		nl     int
		merged bool
	}{{1, false}, {1, true}, {2, true}, {3, true}}

	// guarded streams: non-empty keys, prefixes whose bound is not EmptyValue
	for s := 0; s < nsets; s++ {
		sh := shapes[s%len(shapes)]
		p := prefixes[(s/len(shapes))%len(prefixes)]
		layers := genLayers(r, sh.nl, p, maxPer, false)
		backend := e.backends(r, sh.nl, s%3 == 0)
		tag := fmt.Sprintf("L%d", sh.nl)
		if !sh.merged {
			tag = "single-" + backend[0]
		}
		t := underCount(layers, p)
		dirs := append([]int32{}, pageDirs...)
		dirs = append(dirs, hlib.Pick(r, oddDirs))
		dbs := e.build(layers, backend)
		for _, d := range dirs {
			for n := int32(0); n <= int32(t)+1; n++ {
				e.runPagesOn("pages-"+tag, dbs, sh.merged, backend, layers, p, n, d)
			}
		}
		// prefix counts: the generating prefix and two others
		e.runCount("count-"+tag, sh.merged, backend, layers, p)
		e.runCount("count-"+tag, sh.merged, backend, layers, hlib.Pick(r, prefixes))
		e.runCount("count-"+tag, sh.merged, backend, layers, randKey(r, 0, 2))
		// single List calls with arbitrary keys / counts / direction words
		keys := allKeys(layers)
		for i := 0; i < 9; i++ {
			var key []byte
			switch r.Intn(4) {
			case 0:
				key = randKey(r, 1, 3)
			case 1:
				key = append(append([]byte{}, p...), randKey(r, 0, 2)...)
			default:
				if len(keys) > 0 {
					key = hlib.Pick(r, keys)
				}
			}
			count := hlib.Pick(r, []int32{-1, 0, 1, 1, 2, 3, int32(t), int32(t) + 1})
			d := int32(r.Intn(16))
			if r.Chance(1, 4) {
				d, count = 2, 1 // the "seek" request
			}
			pp := p
			if r.Chance(1, 5) {
				pp = hlib.Pick(r, prefixes)
			}
			e.runList("list-"+tag, sh.merged, backend, layers, pp, key, count, d)
		}
	}

	// unrestricted stream 1: the prefix whose upper bound equals types.EmptyValue
	ev := types.EmptyValue
	p0 := append([]byte{}, ev...)
	p0[len(p0)-1]--
	for s := 0; s < 6; s++ {
		nl := 1 + s%3
		layers := make([]hlib.Layer, nl)
		for i := range layers {
			layers[i] = hlib.Layer{}
		}
		put := func(k []byte) {
			li := r.Intn(nl)
			layers[li][string(k)] = append([]byte{byte('1' + li)}, k...)
		}
		put(append(append([]byte{}, p0...), 'x'))
		put(p0)
		put(ev)
		put(append(append([]byte{}, ev...), 'a'))
		put([]byte("G"))
		put([]byte("z"))
		put([]byte("A"))
		backend := e.backends(r, nl, s%2 == 0)
		merged := nl > 1 || s%2 == 0
		e.runCount("emptyvalue-prefix", merged, backend, layers, p0)
		for _, d := range []int32{0, 1, 8, 9} {
			e.runPages("emptyvalue-prefix", merged, backend, layers, p0, int32(1+s%3), d)
			e.runList("emptyvalue-prefix", merged, backend, layers, p0, nil, 0, d)
		}
	}
	// unrestricted stream 2: the empty key is stored
	for s := 0; s < 8; s++ {
		nl := 1 + s%3
		layers := genLayers(r, nl, nil, 4, true)
		layers[r.Intn(nl)][""] = []byte("v-empty")
		backend := e.backends(r, nl, false)
		merged := nl > 1 || s%2 == 0
		e.runCount("empty-key", merged, backend, layers, nil)
		for _, d := range []int32{0, 1, 8, 9} {
			e.runPages("empty-key", merged, backend, layers, nil, int32(1+s%2), d)
			e.runList("empty-key", merged, backend, layers, nil, nil, 0, d)
		}
	}

	// long-key stream (guarded): keys of 120..200 bytes sharing one stem, 2 / 3 merged layers with
	// duplicates and tombstones, one merged layer, and the single-database path
	longShapes := []struct {
		nl     int
		merged bool
	}{{2, true}, {3, true}, {1, false}, {3, true}, {2, true}, {1, true}, {3, true}, {1, false}}
	rl := hlib.NewRng(opts.Seed ^ 0xC07B)
	for s := 0; s < nlong; s++ {
		sh := longShapes[s%len(longShapes)]
		useLdb := s%3 == 2
		if !sh.merged {
			useLdb = s%len(longShapes) == 2
		}
		e.longSet(rl, s, sh.nl, sh.merged, maxPerLong, useLdb)
	}
}
