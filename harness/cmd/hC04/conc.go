package main

import (
	"sort"
	"sync"

	"verifharness/hlib"
)

const workers = 8

// runPhase: the programs of one phase are handed to a pool of 8 worker goroutines and run
// concurrently through the store module's queue; inside a program the operations follow each
// other, R = -1 names the root the previous operation of the program returned.
func (r *runner) runPhase(progs [][]Op) {
	var mu sync.Mutex
	var wg, ready sync.WaitGroup
	start := make(chan struct{})
	ch := make(chan []Op, len(progs))
	ready.Add(len(progs)) // len(progs) <= workers: every program gets its own goroutine
	for w := 0; w < workers; w++ {
		wg.Add(1)
		go func() {
			defer wg.Done()
			<-start
			for prog := range ch {
				ready.Done()
				ready.Wait() // fire together
				prev := -1
				for _, op := range prog {
					if op.R == -1 {
						if prev < 0 {
							break
						}
						op.R = prev
					}
					o := r.exec(op)
					mu.Lock()
					r.steps = append(r.steps, op)
					r.outs = append(r.outs, o)
					mu.Unlock()
					prev = -1
					if o.C == "root" {
						prev = o.Tok
					}
				}
			}
		}()
	}
	for _, p := range progs {
		ch <- p
	}
	close(ch)
	close(start)
	wg.Wait()
}

// steps in invocation order
func (r *runner) sortSteps() {
	idx := make([]int, len(r.steps))
	for i := range idx {
		idx[i] = i
	}
	sort.Slice(idx, func(a, b int) bool { return r.outs[idx[a]].Inv < r.outs[idx[b]].Inv })
	steps := make([]Op, len(idx))
	outs := make([]Out, len(idx))
	for i, j := range idx {
		steps[i], outs[i] = r.steps[j], r.outs[j]
	}
	r.steps, r.outs = steps, outs
}

// the harness's view after a phase (any order of the recorded replies gives the same sets,
// up to what raced inside the phase; it is only used to choose the next operations)
func (r *runner) viewFrom(from int, v *view) {
	for i := from; i < len(r.steps); i++ {
		v.note(r.steps[i], r.outs[i])
	}
}

// replay of a recorded concurrent history
func replayConc(h *History) *runner {
	h.Queue = true
	r := newRunner(h)
	for pi, progs := range h.Phases {
		sink.phase(progs)
		if pi == 0 {
			for _, op := range progs[0] {
				r.do(op)
			}
			continue
		}
		r.runPhase(progs)
	}
	r.epilogue()
	r.sortSteps()
	return r
}

// genConc: prologue (two committed roots, roots predicted through the foreign store),
// 2-4 concurrent phases of at most 6 operations, epilogue (reads, reopen, reads).
//
// What a phase may contain is restricted to what the model can explain at OPERATION
// granularity; the Go store is not atomic beyond that, and the following races are left out on
// purpose (they are intra-operation interleavings, see the report):
//   - Store.Get walking a pending *Tree while Commit's save() empties the same object;
//   - two of Commit / Rollback on the same hash at once (Load and Delete on the table are two
//     steps: both callers can be acknowledged; two Commits would save one *Tree twice).
//
// So per phase every hash has at most one consumer (Commit or Rollback), a hash that is being
// committed is not read while it may still be pending, and "commit phases" read committed
// roots only.
func genConc(rng *hlib.Rng) *runner {
	for {
		h := &History{Kind: "conc", Prefix: rng.Chance(1, 4), Queue: true}
		tables(rng, h, rng.Range(3, 5))
		r := newRunner(h)
		v := newView()
		base := randKV(rng, h, 2, 3)
		child := randKV(rng, h, 1, 2)
		pro := []Op{{T: "set", R: 0, KV: base, H: 1}, {T: "set", R: 2, KV: child, H: 2}}
		npred := rng.Range(1, 2)
		var pred [][][2]int
		for i := 0; i < npred; i++ {
			kv := randKV(rng, h, 1, 2)
			pred = append(pred, kv)
			pro = append(pro, Op{T: "foreign", KV: kv})
		}
		sink.phase([][]Op{pro})
		for _, op := range pro {
			r.do(op)
		}
		// token 2 = base root, 3 = its child, 4.. = predicted roots of updates of the empty
		// root: only if all of them differ
		if len(r.hashes) != 4+npred {
			r.cleanup()
			continue
		}
		h.Phases = append(h.Phases, [][]Op{pro})
		r.viewFrom(0, v)
		nph := rng.Range(2, 4)
		for p := 0; p < nph; p++ {
			from := len(r.steps)
			progs := genPhase(rng, h, v, pred, int64(3+p))
			h.Phases = append(h.Phases, progs)
			sink.phase(progs)
			r.runPhase(progs)
			r.viewFrom(from, v)
		}
		r.epilogue()
		r.sortSteps()
		return r
	}
}

func genPhase(rng *hlib.Rng, h *History, v *view, pred [][][2]int, height int64) [][]Op {
	var progs [][]Op
	budget := 6
	commitPhase := rng.Chance(3, 5)
	consumed := map[int]bool{}
	committed := append([]int{}, v.committed...)
	// known hashes that may be pending: what the view says + the predicted roots
	cands := append([]int{}, v.pending...)
	for i := range pred {
		if !has(cands, 4+i) {
			cands = append(cands, 4+i)
		}
	}
	for tries := 0; budget > 0 && len(progs) < 6 && tries < 30; tries++ {
		var prog []Op
		switch x := rng.Intn(10); {
		case x < 3: // a pending update of a committed root
			prog = append(prog, Op{T: "memset", R: hlib.Pick(rng, committed), KV: randKV(rng, h, 1, 2), H: height})
			if !commitPhase && budget >= 2 && rng.Chance(1, 2) {
				prog = append(prog, Op{T: "get", R: -1})
			}
		case x < 5: // the predicted update itself
			prog = append(prog, Op{T: "memset", R: 0, KV: pred[rng.Intn(len(pred))], H: height})
		case x < 8: // one consumer per hash
			t := hlib.Pick(rng, cands)
			if consumed[t] {
				continue
			}
			kind := "rollback"
			if commitPhase && rng.Chance(2, 3) {
				kind = "commit"
			}
			consumed[t] = true
			prog = append(prog, Op{T: kind, R: t})
		default:
			var pool []int
			if commitPhase { // nothing that may be pending
				for _, t := range committed {
					if !has(cands, t) {
						pool = append(pool, t)
					}
				}
			} else {
				pool = append(append([]int{}, committed...), cands...)
			}
			prog = append(prog, Op{T: "get", R: hlib.Pick(rng, pool)})
		}
		budget -= len(prog)
		progs = append(progs, prog)
	}
	if len(progs) < 2 {
		progs = append(progs, []Op{{T: "get", R: 2}})
	}
	return progs
}

// epilogue: read every root seen so far, reopen, read again
func (r *runner) epilogue() {
	n := len(r.hashes)
	for t := 0; t < n; t++ {
		r.do(Op{T: "get", R: t})
	}
	r.do(Op{T: "restart"})
	for t := 0; t < n; t++ {
		r.do(Op{T: "get", R: t})
	}
}
