// hC04: drives chain33's mavl store module (system/store/mavl, system/store/base.go)
// through generated interleavings of pending updates (MemSet), commits, rollbacks,
// direct sets, reads and restarts, and records every reply:
//   - sequential histories (direct calls of the store methods, or messages through the
//     module's queue), with a read at every committed root after every step and after
//     reopening the database;
//   - concurrent histories: 8 worker goroutines send EventStoreMemSet/Commit/Rollback/Get
//     to a real store module through the queue; every operation is stamped with the
//     logical time of its invocation and of its reply.
//
// The histories run in CHILD processes (child.go): the store serves every request in a goroutine
// of its own, so a panic of the implementation there cannot be recovered and kills the process.
// The parent re-executes this binary with "--extra child", hands it a batch of jobs and reads
// one event per line (history header, operation about to start, reply, finished case).  When a
// child dies, the history it was working on is run again alone in a fresh process; if it dies
// again the history is emitted as a case whose operation in flight has the reply "crashed"
// (OCrashed in Check.v: never predicted by the model, rejected by the specification oracle),
// with everything observed before the crash kept.
package main

import (
	"encoding/hex"
	"encoding/json"
	"fmt"
	"os"
	"path/filepath"
	"strings"
	"sync"
	"sync/atomic"
	"time"

	clog "github.com/33cn/chain33/common/log"
	"github.com/33cn/chain33/queue"
	"github.com/33cn/chain33/system/store/mavl"
	mavldb "github.com/33cn/chain33/system/store/mavl/db"
	"github.com/33cn/chain33/types"
	"verifharness/hlib"
)

// ---------- history description (also the replay format) ----------

// Op kinds: memset, set, commit, rollback, get, restart, foreign, count, idle (nothing: only
// recorded when the process died while no operation was in flight).
type Op struct {
	T    string   `json:"t"`
	R    int      `json:"r,omitempty"`  // root token (parent for memset/set); -1 = result of the previous op of the program
	KV   [][2]int `json:"kv,omitempty"` // (key index, value index)
	H    int64    `json:"h,omitempty"`  // block height
	Sync bool     `json:"sync,omitempty"`
}

// Out: what the implementation answered.
type Out struct {
	C    string `json:"c"`              // root, vals, notexist, notfound, panic, other, unit, num, crashed
	Tok  int    `json:"tok,omitempty"`  // for root
	Vals []int  `json:"vals,omitempty"` // 0 = nil/empty, i+1 = value i
	N    int    `json:"n,omitempty"`
	Note string `json:"note,omitempty"`
	Inv  uint64 `json:"inv,omitempty"`
	Resp uint64 `json:"resp,omitempty"`
}

type History struct {
	Kind   string   `json:"kind"`
	Prefix bool     `json:"prefix"`
	Queue  bool     `json:"queue"` // operations travel through the store module's queue
	Keys   []string `json:"keys"`  // hex
	Vals   []string `json:"vals"`  // hex
	Ops    []Op     `json:"ops,omitempty"`
	// concurrent histories: phases of programs run by the worker pool, between
	// sequential prologue / epilogue operations
	Phases [][][]Op `json:"phases,omitempty"`
}

// ---------- implementation side ----------

type runner struct {
	h      *History
	dir    string
	fdir   string
	st     *mavl.Store
	fst    *mavl.Store // unrelated store for foreign roots
	q      queue.Queue
	cli    queue.Client
	keys   [][]byte
	vals   [][]byte
	mu     sync.Mutex
	toks   map[string]int
	hashes [][]byte
	clk    atomic.Uint64
	steps  []Op
	outs   []Out
}

var dirSeq int

func scratchBase() string {
	if fi, err := os.Stat("/dev/shm"); err == nil && fi.IsDir() {
		return "/dev/shm"
	}
	return os.TempDir()
}

func newRunner(h *History) *runner {
	dirSeq++
	base := filepath.Join(scratchBase(), fmt.Sprintf("hC04-%d-%d", os.Getpid(), dirSeq))
	if d := os.Getenv(scratchEnv); d != "" { // a child: below the directory the parent removes
		base = filepath.Join(d, fmt.Sprint(dirSeq))
	}
	os.RemoveAll(base)
	r := &runner{h: h, dir: filepath.Join(base, "main"), fdir: filepath.Join(base, "foreign"), toks: map[string]int{}}
	for _, k := range h.Keys {
		b, _ := hex.DecodeString(k)
		r.keys = append(r.keys, b)
	}
	for _, v := range h.Vals {
		b, _ := hex.DecodeString(v)
		r.vals = append(r.vals, b)
	}
	r.toks[""] = 0
	r.toks[string(make([]byte, 32))] = 1
	r.hashes = [][]byte{nil, make([]byte, 32)}
	sink.begin(h) // before the store is opened: a crash in there belongs to this history
	r.open()
	return r
}

func (r *runner) sub() []byte {
	if r.h.Prefix {
		return []byte(`{"enableMavlPrefix":true}`)
	}
	return []byte(`{"enableMavlPrefix":false}`)
}

func (r *runner) open() {
	cfg := &types.Store{Name: "mavl", Driver: "leveldb", DbPath: r.dir, DbCache: 16}
	r.st = mavl.New(cfg, r.sub(), nil).(*mavl.Store)
	if r.h.Queue {
		r.q = queue.New("channel")
		r.st.SetQueueClient(r.q.Client())
		r.cli = r.q.Client()
	}
}

func (r *runner) closeStore() {
	r.st.Close()
	if r.q != nil {
		r.q.Close()
		r.q = nil
	}
}

func (r *runner) cleanup() {
	r.closeStore()
	if r.fst != nil {
		r.fst.Close()
	}
	os.RemoveAll(filepath.Dir(r.dir))
}

func (r *runner) tok(hash []byte) int {
	r.mu.Lock()
	defer r.mu.Unlock()
	if t, ok := r.toks[string(hash)]; ok {
		return t
	}
	t := len(r.hashes)
	r.toks[string(hash)] = t
	r.hashes = append(r.hashes, append([]byte{}, hash...))
	return t
}

func (r *runner) hash(t int) []byte {
	r.mu.Lock()
	defer r.mu.Unlock()
	if t < 0 || t >= len(r.hashes) { // a token nothing has returned (only after an unexpected reply)
		h := make([]byte, 32)
		for i := range h {
			h[i] = 0xee
		}
		return h
	}
	return r.hashes[t]
}

func (r *runner) kvs(op Op) []*types.KeyValue {
	var kv []*types.KeyValue
	for _, p := range op.KV {
		kv = append(kv, &types.KeyValue{Key: r.keys[p[0]], Value: r.vals[p[1]]})
	}
	return kv
}

func (r *runner) valCodes(vs [][]byte) []int {
	out := make([]int, len(vs))
	for i, v := range vs {
		if len(v) == 0 {
			continue
		}
		out[i] = 9999 // a value that is not in the table
		for j, w := range r.vals {
			if string(v) == string(w) {
				out[i] = j + 1
				break
			}
		}
	}
	return out
}

func classify(err error) string {
	switch {
	case err == mavldb.ErrNodeNotExist:
		return "notexist"
	case err == types.ErrHashNotFound:
		return "notfound"
	}
	return "other"
}

// direct: call the store's methods.
func (r *runner) direct(op Op) (o Out) {
	defer func() {
		if e := recover(); e != nil {
			o = Out{C: "panic", Note: firstLine(fmt.Sprint(e))}
		}
	}()
	switch op.T {
	case "memset", "set":
		ds := &types.StoreSet{StateHash: r.hash(op.R), KV: r.kvs(op), Height: op.H}
		var h []byte
		var err error
		if op.T == "memset" {
			h, err = r.st.MemSet(ds, op.Sync)
		} else {
			h, err = r.st.Set(ds, op.Sync)
		}
		if err != nil {
			return Out{C: classify(err)}
		}
		return Out{C: "root", Tok: r.tok(h)}
	case "commit", "rollback":
		req := &types.ReqHash{Hash: r.hash(op.R)}
		var h []byte
		var err error
		if op.T == "commit" {
			h, err = r.st.Commit(req)
		} else {
			h, err = r.st.Rollback(req)
		}
		if err != nil {
			return Out{C: classify(err)}
		}
		return Out{C: "root", Tok: r.tok(h)}
	case "get":
		vs := r.st.Get(&types.StoreGet{StateHash: r.hash(op.R), Keys: r.keys})
		return Out{C: "vals", Vals: r.valCodes(vs)}
	}
	return Out{C: "other", Note: "unknown op " + op.T}
}

// queued: the same operation as a message to the store module.
func (r *runner) queued(op Op) Out {
	var ty int64
	var data interface{}
	switch op.T {
	case "memset", "set":
		ty = types.EventStoreMemSet
		if op.T == "set" {
			ty = types.EventStoreSet
		}
		data = &types.StoreSetWithSync{Storeset: &types.StoreSet{StateHash: r.hash(op.R), KV: r.kvs(op), Height: op.H}, Sync: op.Sync}
	case "commit":
		ty, data = types.EventStoreCommit, &types.ReqHash{Hash: r.hash(op.R)}
	case "rollback":
		ty, data = types.EventStoreRollback, &types.ReqHash{Hash: r.hash(op.R)}
	case "get":
		ty, data = types.EventStoreGet, &types.StoreGet{StateHash: r.hash(op.R), Keys: r.keys}
	default:
		return Out{C: "other", Note: "unknown op " + op.T}
	}
	msg := r.cli.NewMessage("store", ty, data)
	if err := r.cli.Send(msg, true); err != nil {
		return Out{C: "other", Note: "send: " + err.Error()}
	}
	resp, err := r.cli.WaitTimeout(msg, 60*time.Second)
	if err != nil {
		return Out{C: classify(err), Note: firstLine(err.Error())}
	}
	switch d := resp.GetData().(type) {
	case *types.ReplyHash:
		return Out{C: "root", Tok: r.tok(d.Hash)}
	case *types.StoreReplyValue:
		return Out{C: "vals", Vals: r.valCodes(d.Values)}
	}
	return Out{C: "other", Note: fmt.Sprintf("reply %T", resp.GetData())}
}

func firstLine(s string) string {
	if i := strings.IndexByte(s, '\n'); i >= 0 {
		s = s[:i]
	}
	if len(s) > 120 {
		s = s[:120]
	}
	return s
}

// ---------- main ----------

// caseRec: one finished case (what goes to cases.jsonl).
type caseRec struct {
	Kind       string          `json:"kind"`
	Nontrivial bool            `json:"nontrivial"`
	Coq        string          `json:"coq"`
	Input      json.RawMessage `json:"input"`
	Impl       json.RawMessage `json:"impl"`
}

func caseKind(h *History, conc bool) string {
	kind := h.Kind
	if h.Prefix {
		kind += "+prefix"
	}
	if h.Queue && !conc {
		kind += "+queue"
	}
	return kind
}

// the case of a history that ran to its end (child side)
func finished(r *runner, v *view, conc bool) caseRec {
	r.h.Ops = nil
	if !conc {
		r.h.Ops = r.steps
	}
	nontrivial := true
	if v != nil {
		nontrivial = v.nontrivial()
	}
	in, _ := json.Marshal(r.h)
	impl, _ := json.Marshal(r.outs)
	c := caseRec{Kind: caseKind(r.h, conc), Nontrivial: nontrivial, Coq: r.coqCase(conc), Input: in, Impl: impl}
	r.cleanup()
	return c
}

// Job: one history to produce; the child generates it from the seed (generation follows the
// implementation's replies) or re-runs the recorded one.
type Job struct {
	Type string   `json:"type"` // fixed, replay, seq, reexec, conc
	Kind string   `json:"kind,omitempty"`
	Seed uint64   `json:"seed,omitempty"`
	Nops int      `json:"nops,omitempty"`
	Unr  bool     `json:"unr,omitempty"`
	H    *History `json:"h,omitempty"`
}

func (j Job) conc() bool {
	return j.Type == "conc" || (j.H != nil && len(j.H.Phases) > 0)
}

func runJob(j Job) caseRec {
	switch j.Type {
	case "fixed", "replay":
		if len(j.H.Phases) > 0 {
			return finished(replayConc(j.H), nil, true)
		}
		r, v := runRecorded(j.H)
		return finished(r, v, false)
	case "seq":
		r, v := genSeq(hlib.NewRng(j.Seed), j.Kind, j.Nops, j.Unr)
		return finished(r, v, false)
	case "reexec":
		r, v := genReexec(hlib.NewRng(j.Seed), j.Kind, j.Nops)
		return finished(r, v, false)
	case "conc":
		return finished(genConc(hlib.NewRng(j.Seed)), nil, true)
	}
	panic("hC04: unknown job type " + j.Type)
}

func main() {
	opts := hlib.ParseFlags()
	clog.SetLogLevel("crit")
	if opts.Extra == "child" {
		childMain()
		return
	}
	out := hlib.NewOut(opts.OutDir)
	defer out.Close()
	sup := newSupervisor(out)
	if opts.Replay != "" {
		var h History
		if err := hlib.ReplayInput(opts.Replay, &h); err != nil {
			fmt.Fprintln(os.Stderr, "replay:", err)
			os.Exit(2)
		}
		sup.run([]Job{{Type: "replay", H: &h}}, 1, 1)
		sup.flush()
		return
	}
	rng := hlib.NewRng(opts.Seed)
	var seq, conc []Job
	for _, h := range fixedHistories() {
		seq = append(seq, Job{Type: "fixed", H: h})
	}
	nSmall, nMed, nUnr, nRe, nConc, batch := 60, 40, 30, 48, 40, 24
	if opts.Thorough() {
		nSmall, nMed, nUnr, nRe, nConc, batch = 600, 500, 300, 600, 600, 60
	}
	rrng := hlib.NewRng(opts.Seed ^ 0x5eed04) // own stream: the older streams keep their histories
	for i := 0; i < nRe; i++ {                // small ones first
		seq = append(seq, Job{Type: "reexec", Kind: "reexec", Seed: rrng.U64(), Nops: rrng.Range(3, 9)})
	}
	for i := 0; i < nSmall; i++ {
		seq = append(seq, Job{Type: "seq", Kind: "guarded-small", Seed: rng.U64(), Nops: rng.Range(3, 7)})
	}
	for i := 0; i < nMed; i++ {
		seq = append(seq, Job{Type: "seq", Kind: "guarded-medium", Seed: rng.U64(), Nops: rng.Range(8, 16)})
	}
	for i := 0; i < nUnr; i++ {
		seq = append(seq, Job{Type: "seq", Kind: "unrestricted", Seed: rng.U64(), Nops: rng.Range(5, 12), Unr: true})
	}
	for i := 0; i < nConc; i++ {
		conc = append(conc, Job{Type: "conc", Seed: rng.U64()})
	}
	// sequential histories: two children at a time with two threads each; the concurrent ones
	// afterwards, one child with four threads (the machine is shared: at most 4 cores)
	sup.run(seq, batch, 2)
	sup.run(conc, batch, 1)
	sup.flush()
	fmt.Printf("hC04: %d cases, %d child processes, %d crashed histories\n", out.Count(), sup.nchild, sup.ncrash)
}
