package main

import (
	"encoding/hex"
	"fmt"
	"strings"

	"github.com/33cn/chain33/types"
	"verifharness/hlib"
)

// ---------- executing and recording one operation ----------

func (r *runner) exec(op Op) Out {
	var o Out
	inv := r.clk.Add(1)
	id := sink.op(op, inv) // (child) the parent knows what is in flight if the process dies now
	switch op.T {
	case "idle":
		o = Out{C: "unit"}
	case "restart":
		r.closeStore()
		r.open()
		o = Out{C: "unit"}
	case "foreign":
		o = r.foreign(op)
	case "count":
		o = Out{C: "num", N: r.dbCount()}
	default:
		if r.h.Queue {
			o = r.queued(op)
		} else {
			o = r.direct(op)
		}
	}
	o.Inv, o.Resp = inv, r.clk.Add(1)
	sink.out(id, o)
	return o
}

// do = exec + record (sequential parts only)
func (r *runner) do(op Op) Out {
	o := r.exec(op)
	r.steps = append(r.steps, op)
	r.outs = append(r.outs, o)
	return o
}

func (r *runner) dbCount() int {
	it := r.st.GetDB().Iterator(nil, nil, false)
	defer it.Close()
	n := 0
	for it.Rewind(); it.Valid(); it.Next() {
		n++
	}
	return n
}

// foreign: the root of these writes on an unrelated, empty store (never prefix-dependent).
func (r *runner) foreign(op Op) (o Out) {
	defer func() {
		if e := recover(); e != nil {
			o = Out{C: "panic", Note: firstLine(fmt.Sprint(e))}
		}
	}()
	if r.fst == nil {
		r.fst = newForeign(r.fdir)
	}
	h, err := r.fst.MemSet(&types.StoreSet{StateHash: nil, KV: r.kvs(op), Height: 1}, false)
	if err != nil {
		return Out{C: classify(err)}
	}
	r.fst.Rollback(&types.ReqHash{Hash: h})
	return Out{C: "root", Tok: r.tok(h)}
}

// ---------- Coq rendering ----------

func coqKV(kv [][2]int) string {
	items := make([]string, len(kv))
	for i, p := range kv {
		items[i] = fmt.Sprintf("(%d,%d)", p[0], p[1])
	}
	return "[" + strings.Join(items, ";") + "]"
}

func coqOp(op Op) string {
	switch op.T {
	case "memset":
		return fmt.Sprintf("IMemSet %d %s", op.R, coqKV(op.KV))
	case "set":
		return fmt.Sprintf("ISet %d %s", op.R, coqKV(op.KV))
	case "commit":
		return fmt.Sprintf("ICommit %d", op.R)
	case "rollback":
		return fmt.Sprintf("IRollback %d", op.R)
	case "get":
		return fmt.Sprintf("IGet %d", op.R)
	case "restart":
		return "IRestart"
	case "foreign":
		return "IForeign " + coqKV(op.KV)
	case "count":
		return "ICount"
	case "idle":
		return "IIdle"
	}
	return "ICount"
}

func coqOut(o Out) string {
	switch o.C {
	case "root":
		return fmt.Sprintf("ORoot %d", o.Tok)
	case "vals":
		items := make([]string, len(o.Vals))
		for i, v := range o.Vals {
			items[i] = fmt.Sprint(v)
		}
		return "OVals [" + strings.Join(items, ";") + "]"
	case "notexist":
		return "ONotExist"
	case "notfound":
		return "ONotFound"
	case "panic":
		return "OPanic"
	case "unit":
		return "OUnit"
	case "num":
		return fmt.Sprintf("ONum %d", o.N)
	case "crashed":
		return "OCrashed"
	}
	return "OOther"
}

func coqTable(hexes []string) string {
	items := make([]string, len(hexes))
	for i, h := range hexes {
		b, _ := hex.DecodeString(h)
		items[i] = hlib.Hx(b)
	}
	return "[" + strings.Join(items, ";") + "]"
}

// the whole case; conc = with invocation / reply stamps
func (r *runner) coqCase(conc bool) string {
	var sb strings.Builder
	if conc {
		sb.WriteString("CConc ")
	} else {
		sb.WriteString("CSeq ")
	}
	sb.WriteString(hlib.Bool(r.h.Prefix) + " ")
	if !conc {
		sb.WriteString(hlib.Bool(r.h.Queue) + " ")
	}
	sb.WriteString(coqTable(r.h.Keys))
	sb.WriteString(" ")
	sb.WriteString(coqTable(r.h.Vals))
	sb.WriteString(" [")
	for i := range r.steps {
		if i > 0 {
			sb.WriteString(";\n")
		}
		if conc {
			fmt.Fprintf(&sb, "(%s,%s,(%d,%d))", coqOp(r.steps[i]), coqOut(r.outs[i]), r.outs[i].Inv, r.outs[i].Resp)
		} else {
			fmt.Fprintf(&sb, "(%s,%s)", coqOp(r.steps[i]), coqOut(r.outs[i]))
		}
	}
	sb.WriteString("]")
	return sb.String()
}

// ---------- the harness's own view of the history (to choose operations) ----------

type view struct {
	committed []int // tokens acknowledged by Set / Commit (0 and 1 = the empty roots)
	pending   []int // tokens returned by MemSet, not yet committed / rolled back
	withTree  map[int]bool
	dead      []int // rolled back, lost at a restart, or foreign
	updates   int
	nonEmpty  map[int]bool
}

func newView() *view {
	return &view{committed: []int{0, 1}, withTree: map[int]bool{}, nonEmpty: map[int]bool{}}
}

func has(xs []int, t int) bool {
	for _, x := range xs {
		if x == t {
			return true
		}
	}
	return false
}

func del(xs []int, t int) []int {
	var out []int
	for _, x := range xs {
		if x != t {
			out = append(out, x)
		}
	}
	return out
}

func (v *view) note(op Op, o Out) {
	switch op.T {
	case "memset":
		if o.C == "root" {
			// an empty MemSet keeps what already waits under the hash (LoadOrStore)
			if len(op.KV) > 0 {
				v.withTree[o.Tok] = true
			} else if !has(v.pending, o.Tok) {
				v.withTree[o.Tok] = false
			}
			if !has(v.pending, o.Tok) {
				v.pending = append(v.pending, o.Tok)
			}
			v.dead = del(v.dead, o.Tok)
			v.updates++
			if len(op.KV) > 0 {
				v.nonEmpty[o.Tok] = true
			}
		}
	case "set":
		if o.C == "root" {
			if !has(v.committed, o.Tok) {
				v.committed = append(v.committed, o.Tok)
			}
			v.dead = del(v.dead, o.Tok)
			v.updates++
			if len(op.KV) > 0 {
				v.nonEmpty[o.Tok] = true
			}
		}
	case "commit":
		if o.C == "root" {
			v.pending = del(v.pending, op.R)
			if !has(v.committed, op.R) {
				v.committed = append(v.committed, op.R)
			}
		}
	case "rollback":
		if o.C == "root" {
			v.pending = del(v.pending, op.R)
			if !has(v.committed, op.R) && !has(v.dead, op.R) {
				v.dead = append(v.dead, op.R)
			}
		}
	case "restart":
		for _, t := range v.pending {
			if !has(v.committed, t) && !has(v.dead, t) {
				v.dead = append(v.dead, t)
			}
		}
		v.pending = nil
	case "foreign":
		if o.C == "root" && !has(v.committed, o.Tok) && !has(v.pending, o.Tok) && !has(v.dead, o.Tok) {
			v.dead = append(v.dead, o.Tok)
		}
	}
}

// pending tokens whose tree exists only in the table (an empty MemSet on them was finding 1:
// it replaced the tree by the marker; fixed in chain33, the tree is kept)
func (v *view) fragile() []int {
	var out []int
	for _, t := range v.pending {
		if v.withTree[t] && !has(v.committed, t) {
			out = append(out, t)
		}
	}
	return out
}

func (v *view) nontrivial() bool {
	n := 0
	for _, t := range v.committed {
		if v.nonEmpty[t] {
			n++
		}
	}
	return v.updates >= 3 && n >= 2
}
