package main

import (
	"encoding/hex"
	"sort"

	"github.com/33cn/chain33/system/store/mavl"
	"github.com/33cn/chain33/types"
	"verifharness/hlib"
)

func newForeign(dir string) *mavl.Store {
	cfg := &types.Store{Name: "mavl", Driver: "leveldb", DbPath: dir, DbCache: 16}
	return mavl.New(cfg, []byte(`{"enableMavlPrefix":false}`), nil).(*mavl.Store)
}

var keyPool = []string{"a", "b", "c", "d", "e", "f", "g", "h", "", "ab", "b\x00", "\xff", "mavl-c-x", "mavl-c-y"}
var valPool = []string{"1", "2", "3", "xy", "0"}

func tables(rng *hlib.Rng, h *History, nk int) {
	idx := make([]int, len(keyPool))
	for i := range idx {
		idx[i] = i
	}
	hlib.Shuffle(rng, idx)
	for _, i := range idx[:nk] {
		h.Keys = append(h.Keys, hex.EncodeToString([]byte(keyPool[i])))
	}
	nv := rng.Range(2, 4)
	for i := 0; i < nv; i++ {
		h.Vals = append(h.Vals, hex.EncodeToString([]byte(valPool[i])))
	}
	if rng.Chance(1, 8) {
		h.Vals = append(h.Vals, "") // the empty value
	}
}

func randKV(rng *hlib.Rng, h *History, lo, hi int) [][2]int {
	n := rng.Range(lo, hi)
	kv := make([][2]int, n)
	for i := range kv {
		kv[i] = [2]int{rng.Intn(len(h.Keys)), rng.Intn(len(h.Vals))}
	}
	return kv
}

// reads at every committed root (and at a few that are not) + the database size
func (r *runner) probeAll(rng *hlib.Rng, v *view, all bool) {
	for _, t := range v.committed {
		r.do(Op{T: "get", R: t})
	}
	others := append(append([]int{}, v.pending...), v.dead...)
	for _, t := range others {
		if all || rng.Chance(1, 3) {
			r.do(Op{T: "get", R: t})
		}
	}
	if !r.h.Prefix {
		r.do(Op{T: "count"})
	}
}

// one generated sequential history; unrestricted = may put an empty MemSet on a root that
// only exists as a pending tree (former finding 1, fixed in chain33: the tree must survive)
func genSeq(rng *hlib.Rng, kind string, nops int, unrestricted bool) (*runner, *view) {
	h := &History{Kind: kind, Prefix: rng.Chance(1, 3), Queue: rng.Chance(1, 3)}
	tables(rng, h, rng.Range(3, 7))
	r := newRunner(h)
	v := newView()
	step := func(op Op) Out {
		op.H = int64(rng.Range(1, 4))
		op.Sync = rng.Chance(1, 2)
		o := r.do(op)
		v.note(op, o)
		return o
	}
	for i := 0; i < nops; i++ {
		x := rng.Intn(100)
		switch {
		case x < 34: // pending update of a committed root (forks: any committed root)
			lo := 1
			if rng.Chance(1, 12) {
				lo = 0
			}
			step(Op{T: "memset", R: hlib.Pick(rng, v.committed), KV: randKV(rng, h, lo, 4)})
		case x < 54:
			if len(v.pending) == 0 {
				step(Op{T: "memset", R: hlib.Pick(rng, v.committed), KV: randKV(rng, h, 1, 3)})
			} else {
				step(Op{T: "commit", R: hlib.Pick(rng, v.pending)})
			}
		case x < 66:
			if len(v.pending) > 0 {
				step(Op{T: "rollback", R: hlib.Pick(rng, v.pending)})
			} else {
				step(Op{T: "set", R: hlib.Pick(rng, v.committed), KV: randKV(rng, h, 1, 3)})
			}
		case x < 72:
			step(Op{T: "set", R: hlib.Pick(rng, v.committed), KV: randKV(rng, h, 0, 3)})
		case x < 78: // commit / rollback of something that is not pending
			pool := append(append([]int{}, v.committed...), v.dead...)
			t := "commit"
			if rng.Chance(1, 2) {
				t = "rollback"
			}
			step(Op{T: t, R: hlib.Pick(rng, pool)})
		case x < 83: // update of a root that is not committed
			pool := append(append([]int{}, v.pending...), v.dead...)
			if len(pool) > 0 {
				t := "memset"
				if rng.Chance(1, 3) {
					t = "set"
				}
				step(Op{T: t, R: hlib.Pick(rng, pool), KV: randKV(rng, h, 1, 3)})
			}
		case x < 87:
			step(Op{T: "restart"})
		case x < 90:
			step(Op{T: "foreign", KV: randKV(rng, h, 1, 3)})
		case x < 93: // empty update of a root nobody knows: marker only
			if len(v.dead) > 0 {
				step(Op{T: "memset", R: hlib.Pick(rng, v.dead)})
			}
		default:
			fr := v.fragile()
			if unrestricted && len(fr) > 0 {
				step(Op{T: "memset", R: hlib.Pick(rng, fr)})
				if rng.Chance(1, 2) {
					step(Op{T: "commit", R: fr[0]})
				}
			} else if len(v.committed) > 2 { // empty update of a committed root
				step(Op{T: "memset", R: hlib.Pick(rng, v.committed)})
			}
		}
		r.probeAll(rng, v, false)
	}
	// finish what is pending in random order, reopen, read everything
	for len(v.pending) > 0 && rng.Chance(4, 5) {
		t := "commit"
		if rng.Chance(1, 3) {
			t = "rollback"
		}
		step(Op{T: t, R: hlib.Pick(rng, v.pending)})
		r.probeAll(rng, v, false)
	}
	step(Op{T: "restart"})
	r.probeAll(rng, v, true)
	return r, v
}

// fixed shapes: the witness of the former finding 1 (now a regression case), and two forks of one parent in every order
func fixedHistories() []*History {
	k := []string{hex.EncodeToString([]byte("k1")), hex.EncodeToString([]byte("k2")), hex.EncodeToString([]byte("k3"))}
	vv := []string{hex.EncodeToString([]byte("v1")), hex.EncodeToString([]byte("v2"))}
	var out []*History
	g := Op{T: "get", R: 2}
	out = append(out, &History{Kind: "witness-kf1", Keys: k, Vals: vv, Ops: []Op{
		{T: "memset", R: 0, KV: [][2]int{{0, 0}, {1, 1}}, H: 1}, g,
		{T: "memset", R: 2, H: 2}, g,
		{T: "commit", R: 2}, g, {T: "count"}, {T: "restart"}, g}})
	// finding 2: through the queue, the commit of an empty update of the nil hash is
	// answered ErrHashNotFound although it is carried out (the second one finds nothing)
	out = append(out, &History{Kind: "witness-kf2", Queue: true, Keys: k, Vals: vv, Ops: []Op{
		{T: "memset", R: 0, H: 1}, {T: "commit", R: 0}, {T: "commit", R: 0},
		{T: "memset", R: 0, H: 1}, {T: "rollback", R: 0}, {T: "rollback", R: 0}, {T: "get", R: 0}}})
	// forks: parent P = token 2 (set), forks A = 3, B = 4
	acts := []string{"commit", "rollback"}
	for _, a1 := range acts {
		for _, a2 := range acts {
			for order := 0; order < 2; order++ {
				for q := 0; q < 2; q++ {
					ops := []Op{
						{T: "set", R: 0, KV: [][2]int{{0, 0}, {1, 0}}, H: 1},
						{T: "memset", R: 2, KV: [][2]int{{0, 1}}, H: 2},
						{T: "memset", R: 2, KV: [][2]int{{2, 1}, {1, 1}}, H: 2},
					}
					reads := []Op{{T: "get", R: 2}, {T: "get", R: 3}, {T: "get", R: 4}}
					ops = append(ops, reads...)
					first, second := Op{T: a1, R: 3}, Op{T: a2, R: 4}
					if order == 1 {
						first, second = second, first
					}
					ops = append(ops, first)
					ops = append(ops, reads...)
					ops = append(ops, second)
					ops = append(ops, reads...)
					ops = append(ops, Op{T: "count"}, Op{T: "restart"})
					ops = append(ops, reads...)
					out = append(out, &History{Kind: "forks", Queue: q == 1, Keys: k, Vals: vv, Ops: ops})
				}
			}
		}
	}
	return out
}

// replay of a recorded sequential history
func runRecorded(h *History) (*runner, *view) {
	r := newRunner(h)
	v := newView()
	for _, op := range h.Ops {
		o := r.do(op)
		v.note(op, o)
	}
	return r, v
}

// ---------- re-execution stream ----------

type update struct {
	R  int
	KV [][2]int
}

// genReexec: shapes the random streams almost never produce, on SMALL states (2-4 keys, so every
// root has height <= 2 and none of its nodes is kept in the node cache):
//   - the same update executed again after its rollback / after a restart (same root again);
//   - a root that is read, or named as the parent of an update, BEFORE it exists (predicted through
//     the foreign store, or seen in an execution that was rolled back) and committed afterwards;
//   - an update that changes nothing (its root is the committed parent itself) and a competing
//     update of the same parent while it waits;
//   - an update requested on top of a root that is only pending, then the rollback of whatever
//     came back and the commit of the pending root.
//
// After every step: reads at every committed root and (half of the time) at every other root.
func genReexec(rng *hlib.Rng, kind string, nops int) (*runner, *view) {
	h := &History{Kind: kind, Prefix: rng.Chance(1, 3), Queue: rng.Chance(1, 2)}
	tables(rng, h, rng.Range(2, 4))
	r := newRunner(h)
	v := newView()
	content := map[int]map[int]int{0: {}, 1: {}} // token -> key index -> value index (as far as known)
	var hist []update
	step := func(op Op) Out {
		op.H = int64(rng.Range(1, 4))
		op.Sync = rng.Chance(1, 2)
		o := r.do(op)
		v.note(op, o)
		if (op.T == "memset" || op.T == "set") && o.C == "root" {
			if op.T == "memset" && len(op.KV) > 0 {
				hist = append(hist, update{op.R, op.KV})
			}
			if base, ok := content[op.R]; ok {
				if _, seen := content[o.Tok]; !seen {
					m := map[int]int{}
					for k, x := range base {
						m[k] = x
					}
					for _, p := range op.KV {
						m[p[0]] = p[1]
					}
					content[o.Tok] = m
				}
			}
		}
		return o
	}
	probe := func() { r.probeAll(rng, v, rng.Chance(1, 2)) }
	for i := 0; i < nops; i++ {
		switch x := rng.Intn(100); {
		case x < 22: // a new update of a committed root
			step(Op{T: "memset", R: hlib.Pick(rng, v.committed), KV: randKV(rng, h, 1, 2)})
		case x < 42: // an earlier update once more
			if len(hist) == 0 {
				step(Op{T: "memset", R: hlib.Pick(rng, v.committed), KV: randKV(rng, h, 1, 2)})
			} else {
				u := hlib.Pick(rng, hist)
				step(Op{T: "memset", R: u.R, KV: u.KV})
			}
		case x < 52: // a root that is asked for before it exists
			kv := randKV(rng, h, 1, 2)
			o := step(Op{T: "foreign", KV: kv})
			probe()
			if o.C == "root" {
				if rng.Chance(1, 2) {
					step(Op{T: "get", R: o.Tok})
				} else {
					step(Op{T: "memset", R: o.Tok, KV: randKV(rng, h, 1, 1)})
				}
				probe()
			}
			step(Op{T: "memset", R: rng.Intn(2), KV: kv})
		case x < 64: // an update that changes nothing, and a competitor on the same parent
			var pool []int
			for _, t := range v.committed {
				if len(content[t]) > 0 {
					pool = append(pool, t)
				}
			}
			if len(pool) == 0 {
				step(Op{T: "set", R: hlib.Pick(rng, v.committed), KV: randKV(rng, h, 1, 2)})
				break
			}
			p := hlib.Pick(rng, pool)
			var kv [][2]int
			for _, k := range sortedKeys(content[p]) {
				if len(kv) == 0 || rng.Chance(1, 2) {
					kv = append(kv, [2]int{k, content[p][k]})
				}
			}
			step(Op{T: "memset", R: p, KV: kv})
			if rng.Chance(2, 3) {
				probe()
				step(Op{T: "memset", R: p, KV: randKV(rng, h, 1, 2)})
			}
		case x < 78:
			if len(v.pending) > 0 {
				step(Op{T: "commit", R: hlib.Pick(rng, v.pending)})
			} else {
				step(Op{T: "memset", R: hlib.Pick(rng, v.committed), KV: randKV(rng, h, 1, 2)})
			}
		case x < 89:
			if len(v.pending) > 0 {
				step(Op{T: "rollback", R: hlib.Pick(rng, v.pending)})
			} else {
				step(Op{T: "set", R: hlib.Pick(rng, v.committed), KV: randKV(rng, h, 1, 2)})
			}
		case x < 96: // an update on top of a root that is only pending
			var pool []int
			for _, t := range v.pending {
				if !has(v.committed, t) {
					pool = append(pool, t)
				}
			}
			if len(pool) == 0 {
				step(Op{T: "memset", R: hlib.Pick(rng, v.committed), KV: randKV(rng, h, 1, 2)})
				break
			}
			a := hlib.Pick(rng, pool)
			o := step(Op{T: "memset", R: a, KV: randKV(rng, h, 1, 2)})
			if o.C == "root" && rng.Chance(2, 3) {
				probe()
				step(Op{T: "rollback", R: o.Tok})
			}
			if rng.Chance(1, 2) {
				probe()
				step(Op{T: "commit", R: a})
			}
		default:
			step(Op{T: "restart"})
		}
		probe()
	}
	for len(v.pending) > 0 && rng.Chance(5, 6) {
		t := "commit"
		if rng.Chance(1, 3) {
			t = "rollback"
		}
		step(Op{T: t, R: hlib.Pick(rng, v.pending)})
		probe()
	}
	step(Op{T: "restart"})
	r.probeAll(rng, v, true)
	return r, v
}

// (map iteration order must not reach the history)
func sortedKeys(m map[int]int) []int {
	var ks []int
	for k := range m {
		ks = append(ks, k)
	}
	sort.Ints(ks)
	return ks
}
