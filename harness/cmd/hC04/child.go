package main

import (
	"bufio"
	"bytes"
	"context"
	"encoding/json"
	"fmt"
	"io"
	"os"
	"os/exec"
	"path/filepath"
	"sort"
	"strings"
	"sync"
	"time"

	"verifharness/hlib"
)

const scratchEnv = "HC04_SCRATCH"

// ---------- the line protocol between child and parent ----------

type event struct {
	E     string   `json:"e"` // job, begin, phase, op, out, end
	J     int      `json:"j,omitempty"`
	H     *History `json:"h,omitempty"`
	ID    int      `json:"id,omitempty"`
	Op    *Op      `json:"op,omitempty"`
	Inv   uint64   `json:"inv,omitempty"`
	Out   *Out     `json:"out,omitempty"`
	Progs [][]Op   `json:"progs,omitempty"`
	Case  *caseRec `json:"case,omitempty"`
}

// evSink: the child's side (nil writer = in the parent: nothing is sent).
type evSink struct {
	mu  sync.Mutex
	w   *bufio.Writer
	ids int
}

var sink evSink

func (s *evSink) send(e event) {
	b, err := json.Marshal(e)
	if err != nil {
		panic(err)
	}
	s.w.Write(b)
	s.w.WriteByte('\n')
	s.w.Flush() // the parent must have the line before the implementation gets a chance to die
}

func (s *evSink) begin(h *History) {
	if s.w == nil {
		return
	}
	s.mu.Lock()
	defer s.mu.Unlock()
	hdr := *h
	hdr.Ops, hdr.Phases = nil, nil
	s.send(event{E: "begin", H: &hdr})
}

func (s *evSink) phase(progs [][]Op) {
	if s.w == nil {
		return
	}
	s.mu.Lock()
	defer s.mu.Unlock()
	s.send(event{E: "phase", Progs: progs})
}

func (s *evSink) op(op Op, inv uint64) int {
	if s.w == nil {
		return 0
	}
	s.mu.Lock()
	defer s.mu.Unlock()
	s.ids++
	s.send(event{E: "op", ID: s.ids, Op: &op, Inv: inv})
	return s.ids
}

func (s *evSink) out(id int, o Out) {
	if s.w == nil {
		return
	}
	s.mu.Lock()
	defer s.mu.Unlock()
	s.send(event{E: "out", ID: id, Out: &o})
}

// childMain: jobs (a JSON array) on stdin, events on stdout.
func childMain() {
	var jobs []Job
	if err := json.NewDecoder(os.Stdin).Decode(&jobs); err != nil {
		fmt.Fprintln(os.Stderr, "hC04 child: jobs:", err)
		os.Exit(3)
	}
	sink.w = bufio.NewWriterSize(os.Stdout, 1<<16)
	for i, j := range jobs {
		sink.mu.Lock()
		sink.send(event{E: "job", J: i})
		sink.mu.Unlock()
		c := runJob(j)
		sink.mu.Lock()
		sink.send(event{E: "end", J: i, Case: &c})
		sink.mu.Unlock()
	}
}

// ---------- the parent ----------

// partial: what the parent knows about the history a child is working on.
type partial struct {
	h        *History
	phases   [][][]Op
	steps    []Op
	outs     []Out
	inflight map[int]event
}

type supervisor struct {
	out     *hlib.Out
	mu      sync.Mutex
	results [][]caseRec // per job of the current run, in job order
	pending [][]caseRec // finished runs, not yet written
	nchild  int
	ncrash  int
	self    string
}

func newSupervisor(out *hlib.Out) *supervisor {
	self, err := os.Executable()
	if err != nil {
		self = os.Args[0]
	}
	return &supervisor{out: out, self: self}
}

type idxJob struct {
	idx int
	job Job
}

// run: jobs in batches of [batch], [width] children at a time; results are kept in job order.
func (s *supervisor) run(jobs []Job, batch, width int) {
	if len(jobs) == 0 {
		return
	}
	s.results = make([][]caseRec, len(jobs))
	var batches [][]idxJob
	for i := 0; i < len(jobs); i += batch {
		var b []idxJob
		for k := i; k < len(jobs) && k < i+batch; k++ {
			b = append(b, idxJob{k, jobs[k]})
		}
		batches = append(batches, b)
	}
	threads := 4 / width
	ch := make(chan []idxJob)
	var wg sync.WaitGroup
	for w := 0; w < width; w++ {
		wg.Add(1)
		go func() {
			defer wg.Done()
			for b := range ch {
				s.runBatch(b, threads)
			}
		}()
	}
	for _, b := range batches {
		ch <- b
	}
	close(ch)
	wg.Wait()
	s.pending = append(s.pending, s.results...)
	s.results = nil
}

func (s *supervisor) flush() {
	for _, cs := range s.pending {
		for _, c := range cs {
			s.out.Emit(c.Kind, c.Nontrivial, c.Coq, c.Input, c.Impl)
		}
	}
	s.pending = nil
}

func (s *supervisor) store(idx int, c caseRec) {
	s.mu.Lock()
	s.results[idx] = append(s.results[idx], c)
	s.mu.Unlock()
}

// runBatch: one child for the batch; when it dies, the history it was working on is attributed
// the crash if the process was fresh (first history of the child), otherwise it is run again
// alone; the rest of the batch goes to a new child.
func (s *supervisor) runBatch(jobs []idxJob, threads int) {
	for len(jobs) > 0 {
		done, part, how := s.spawn(jobs, threads)
		if done >= len(jobs) {
			return // (a child that dies after its last "end" has nothing left to report)
		}
		c := jobs[done]
		if part == nil || part.h == nil {
			// died before the history had a header: nothing of the implementation ran
			fmt.Fprintf(os.Stderr, "hC04: child failed outside a history (job %d): %s\n", c.idx, how.note)
			os.Exit(2)
		}
		if done == 0 {
			s.store(c.idx, crashedCase(part, how, c.job.conc(), ""))
			s.mu.Lock()
			s.ncrash++
			s.mu.Unlock()
		} else {
			d2, part2, how2 := s.spawn([]idxJob{c}, threads)
			switch {
			case d2 == 1 && how.timeout:
				// slow machine: alone it finished
			case d2 == 1:
				// alone it runs to its end: the death needed the histories before it in the same
				// process; both the finished case and the observed death are reported
				s.store(c.idx, crashedCase(part, how, c.job.conc(), "+batch"))
				s.mu.Lock()
				s.ncrash++
				s.mu.Unlock()
			case part2 == nil || part2.h == nil:
				fmt.Fprintf(os.Stderr, "hC04: child failed outside a history (job %d): %s\n", c.idx, how2.note)
				os.Exit(2)
			default:
				s.store(c.idx, crashedCase(part2, how2, c.job.conc(), ""))
				s.mu.Lock()
				s.ncrash++
				s.mu.Unlock()
			}
		}
		jobs = jobs[done+1:]
	}
}

type death struct {
	timeout bool
	note    string
}

// capped buffer for the child's stderr (a panic prints every goroutine)
type capBuf struct {
	b   bytes.Buffer
	max int
}

func (c *capBuf) Write(p []byte) (int, error) {
	if room := c.max - c.b.Len(); room > 0 {
		if len(p) <= room {
			c.b.Write(p)
		} else {
			c.b.Write(p[:room])
		}
	}
	return len(p), nil
}

// spawn: runs the jobs in one child; returns how many finished (their cases are stored), and,
// if the child did not finish all of them, what is known about the one it was working on.
func (s *supervisor) spawn(jobs []idxJob, threads int) (int, *partial, death) {
	s.mu.Lock()
	s.nchild++
	n := s.nchild
	s.mu.Unlock()
	scratch := filepath.Join(scratchBase(), fmt.Sprintf("hC04-%d-c%d", os.Getpid(), n))
	os.RemoveAll(scratch)
	os.MkdirAll(scratch, 0o755)
	defer os.RemoveAll(scratch)

	limit := time.Duration(240+30*len(jobs)) * time.Second
	ctx, cancel := context.WithTimeout(context.Background(), limit)
	defer cancel()
	cmd := exec.CommandContext(ctx, s.self, "--extra", "child")
	cmd.Env = append(os.Environ(), scratchEnv+"="+scratch, fmt.Sprintf("GOMAXPROCS=%d", threads))
	var js []Job
	for _, j := range jobs {
		js = append(js, j.job)
	}
	in, _ := json.Marshal(js)
	cmd.Stdin = bytes.NewReader(in)
	errBuf := &capBuf{max: 1 << 20}
	cmd.Stderr = errBuf
	stdout, err := cmd.StdoutPipe()
	if err != nil {
		fmt.Fprintln(os.Stderr, "hC04: pipe:", err)
		os.Exit(2)
	}
	if err := cmd.Start(); err != nil {
		fmt.Fprintln(os.Stderr, "hC04: cannot start child:", err)
		os.Exit(2)
	}
	done := 0
	var part *partial
	rd := bufio.NewReaderSize(stdout, 1<<16)
	for {
		line, err := rd.ReadBytes('\n')
		if len(line) > 0 && line[len(line)-1] == '\n' {
			var e event
			if json.Unmarshal(line, &e) == nil {
				switch e.E {
				case "job":
					part = &partial{inflight: map[int]event{}}
				case "begin": // (the concurrent generator may start over: only the last start counts)
					part = &partial{h: e.H, inflight: map[int]event{}}
				case "phase":
					if part != nil {
						part.phases = append(part.phases, e.Progs)
					}
				case "op":
					if part != nil {
						part.inflight[e.ID] = e
					}
				case "out":
					if part != nil {
						if o, ok := part.inflight[e.ID]; ok {
							delete(part.inflight, e.ID)
							part.steps = append(part.steps, *o.Op)
							part.outs = append(part.outs, *e.Out)
						}
					}
				case "end":
					if e.Case != nil && done < len(jobs) {
						s.store(jobs[done].idx, *e.Case)
						done++
					}
					part = nil
				}
			}
		}
		if err != nil {
			break
		}
	}
	io.Copy(io.Discard, stdout)
	werr := cmd.Wait()
	if werr == nil && done == len(jobs) {
		return done, nil, death{}
	}
	how := death{timeout: ctx.Err() != nil}
	if how.timeout {
		how.note = fmt.Sprintf("no end within %v: killed", limit)
	} else {
		how.note = fmt.Sprintf("%v: %s", werr, crashNote(errBuf.b.String()))
	}
	if done < len(jobs) && part == nil {
		part = &partial{}
	}
	return done, part, how
}

// crashNote: the panic message and the first frames inside chain33.
func crashNote(stderr string) string {
	lines := strings.Split(stderr, "\n")
	var msg string
	var frames []string
	for _, l := range lines {
		t := strings.TrimSpace(l)
		if msg == "" && (strings.HasPrefix(t, "panic:") || strings.HasPrefix(t, "fatal error:")) {
			msg = t
			continue
		}
		if msg != "" && strings.HasPrefix(t, "github.com/33cn/chain33/") && len(frames) < 5 {
			if i := strings.LastIndexByte(t, '('); i > 0 {
				t = t[:i]
			}
			frames = append(frames, strings.TrimPrefix(t, "github.com/33cn/chain33/"))
		}
	}
	if msg == "" {
		msg = firstLine(strings.TrimSpace(stderr))
	}
	s := msg + " @ " + strings.Join(frames, " <- ")
	if len(s) > 400 {
		s = s[:400]
	}
	return s
}

// crashedCase: the history up to the death of the process; every operation that was in flight is
// recorded with the reply "crashed" (none in flight: an "idle" step carries it).
func crashedCase(p *partial, how death, conc bool, tag string) caseRec {
	h := *p.h
	steps := append([]Op{}, p.steps...)
	outs := append([]Out{}, p.outs...)
	var ids []int
	for id := range p.inflight {
		ids = append(ids, id)
	}
	sort.Ints(ids)
	for _, id := range ids {
		e := p.inflight[id]
		steps = append(steps, *e.Op)
		outs = append(outs, Out{C: "crashed", Note: how.note, Inv: e.Inv})
	}
	if len(ids) == 0 {
		var last uint64
		for _, o := range outs {
			if o.Resp > last {
				last = o.Resp
			}
		}
		steps = append(steps, Op{T: "idle"})
		outs = append(outs, Out{C: "crashed", Note: how.note, Inv: last + 1})
	}
	r := &runner{h: &h, steps: steps, outs: outs}
	if conc {
		h.Queue = true
		h.Phases = p.phases
		r.sortSteps()
	} else {
		h.Ops = r.steps
	}
	in, _ := json.Marshal(&h)
	impl, _ := json.Marshal(r.outs)
	return caseRec{Kind: caseKind(&h, conc) + "+crashed" + tag, Nontrivial: true, Coq: r.coqCase(conc), Input: in, Impl: impl}
}
