// hC17: transaction groups of chain33 (types.CreateTxGroup, Transactions.Check,
// Transactions.Tx().Check = GetTxGroup path, Transactions.CheckSign, RebuiltGroup)
// on generated groups of 2..20 members with structural and single-field alterations.
package main

import (
	"bytes"
	"crypto/sha256"
	"encoding/hex"
	"fmt"
	"math"
	"math/big"
	"reflect"
	"strings"

	"github.com/33cn/chain33/common/address"
	"github.com/33cn/chain33/common/crypto"
	_ "github.com/33cn/chain33/system/crypto/init"
	"github.com/33cn/chain33/types"
	"github.com/golang/protobuf/proto"
	"verifharness/hlib"
)

// ---------- JSON (replay) form ----------

type jsig struct {
	Ty  int32  `json:"ty"`
	Pub string `json:"pub"`
	Sig string `json:"sig"`
}
type jtx struct {
	Execer     string `json:"execer"`
	Payload    string `json:"payload"`
	Sig        *jsig  `json:"sig,omitempty"`
	Fee        int64  `json:"fee"`
	Expire     int64  `json:"expire"`
	Nonce      int64  `json:"nonce"`
	To         string `json:"to"`
	GroupCount int32  `json:"groupCount"`
	Header     string `json:"header"`
	Next       string `json:"next"`
	ChainID    int32  `json:"chainID"`
}

func toJ(t *types.Transaction) *jtx {
	j := &jtx{Execer: hlib.HexS(t.Execer), Payload: hlib.HexS(t.Payload), Fee: t.Fee, Expire: t.Expire,
		Nonce: t.Nonce, To: hlib.HexS([]byte(t.To)), GroupCount: t.GroupCount, Header: hlib.HexS(t.Header),
		Next: hlib.HexS(t.Next), ChainID: t.ChainID}
	if t.Signature != nil {
		j.Sig = &jsig{Ty: t.Signature.Ty, Pub: hlib.HexS(t.Signature.Pubkey), Sig: hlib.HexS(t.Signature.Signature)}
	}
	return j
}
func unhex(s string) []byte {
	b, err := hex.DecodeString(s)
	if err != nil {
		panic(err)
	}
	if len(b) == 0 {
		return nil
	}
	return b
}
func fromJ(j *jtx) *types.Transaction {
	t := &types.Transaction{Execer: unhex(j.Execer), Payload: unhex(j.Payload), Fee: j.Fee, Expire: j.Expire,
		Nonce: j.Nonce, To: string(unhex(j.To)), GroupCount: j.GroupCount, Header: unhex(j.Header),
		Next: unhex(j.Next), ChainID: j.ChainID}
	if j.Sig != nil {
		t.Signature = &types.Signature{Ty: j.Sig.Ty, Pubkey: unhex(j.Sig.Pub), Signature: unhex(j.Sig.Sig)}
	}
	return t
}

type keyJ struct {
	Drv  string `json:"drv"`
	Priv string `json:"priv"`
	Ty   int32  `json:"ty"`
}
type envJ struct {
	Chain  int32 `json:"chain"`
	H      int64 `json:"h"`
	Strict int64 `json:"strict"`
	Para   int64 `json:"para"`
	Block  int64 `json:"block"`
	MinFee int64 `json:"minfee"`
	MaxFee int64 `json:"maxfee"`
}
type opJ struct {
	Op  string `json:"op"`
	I   int    `json:"i,omitempty"`
	J   int    `json:"j,omitempty"`
	T   *jtx   `json:"t,omitempty"`   // field: the member after the alteration
	Key *keyJ  `json:"key,omitempty"` // resign
	Z   int64  `json:"z,omitempty"`
}
type entryJ struct {
	Kind string `json:"kind"`
	Ops  []opJ  `json:"ops"`
	Env  int    `json:"env"`
}
type batchJ struct {
	Inputs     []*jtx   `json:"inputs"`
	Rate       int64    `json:"rate"`
	Keys       []keyJ   `json:"keys"`
	PoolInputs []*jtx   `json:"poolInputs"`
	PoolRate   int64    `json:"poolRate"`
	PoolSingle *jtx     `json:"poolSingle"`
	Envs       []envJ   `json:"envs"`
	Entries    []entryJ `json:"entries"`
}

// ---------- Gallina rendering (same conventions as hC16) ----------

func hxc(b []byte) string {
	var parts []string
	start := 0
	i := 0
	for i < len(b) {
		j := i
		for j < len(b) && b[j] == b[i] {
			j++
		}
		if j-i >= 48 {
			if i > start {
				parts = append(parts, hlib.Hx(b[start:i]))
			}
			parts = append(parts, fmt.Sprintf("(nrep %d%%N %d%%N)", j-i, b[i]))
			start = j
		}
		i = j
	}
	if start < len(b) || len(parts) == 0 {
		parts = append(parts, hlib.Hx(b[start:]))
	}
	if len(parts) == 1 {
		return parts[0]
	}
	return "(" + strings.Join(parts, " ++ ") + ")%list"
}

func coqSig(s *types.Signature) string {
	return hlib.App("mk_sig", hlib.Z(int64(s.Ty)), hxc(s.Pubkey), hxc(s.Signature))
}

func coqTx(t *types.Transaction) string {
	sg := "None"
	if t.Signature != nil {
		sg = "(Some " + coqSig(t.Signature) + ")"
	}
	return hlib.App("mk_tx", hxc(t.Execer), hxc(t.Payload), sg, hlib.Z(t.Fee), hlib.Z(t.Expire), hlib.Z(t.Nonce),
		hxc([]byte(t.To)), hlib.Z(int64(t.GroupCount)), hxc(t.Header), hxc(t.Next), hlib.Z(int64(t.ChainID)))
}

func pclone(t *types.Transaction) *types.Transaction { return proto.Clone(t).(*types.Transaction) }
func cloneList(l []*types.Transaction) []*types.Transaction {
	out := make([]*types.Transaction, len(l))
	for i, t := range l {
		out[i] = pclone(t)
	}
	return out
}

// digest of a member, computed independently of Transaction.Hash
func hashPre(t *types.Transaction) []byte {
	c := pclone(t)
	c.Signature = nil
	c.Header = nil
	return types.Encode(c)
}
func digest(t *types.Transaction) []byte { h := sha256.Sum256(hashPre(t)); return h[:] }

// compact rendering of a byte-string alteration (Check.bedit)
func bedit(a, b []byte) string {
	if len(a) == len(b) && len(a) > 0 {
		d, pos := 0, 0
		for i := range a {
			if a[i] != b[i] {
				d++
				pos = i
			}
		}
		if d == 1 {
			return hlib.App("BPut", hlib.Nat(pos), hlib.N(uint64(b[pos])))
		}
	}
	if len(a) >= 1 && len(b) == len(a)-1 && bytes.Equal(a[:len(b)], b) && len(b) > 0 {
		return "BTrunc"
	}
	if len(b) == len(a)+1 && bytes.Equal(b[:len(a)], a) {
		return hlib.App("BApp", hlib.N(uint64(b[len(a)])))
	}
	return hlib.App("BSet", hxc(b))
}

// the single-field difference between t0 and t1 as a Check.fmut term
func mutTerm(t0, t1 *types.Transaction) string {
	var diffs []string
	v0, v1 := reflect.ValueOf(t0).Elem(), reflect.ValueOf(t1).Elem()
	zname := map[string]string{"Fee": "FFee", "Expire": "FExpire", "Nonce": "FNonce", "GroupCount": "FCount", "ChainID": "FChain"}
	for i := 0; i < v0.NumField(); i++ {
		f := v0.Type().Field(i)
		if f.PkgPath != "" {
			continue
		}
		a, b := v0.Field(i), v1.Field(i)
		switch f.Name {
		case "Execer", "Payload", "Header", "Next":
			if !bytes.Equal(a.Bytes(), b.Bytes()) {
				diffs = append(diffs, hlib.App("F"+f.Name, bedit(a.Bytes(), b.Bytes())))
			}
		case "To":
			if a.String() != b.String() {
				diffs = append(diffs, hlib.App("FTo", bedit([]byte(a.String()), []byte(b.String()))))
			}
		case "Fee", "Expire", "Nonce", "GroupCount", "ChainID":
			if a.Int() != b.Int() {
				diffs = append(diffs, hlib.App(zname[f.Name], hlib.Z(b.Int())))
			}
		case "Signature":
			s0, s1 := t0.Signature, t1.Signature
			switch {
			case s0 == nil && s1 == nil:
			case s1 == nil:
				diffs = append(diffs, "FSigNone")
			case s0 == nil:
				panic("harness: signature added")
			default:
				if s0.Ty != s1.Ty {
					diffs = append(diffs, hlib.App("FTy", hlib.Z(int64(s1.Ty))))
				}
				if !bytes.Equal(s0.Pubkey, s1.Pubkey) {
					diffs = append(diffs, hlib.App("FPub", bedit(s0.Pubkey, s1.Pubkey)))
				}
				if !bytes.Equal(s0.Signature, s1.Signature) {
					diffs = append(diffs, hlib.App("FSigB", bedit(s0.Signature, s1.Signature)))
				}
			}
		default:
			if !reflect.DeepEqual(a.Interface(), b.Interface()) {
				diffs = append(diffs, "FUnknown")
			}
		}
	}
	switch len(diffs) {
	case 0:
		return "FSame"
	case 1:
		return diffs[0]
	}
	panic("harness: more than one field altered: " + strings.Join(diffs, " "))
}

// mutations of one exported field (by reflection, so that new fields are covered)
func fieldMutants(r *hlib.Rng, t *types.Transaction) (names []string, outs []*types.Transaction) {
	ty := reflect.TypeOf(*t)
	for i := 0; i < ty.NumField(); i++ {
		f := ty.Field(i)
		if f.PkgPath != "" {
			continue
		}
		add := func(desc string, set func(v reflect.Value)) {
			c := pclone(t)
			set(reflect.ValueOf(c).Elem().Field(i))
			names = append(names, f.Name+":"+desc)
			outs = append(outs, c)
		}
		cur := reflect.ValueOf(t).Elem().Field(i)
		switch {
		case f.Type.Kind() == reflect.Slice:
			b := cur.Bytes()
			if len(b) > 0 {
				add("flip", func(v reflect.Value) {
					nb := append([]byte{}, b...)
					nb[r.Intn(len(nb))] ^= byte(1 << uint(r.Intn(8)))
					v.SetBytes(nb)
				})
				add("clear", func(v reflect.Value) { v.SetBytes(nil) })
				if len(b) > 1 {
					add("trunc", func(v reflect.Value) { v.SetBytes(append([]byte{}, b[:len(b)-1]...)) })
				}
			}
			add("append", func(v reflect.Value) { v.SetBytes(append(append([]byte{}, b...), byte(r.Intn(256)))) })
		case f.Type.Kind() == reflect.String:
			s := cur.String()
			add("append", func(v reflect.Value) { v.SetString(s + "1") })
			if len(s) > 0 {
				add("clear", func(v reflect.Value) { v.SetString("") })
			}
		case f.Type.Kind() == reflect.Int64 || f.Type.Kind() == reflect.Int32:
			x := cur.Int()
			max := int64(math.MaxInt64)
			if f.Type.Kind() == reflect.Int32 {
				max = math.MaxInt32
			}
			if x != max {
				add("inc", func(v reflect.Value) { v.SetInt(x + 1) })
			} else {
				add("dec", func(v reflect.Value) { v.SetInt(x - 1) })
			}
			if x != 0 {
				add("zero", func(v reflect.Value) { v.SetInt(0) })
				if x != -max-1 {
					add("neg", func(v reflect.Value) { v.SetInt(-x) })
				}
			} else {
				add("neg1", func(v reflect.Value) { v.SetInt(-1) })
			}
		case f.Type.Kind() == reflect.Ptr:
			// Signature: sigMutants
		default:
			names = append(names, f.Name+":unknown-kind")
			outs = append(outs, pclone(t))
		}
	}
	return
}

// ---------- crypto registry (default registration: everything but "none" enabled from height 0) ----------

type drvState struct {
	Name   string
	ID     int
	Enable bool
	Height int64
}

var registry []*drvState

func initRegistry() {
	names, ids := crypto.GetCryptoList()
	for i, n := range names {
		registry = append(registry, &drvState{Name: n, ID: int(ids[i]), Enable: n != "none", Height: 0})
	}
	for i := range registry {
		for j := i + 1; j < len(registry); j++ {
			if registry[j].ID < registry[i].ID {
				registry[i], registry[j] = registry[j], registry[i]
			}
		}
	}
}
func coqDrivers() string {
	var it []string
	for _, d := range registry {
		it = append(it, fmt.Sprintf("(%d,%s,%d)", d.ID, hlib.Bool(d.Enable), d.Height))
	}
	return "(" + hlib.List(it) + ")%Z"
}

// address ids whose driver derives an address from a public key (3 = utxo is registered but panics,
// 4..7 have no driver): Transaction.checkSign refuses a Signature.ty naming another one
func coqAddrIDs() string {
	var it []string
	for id := int32(0); id <= address.MaxID; id++ {
		ok := func() (ok bool) {
			defer func() {
				if r := recover(); r != nil {
					ok = false
				}
			}()
			address.PubKeyToAddr(id, append([]byte{2}, make([]byte, 32)...))
			return true
		}()
		if ok {
			it = append(it, hlib.Z(int64(id)))
		}
	}
	return hlib.List(it)
}
func drvID(name string) int32 {
	for _, d := range registry {
		if d.Name == name {
			return int32(d.ID)
		}
	}
	panic("driver " + name)
}
func loadKey(k keyJ) crypto.PrivKey {
	c, err := crypto.Load(k.Drv, -1)
	if err != nil {
		panic(err)
	}
	p, err := c.PrivKeyFromBytes(unhex(k.Priv))
	if err != nil {
		panic(err)
	}
	return p
}

// direct call of the driver that the signature type names
func driverVerdict(t *types.Transaction) (ok bool) {
	if t.Signature == nil {
		return false
	}
	c := pclone(t)
	c.Signature = nil
	msg := types.Encode(c)
	defer func() {
		if r := recover(); r != nil {
			ok = false
		}
	}()
	name := crypto.GetName(int(types.ExtractCryptoID(t.Signature.Ty)))
	d, err := crypto.Load(name, -1)
	if err != nil {
		return false
	}
	return d.Validate(msg, t.Signature.Pubkey, t.Signature.Signature) == nil
}

// ---------- error classes ----------

func errClass(err error) int {
	switch err {
	case nil:
		return 0
	case types.ErrTxGroupCountLessThanTwo:
		return 1
	case types.ErrTxGroupEmpty:
		return 2
	case types.ErrTxChainID:
		return 3
	case types.ErrTxGroupParaCount:
		return 4
	case types.ErrTxGroupParaMainMixed:
		return 5
	case types.ErrTxGroupFeeNotZero:
		return 6
	case types.ErrTxMsgSizeTooBig:
		return 7
	case types.ErrTxFeeTooLow:
		return 8
	case types.ErrTxFeeTooHigh:
		return 9
	case types.ErrTxGroupHeader:
		return 10
	case types.ErrTxGroupCountBigThanMaxSize:
		return 11
	case types.ErrTxGroupCount:
		return 12
	case types.ErrTxGroupNext:
		return 13
	case types.ErrNomalTx:
		return 14
	}
	return 15
}

// ---------- configurations ----------

var cfgs = map[int32]*types.Chain33Config{}

func getCfg(chain int32) *types.Chain33Config {
	if c, ok := cfgs[chain]; ok {
		return c
	}
	s := strings.Replace(types.GetDefaultCfgstring(), "ChainID=33", fmt.Sprintf("ChainID=%d", chain), 1)
	c := types.NewChain33Config(s)
	if c.GetChainID() != chain {
		panic("chain id not applied")
	}
	cfgs[chain] = c
	return c
}
func applyEnv(e envJ) *types.Chain33Config {
	c := getCfg(e.Chain)
	c.SetFork(types.ForkTxChainIDStrict, e.Strict)
	c.SetFork("ForkTxGroupPara", e.Para)
	c.SetFork("ForkBlockCheck", e.Block)
	return c
}
func coqEnv(e envJ) string {
	return hlib.App("mk_env", hlib.Z(int64(e.Chain)), hlib.Z(e.H), hlib.Z(e.Strict), hlib.Z(e.Para), hlib.Z(e.Block),
		hlib.Z(e.MinFee), hlib.Z(e.MaxFee))
}

// ---------- observation ----------

func safeCheck(g *types.Transactions, c *types.Chain33Config, e envJ) (cl int) {
	defer func() {
		if r := recover(); r != nil {
			cl = 100
		}
	}()
	return errClass(g.Check(c, e.H, e.MinFee, e.MaxFee))
}
func safeCheckTx(g *types.Transactions, c *types.Chain33Config, e envJ) (cl int) {
	defer func() {
		if r := recover(); r != nil {
			cl = 100
		}
	}()
	t := g.Tx()
	if t == nil {
		return 255
	}
	a := errClass(t.Check(c, e.H, e.MinFee, e.MaxFee))
	b := errClass(types.NewTransactionCache(pclone(t)).Check(c, e.H, e.MinFee, e.MaxFee))
	if a != b {
		return 253
	}
	return a
}
func safeSign(g *types.Transactions, h int64) (out int) {
	defer func() {
		if r := recover(); r != nil {
			out = 2
		}
	}()
	a := g.CheckSign(h)
	if t := g.Tx(); t != nil && t.GroupCount >= 2 && t.GroupCount <= 20 {
		if b := types.NewTransactionCache(t).CheckSign(h); a != b {
			return 3
		}
	}
	if a {
		return 1
	}
	return 0
}

// the Tx()/GetTxGroup path is observed on every entry where the head's GroupCount or the
// member count matters and on every third other entry
func obsTx(kind string, idx int) bool {
	for _, p := range []string{"same", "count/", "field/GroupCount", "struct/keep", "struct/drop", "struct/dup", "fee/"} {
		if strings.HasPrefix(kind, p) {
			return true
		}
	}
	return idx%3 == 0
}

// runChunks emits the batch in cases of at most `per` entries
func runChunks(o *hlib.Out, kind string, b *batchJ, per int) {
	all := b.Entries
	for off := 0; off < len(all) || off == 0; off += per {
		end := off + per
		if end > len(all) {
			end = len(all)
		}
		bb := *b
		bb.Entries = all[off:end]
		runBatch(o, kind, &bb)
		if len(all) == 0 {
			break
		}
	}
}

// ---------- one batch ----------

type stats struct{ entries, accepted, rejected int }

var st stats
var entryKinds = map[string]int{}

func runBatch(o *hlib.Out, kind string, b *batchJ) {
	inputs := make([]*types.Transaction, len(b.Inputs))
	for i, j := range b.Inputs {
		inputs[i] = fromJ(j)
	}
	dinit := []byte{}
	if len(inputs) > 0 {
		dinit = digest(inputs[0])
	}
	inputTerms := make([]string, len(inputs))
	for i, t := range inputs {
		inputTerms[i] = coqTx(t)
	}
	work := cloneList(inputs)
	var group *types.Transactions
	cr := 0
	func() {
		defer func() {
			if r := recover(); r != nil {
				cr = 100
			}
		}()
		g, err := types.CreateTxGroup(work, b.Rate)
		cr = errClass(err)
		group = g
	}()
	if cr != 0 {
		o.Emit(kind+"/create-error", true,
			hlib.App("CBatch", coqDrivers(), coqAddrIDs(), hlib.List(inputTerms), hlib.Z(b.Rate), hlib.N(uint64(cr)), hlib.Z(0), "[]", "[]", "[]", "[]", "[]", "[]", "[]"),
			b, map[string]interface{}{"create": cr})
		return
	}
	G := group.Txs
	// sign
	for i := range G {
		k := b.Keys[i%len(b.Keys)]
		if err := group.SignN(i, k.Ty, loadKey(k)); err != nil {
			panic(err)
		}
	}
	var dg, sigs []string
	knownBase := map[string]bool{string(hashPre(inputs[0])): true}
	for _, t := range G {
		dg = append(dg, hlib.Hx(digest(t)))
		sigs = append(sigs, coqSig(t.Signature))
		knownBase[string(hashPre(t))] = true
	}
	// pool: members of another created group, signed, plus a single transaction
	var pool []*types.Transaction
	if len(b.PoolInputs) >= 2 {
		pin := make([]*types.Transaction, len(b.PoolInputs))
		for i, j := range b.PoolInputs {
			pin[i] = fromJ(j)
		}
		pg, err := types.CreateTxGroup(pin, b.PoolRate)
		if err != nil {
			panic(err)
		}
		for i := range pg.Txs {
			k := b.Keys[(i+1)%len(b.Keys)]
			pg.SignN(i, k.Ty, loadKey(k))
		}
		pool = append(pool, pg.Txs...)
	}
	if b.PoolSingle != nil {
		t := fromJ(b.PoolSingle)
		k := b.Keys[0]
		t.Sign(k.Ty, loadKey(k))
		pool = append(pool, t)
	}
	var poolTerms, poolDg []string
	for _, t := range pool {
		poolTerms = append(poolTerms, coqTx(t))
		poolDg = append(poolDg, hlib.Hx(digest(t)))
		knownBase[string(hashPre(t))] = true
	}
	var envTerms []string
	for _, e := range b.Envs {
		envTerms = append(envTerms, coqEnv(e))
	}

	var entryTerms []string
	var implOut []map[string]interface{}
	nontrivial := false
	for _, en := range b.Entries {
		known := map[string]bool{}
		for k := range knownBase {
			known[k] = true
		}
		L := cloneList(G)
		var opTerms []string
		for oi := range en.Ops {
			op := &en.Ops[oi]
			switch op.Op {
			case "swap":
				if op.I < len(L) && op.J < len(L) {
					L[op.I], L[op.J] = L[op.J], L[op.I]
				}
				opTerms = append(opTerms, hlib.App("OSwap", hlib.Nat(op.I), hlib.Nat(op.J)))
			case "drop":
				if op.I < len(L) {
					L = append(L[:op.I:op.I], L[op.I+1:]...)
				}
				opTerms = append(opTerms, hlib.App("ODrop", hlib.Nat(op.I)))
			case "dup":
				if op.I < len(L) {
					c := pclone(L[op.I])
					L = append(L[:op.I+1:op.I+1], append([]*types.Transaction{c}, L[op.I+1:]...)...)
				}
				opTerms = append(opTerms, hlib.App("ODup", hlib.Nat(op.I)))
			case "ins":
				if op.J < len(pool) {
					i := op.I
					if i > len(L) {
						i = len(L)
					}
					c := pclone(pool[op.J])
					L = append(L[:i:i], append([]*types.Transaction{c}, L[i:]...)...)
				}
				opTerms = append(opTerms, hlib.App("OIns", hlib.Nat(op.I), hlib.Nat(op.J)))
			case "subst":
				if op.J < len(pool) && op.I < len(L) {
					L[op.I] = pclone(pool[op.J])
				}
				opTerms = append(opTerms, hlib.App("OSubst", hlib.Nat(op.I), hlib.Nat(op.J)))
			case "keep":
				if op.I < len(L) {
					L = L[:op.I]
				}
				opTerms = append(opTerms, hlib.App("OKeep", hlib.Nat(op.I)))
			case "rev":
				for i, j := 0, len(L)-1; i < j; i, j = i+1, j-1 {
					L[i], L[j] = L[j], L[i]
				}
				opTerms = append(opTerms, "ORev")
			case "field":
				nt := fromJ(op.T)
				opTerms = append(opTerms, hlib.App("OField", hlib.Nat(op.I), mutTerm(L[op.I], nt)))
				L[op.I] = nt
			case "resign":
				L[op.I].Sign(op.Key.Ty, loadKey(*op.Key))
				opTerms = append(opTerms, hlib.App("OResign", hlib.Nat(op.I), coqSig(L[op.I].Signature)))
			case "allcount":
				for _, t := range L {
					t.GroupCount = int32(op.Z)
				}
				opTerms = append(opTerms, hlib.App("OAllCount", hlib.Z(op.Z)))
			case "rebuild":
				g := &types.Transactions{Txs: L}
				g.RebuiltGroup()
				var ds []string
				for _, t := range L {
					ds = append(ds, hlib.Hx(digest(t)))
					known[string(hashPre(t))] = true
				}
				opTerms = append(opTerms, hlib.App("ORebuild", hlib.List(ds)))
			default:
				panic("op " + op.Op)
			}
		}
		var extra []string
		for _, t := range L {
			p := string(hashPre(t))
			if !known[p] {
				known[p] = true
				extra = append(extra, hlib.Hx(digest(t)))
			}
		}
		e := b.Envs[en.Env]
		c := applyEnv(e)
		g := &types.Transactions{Txs: cloneList(L)}
		chk := safeCheck(g, c, e)
		chktx := 254
		if obsTx(en.Kind, st.entries) {
			chktx = safeCheckTx(g, c, e)
		}
		sgn := safeSign(g, e.H)
		drv := new(big.Int)
		for i, t := range L {
			if driverVerdict(t) {
				drv.SetBit(drv, i, 1)
			}
		}
		entryTerms = append(entryTerms, hlib.App("E", hlib.List(opTerms), hlib.Nat(en.Env), hlib.List(extra),
			hlib.N(uint64(chk)), hlib.N(uint64(chktx)), hlib.N(uint64(sgn)), drv.String()+"%N"))
		implOut = append(implOut, map[string]interface{}{"kind": en.Kind, "check": chk, "checktx": chktx, "checksign": sgn, "driver": drv.String()})
		st.entries++
		entryKinds[strings.SplitN(en.Kind, "@", 2)[0]]++
		if chk == 0 && sgn == 1 {
			st.accepted++
		} else {
			st.rejected++
		}
		if len(en.Ops) > 0 {
			nontrivial = true
		}
	}
	o.Emit(kind, nontrivial,
		hlib.App("CBatch", coqDrivers(), coqAddrIDs(), hlib.List(inputTerms), hlib.Z(b.Rate), hlib.N(0), hlib.Z(G[0].Fee),
			hlib.List(dg), hlib.Hx(dinit), hlib.List(sigs), hlib.List(poolTerms), hlib.List(poolDg),
			hlib.List(envTerms), hlib.List(entryTerms)),
		b, map[string]interface{}{"create": 0, "fee0": G[0].Fee, "entries": implOut})
}

// ---------- generators ----------

var mainExecs = []string{"coins", "token", "none", "user.write", "ticket"}
var paraA = []string{"user.p.para.coins", "user.p.para.token", "user.p.para.none"}
var paraB = []string{"user.p.other.coins", "user.p.o.token"}
var paraOdd = []string{"user.p.", "user.p.noend", "user.p..x", "user.p.para."}
var tos = []string{"1JmFaA6unrCFYEWPGRi7uuXY1KthTJxJEP", "14KEKbYtKKQm4wMthSK9J4La4nAiidGozt", "", "0xd83b69c56834e85e023b1738e69bfa2f0dd52905"}
var expires = []int64{0, 0, 120, 1000000, 1000000000, 1000000001, 1700000000, types.TxHeightFlag + 100}

const defChain = 33

func genMember(r *hlib.Rng, mix string, i int) *types.Transaction {
	var ex string
	switch mix {
	case "main":
		ex = hlib.Pick(r, mainExecs)
	case "para":
		ex = hlib.Pick(r, paraA)
	case "para+main":
		if i%2 == 0 {
			ex = hlib.Pick(r, paraA)
		} else {
			ex = hlib.Pick(r, mainExecs)
		}
	case "two-para":
		if i%2 == 0 {
			ex = hlib.Pick(r, paraA)
		} else {
			ex = hlib.Pick(r, paraB)
		}
	default: // odd
		ex = hlib.Pick(r, append(append([]string{}, paraOdd...), "user.p.para.coins"))
	}
	t := &types.Transaction{Execer: []byte(ex), Payload: r.Bytes(r.Range(1, 12)), Nonce: int64(r.U64() >> 1),
		To: hlib.Pick(r, tos), Expire: hlib.Pick(r, expires), ChainID: defChain}
	switch r.Intn(6) {
	case 0:
		t.Fee = 0
	case 1:
		t.Fee = 100000
	case 2:
		t.Fee = int64(r.Intn(3000000))
	default:
		t.Fee = 100000 * int64(r.Range(1, 5))
	}
	return t
}

func genKeys(r *hlib.Rng) []keyJ {
	var ks []keyJ
	for i := 0; i < 3; i++ {
		drv := "secp256k1"
		if i == 2 {
			drv = "ed25519"
		}
		ks = append(ks, keyJ{Drv: drv, Priv: hlib.HexS(r.Bytes(32)), Ty: drvID(drv)})
	}
	return ks
}

func stdEnvs(rate int64) []envJ {
	mh := int64(types.MaxHeight)
	return []envJ{
		{defChain, 10, mh, 0, 0, rate, 1000000000},   // 0: usual
		{defChain, 10, mh, 1 << 40, 0, 0, 0},         // 1: no minimum fee, para fork off
		{defChain, 10, 0, 0, 0, rate, 1000000000},    // 2: strict chain id
		{77, 10, 5, 0, 0, rate, 1000000000},          // 3: other chain, strict
		{defChain, 10, mh, 0, 0, rate * 3, 0},        // 4: higher rate
		{defChain, 10, mh, 0, 0, rate, 150000},       // 5: low ceiling
		{defChain, 10, mh, 0, 11, rate, 150000},      // 6: low ceiling before ForkBlockCheck
		{defChain, -1, mh, 1 << 40, 1 << 40, rate, 150000}, // 7: height -1
		{77, 10, mh, 0, 0, rate, 1000000000},         // 8: other chain, not strict
	}
}

// required fee of a list as the property text defines it (harness's own arithmetic)
func required(L []*types.Transaction, rate int64) int64 {
	tot := int64(0)
	for _, t := range L {
		sz := proto.Size(t)
		if t.Signature == nil {
			sz += 300
		}
		tot += int64(sz/1000+1) * rate
	}
	return tot
}

func fieldOp(i int, t *types.Transaction) opJ { return opJ{Op: "field", I: i, T: toJ(t)} }

type gen struct {
	r    *hlib.Rng
	full bool // thorough: every member and every alteration
}

// entries for the created group G (signed); budget limits the sampled part
func (g *gen) entries(G []*types.Transaction, pool int, rate int64, keys []keyJ, budget int) []entryJ {
	r := g.r
	n := len(G)
	var es []entryJ
	add := func(kind string, env int, ops ...opJ) { es = append(es, entryJ{Kind: kind, Ops: ops, Env: env}) }
	for e := 0; e < 9; e++ {
		add(fmt.Sprintf("same@env%d", e), e)
	}
	var sampled []entryJ
	sadd := func(kind string, env int, ops ...opJ) {
		sampled = append(sampled, entryJ{Kind: kind, Ops: ops, Env: env})
	}
	envFor := func() int {
		if r.Chance(1, 4) {
			return 1
		}
		return 0
	}
	mid := n / 2
	// ---- core: structural alterations at the first, a middle and the last position (always present)
	type pr struct{ i, j int }
	pairs := []pr{{0, 1}, {n - 2, n - 1}, {0, n - 1}}
	if n >= 4 {
		pairs = append(pairs, pr{1, n - 2}, pr{1 + r.Intn(n-2), 1 + r.Intn(n-2)})
	}
	seen := map[pr]bool{}
	for pi, p := range pairs {
		if p.i == p.j || seen[p] || seen[pr{p.j, p.i}] {
			continue
		}
		seen[p] = true
		add("struct/swap", 0, opJ{Op: "swap", I: p.i, J: p.j})
		if pi == 0 || pi == 3 {
			add("struct/swap+rebuild", envFor(), opJ{Op: "swap", I: p.i, J: p.j}, opJ{Op: "rebuild"})
		}
	}
	pos := []int{0, mid, n - 1}
	if mid == 0 || mid == n-1 {
		pos = []int{0, n - 1}
	}
	for pi, i := range pos {
		k := r.Intn(pool)
		add("struct/drop", 0, opJ{Op: "drop", I: i})
		add("struct/dup", 0, opJ{Op: "dup", I: i})
		add("struct/insert", 0, opJ{Op: "ins", I: i, J: k})
		add("struct/subst", 0, opJ{Op: "subst", I: i, J: k})
		if pi == len(pos)-1 { // the variants that re-hash every member: at one position (all positions in the sampled part)
			add("struct/drop+count", 0, opJ{Op: "drop", I: i}, opJ{Op: "allcount", Z: int64(n - 1)})
			add("struct/drop+count+rebuild", envFor(), opJ{Op: "drop", I: i}, opJ{Op: "allcount", Z: int64(n - 1)}, opJ{Op: "rebuild"})
			add("struct/dup+count", 0, opJ{Op: "dup", I: i}, opJ{Op: "allcount", Z: int64(n + 1)})
			add("struct/insert+count", 0, opJ{Op: "ins", I: i, J: k}, opJ{Op: "allcount", Z: int64(n + 1)})
			add("struct/subst+rebuild", envFor(), opJ{Op: "subst", I: i, J: k}, opJ{Op: "rebuild"})
		}
	}
	for k := 0; k < pool; k++ {
		add("struct/append", 0, opJ{Op: "ins", I: n, J: k})
	}
	add("struct/append+count+rebuild", 1, opJ{Op: "ins", I: n, J: 0}, opJ{Op: "allcount", Z: int64(n + 1)}, opJ{Op: "rebuild"})
	for _, k := range []int{n - 1, mid} {
		if k >= 1 {
			add("struct/keep", 0, opJ{Op: "keep", I: k})
			if k == n-1 {
				add("struct/keep+count", 0, opJ{Op: "keep", I: k}, opJ{Op: "allcount", Z: int64(k)})
				add("struct/keep+count+rebuild", 0, opJ{Op: "keep", I: k}, opJ{Op: "allcount", Z: int64(k)}, opJ{Op: "rebuild"})
			}
		}
	}
	add("struct/rev", 0, opJ{Op: "rev"})
	add("struct/rev+rebuild", 0, opJ{Op: "rev"}, opJ{Op: "rebuild"})
	add("rebuild/unchanged", 0, opJ{Op: "rebuild"})
	for _, z := range []int64{0, 21, int64(n + 1)} {
		add("count/all", 0, opJ{Op: "allcount", Z: z})
	}
	add("count/all+rebuild", 1, opJ{Op: "allcount", Z: int64(n + 1)}, opJ{Op: "rebuild"})
	// ---- core: fee edge cases (head fee around the required sum; other members carrying a fee)
	for _, env := range []int{0, 4} {
		rt := rate
		if env == 4 {
			rt = rate * 3
		}
		req := required(G, rt)
		for _, f := range []int64{req - 1, req, req + 1, 0, -1, 150000, 150001, math.MaxInt64, math.MinInt64} {
			if f == G[0].Fee {
				continue
			}
			m := pclone(G[0])
			m.Fee = f
			add("fee/head", env, fieldOp(0, m))
			if env == 0 && f == req-1 {
				add("fee/head+rebuild", env, fieldOp(0, m), opJ{Op: "rebuild"})
			}
			if env == 0 && (f == 150000 || f == 150001) {
				add("fee/head-ceiling", 5, fieldOp(0, m))
				add("fee/head-ceiling", 6, fieldOp(0, m))
				add("fee/head-ceiling", 7, fieldOp(0, m))
				if f == 150001 {
					add("fee/head-ceiling+rebuild", 5, fieldOp(0, m), opJ{Op: "rebuild"})
				}
			}
		}
	}
	for _, i := range []int{1, n - 1} {
		for _, f := range []int64{1, -1} {
			m := pclone(G[i])
			m.Fee = f
			add("fee/other", envFor(), fieldOp(i, m))
			if i == 1 && f == 1 {
				add("fee/other+rebuild", envFor(), fieldOp(i, m), opJ{Op: "rebuild"})
			}
		}
	}
	{
		i := r.Intn(n)
		m := pclone(G[i])
		m.ChainID = 77
		add("chain/member", 2, fieldOp(i, m))
		add("chain/member", 3, fieldOp(i, m))
	}
	// ---- sampled: single-field and signature alterations of every member, structure at every position
	for i := 0; i < n; i++ {
		names, muts := fieldMutants(r, G[i])
		for k, m := range muts {
			sadd("field/"+names[k], envFor(), fieldOp(i, m))
		}
		j := (i + 1 + r.Intn(n-1)) % n
		if !bytes.Equal(G[j].Next, G[i].Next) {
			m := pclone(G[i])
			m.Next = append([]byte{}, G[j].Next...)
			sadd("field/Next:other-member", 0, fieldOp(i, m))
		}
		m := pclone(G[i])
		m.Next = digest(G[j])
		if !bytes.Equal(m.Next, G[i].Next) {
			sadd("field/Next:hash-of-other", 0, fieldOp(i, m))
		}
		s := G[i].Signature
		ms := func(desc string, ns *types.Signature) {
			m := pclone(G[i])
			m.Signature = ns
			sadd("sig/"+desc, envFor(), fieldOp(i, m))
		}
		ms("nil", nil)
		flip := func(b []byte, k int) []byte {
			nb := append([]byte{}, b...)
			nb[k%len(nb)] ^= byte(1 << uint(r.Intn(8)))
			return nb
		}
		ms("sig-flip", &types.Signature{Ty: s.Ty, Pubkey: s.Pubkey, Signature: flip(s.Signature, 5+r.Intn(len(s.Signature)-6))})
		ms("pub-flip", &types.Signature{Ty: s.Ty, Pubkey: flip(s.Pubkey, 1+r.Intn(len(s.Pubkey)-1)), Signature: s.Signature})
		oty := int32(2)
		if types.ExtractCryptoID(s.Ty) == 2 {
			oty = 1
		}
		ms("ty-other-driver", &types.Signature{Ty: oty, Pubkey: s.Pubkey, Signature: s.Signature})
		ms("ty-unknown", &types.Signature{Ty: 999, Pubkey: s.Pubkey, Signature: s.Signature})
		o := G[j].Signature
		if !bytes.Equal(o.Signature, s.Signature) {
			ms("sig-of-other-member", &types.Signature{Ty: s.Ty, Pubkey: s.Pubkey, Signature: o.Signature})
			m := pclone(G[i])
			m.Signature = &types.Signature{Ty: s.Ty, Pubkey: s.Pubkey, Signature: o.Signature}
			m2 := pclone(m)
			m2.Signature = &types.Signature{Ty: s.Ty, Pubkey: o.Pubkey, Signature: o.Signature}
			if !bytes.Equal(o.Pubkey, s.Pubkey) && o.Ty == s.Ty {
				sadd("sig/whole-of-other-member", 0, fieldOp(i, m), fieldOp(i, m2))
			}
		}
		ok := keys[(i+1)%len(keys)]
		sadd("resign/other-key", envFor(), opJ{Op: "resign", I: i, Key: &ok})
		sadd("struct/drop", 0, opJ{Op: "drop", I: i})
		sadd("struct/drop+count", 0, opJ{Op: "drop", I: i}, opJ{Op: "allcount", Z: int64(n - 1)})
		sadd("struct/drop+count+rebuild", envFor(), opJ{Op: "drop", I: i}, opJ{Op: "allcount", Z: int64(n - 1)}, opJ{Op: "rebuild"})
		sadd("struct/dup", 0, opJ{Op: "dup", I: i})
		sadd("struct/dup+count", 0, opJ{Op: "dup", I: i}, opJ{Op: "allcount", Z: int64(n + 1)})
		if j != i {
			sadd("struct/swap", 0, opJ{Op: "swap", I: i, J: j})
			sadd("struct/swap+rebuild", envFor(), opJ{Op: "swap", I: i, J: j}, opJ{Op: "rebuild"})
		}
		for k := 0; k < pool; k++ {
			sadd("struct/insert", 0, opJ{Op: "ins", I: i, J: k})
			sadd("struct/subst", 0, opJ{Op: "subst", I: i, J: k})
			if k == 0 {
				sadd("struct/insert+count", 0, opJ{Op: "ins", I: i, J: k}, opJ{Op: "allcount", Z: int64(n + 1)})
				sadd("struct/subst+rebuild", envFor(), opJ{Op: "subst", I: i, J: k}, opJ{Op: "rebuild"})
			}
		}
		if i >= 1 {
			sadd("struct/keep", 0, opJ{Op: "keep", I: i})
		}
		for _, f := range []int64{1, -1} {
			if i >= 1 {
				m := pclone(G[i])
				m.Fee = f
				sadd("fee/other", envFor(), fieldOp(i, m))
				sadd("fee/other+rebuild", envFor(), fieldOp(i, m), opJ{Op: "rebuild"})
			}
		}
		mc := pclone(G[i])
		mc.ChainID = 77
		sadd("chain/member", 2+r.Intn(2), fieldOp(i, mc))
	}
	if !g.full && len(sampled) > budget {
		hlib.Shuffle(r, sampled)
		sampled = sampled[:budget]
	}
	return append(es, sampled...)
}

func (g *gen) batch(n int, mix string, rate int64, stale bool) *batchJ {
	r := g.r
	b := &batchJ{Rate: rate, Keys: genKeys(r), PoolRate: rate, Envs: stdEnvs(rate)}
	for i := 0; i < n; i++ {
		t := genMember(r, mix, i)
		b.Inputs = append(b.Inputs, toJ(t))
	}
	if stale {
		// inputs taken from an earlier group: GroupCount / Header / Next still set
		old := make([]*types.Transaction, n+1)
		for i := range old {
			if i < n {
				old[i] = fromJ(b.Inputs[i])
			} else {
				old[i] = genMember(r, mix, i)
			}
		}
		if _, err := types.CreateTxGroup(old, rate); err != nil {
			panic(err)
		}
		for i := 0; i < n; i++ {
			b.Inputs[i] = toJ(old[i])
		}
	}
	for i := 0; i < 2; i++ {
		b.PoolInputs = append(b.PoolInputs, toJ(genMember(r, mix, i)))
	}
	b.PoolSingle = toJ(genMember(r, "main", 0))
	return b
}

// the created and signed group of a batch (to derive the entries from)
func created(b *batchJ) []*types.Transaction {
	in := make([]*types.Transaction, len(b.Inputs))
	for i, j := range b.Inputs {
		in[i] = fromJ(j)
	}
	g, err := types.CreateTxGroup(in, b.Rate)
	if err != nil {
		return nil
	}
	for i := range g.Txs {
		k := b.Keys[i%len(b.Keys)]
		g.SignN(i, k.Ty, loadKey(k))
	}
	return g.Txs
}

// ---------- signature malleability (finding 2) ----------

var secpN, _ = new(big.Int).SetString("FFFFFFFFFFFFFFFFFFFFFFFFFFFFFFFEBAAEDCE6AF48A03BBFD25E8CD0364141", 16)

func canon(v *big.Int) []byte {
	b := v.Bytes()
	if len(b) == 0 {
		b = []byte{0}
	}
	if b[0]&0x80 != 0 {
		b = append([]byte{0}, b...)
	}
	return b
}
func derRS(sig []byte) (r, s *big.Int, ok bool) {
	if len(sig) < 8 || sig[0] != 0x30 || int(sig[1]) != len(sig)-2 || sig[2] != 2 {
		return nil, nil, false
	}
	rl := int(sig[3])
	if 4+rl+2 > len(sig) || sig[4+rl] != 2 {
		return nil, nil, false
	}
	sl := int(sig[5+rl])
	if 6+rl+sl != len(sig) {
		return nil, nil, false
	}
	return new(big.Int).SetBytes(sig[4 : 4+rl]), new(big.Int).SetBytes(sig[6+rl:]), true
}
func highS(sig []byte) []byte {
	r, s, ok := derRS(sig)
	if !ok {
		return nil
	}
	rb, sb := canon(r), canon(new(big.Int).Sub(secpN, s))
	out := []byte{0x30, byte(4 + len(rb) + len(sb)), 2, byte(len(rb))}
	out = append(out, rb...)
	out = append(out, 2, byte(len(sb)))
	return append(out, sb...)
}

// ---------- main ----------

func main() {
	opts := hlib.ParseFlags()
	o := hlib.NewOut(opts.OutDir)
	defer o.Close()
	initRegistry()

	if opts.Replay != "" {
		var b batchJ
		if err := hlib.ReplayInput(opts.Replay, &b); err != nil {
			panic(err)
		}
		runBatch(o, "replay", &b)
		return
	}

	r := hlib.NewRng(opts.Seed)
	g := &gen{r: r, full: opts.Thorough()}
	budget := 40
	rounds := 1
	if opts.Thorough() {
		rounds = 3
	}
	mixes := []string{"main", "para", "para+main", "two-para", "odd", "main", "para"}
	rates := []int64{100000, 100000, 0, 1, 100000, 1 << 40, 250000}

	// A. creation errors and odd inputs
	for _, n := range []int{0, 1} {
		b := g.batch(n, "main", 100000, false)
		b.PoolInputs, b.PoolSingle = nil, nil
		runBatch(o, "create/too-few", b)
	}
	{
		b := g.batch(3, "main", 100000, false)
		b.Inputs[1].Payload = hlib.HexS(bytes.Repeat([]byte{7}, 100001))
		b.PoolInputs, b.PoolSingle = nil, nil
		runBatch(o, "create/too-big", b)
		b = g.batch(2, "main", 100000, false)
		b.Inputs[0].Payload = hlib.HexS(bytes.Repeat([]byte{9}, 99640)) // around MaxTxSize with the 300 bytes for the signature
		b.PoolInputs, b.PoolSingle = nil, nil
		runBatch(o, "create/too-big", b)
	}

	// B. guarded stream: every size 2..20, parachain mixes, rates
	k := 0
	for round := 0; round < rounds; round++ {
		for n := 2; n <= 20; n++ {
			mix := mixes[k%len(mixes)]
			rate := rates[(k/2)%len(rates)]
			k++
			b := g.batch(n, mix, rate, false)
			// fee and size edge cases among the inputs
			switch k % 5 {
			case 0:
				b.Inputs[0].Fee = 0
				for _, in := range b.Inputs[1:] {
					in.Fee = 0
				}
			case 1:
				b.Inputs[n-1].Payload = hlib.HexS(bytes.Repeat([]byte{byte(k)}, 560+r.Intn(8))) // size around 1000 once signed
			case 2:
				b.Inputs[0].Payload = hlib.HexS(bytes.Repeat([]byte{byte(k)}, 575+r.Intn(8)))
			case 3:
				b.Inputs[n-1].ChainID = 0
			}
			G := created(b)
			if G == nil {
				panic("guarded batch not created")
			}
			bud := budget
			if n <= 4 {
				bud = 3 * budget
			}
			b.Entries = g.entries(G, 3, rate, b.Keys, bud)
			runChunks(o, fmt.Sprintf("group/n=%02d/%s", n, mix), b, 45)
		}
	}
	// every alteration of small groups
	gf := &gen{r: r, full: true}
	for n := 2; n <= 3; n++ {
		for _, mix := range []string{"main", "para"} {
			b := g.batch(n, mix, 100000, false)
			G := created(b)
			b.Entries = gf.entries(G, 3, 100000, b.Keys, 0)
			runChunks(o, fmt.Sprintf("exhaustive/n=%02d/%s", n, mix), b, 60)
		}
	}
	// sizes beyond the maximum (CreateTxGroup has no upper bound; Check has)
	for _, n := range []int{21, 22} {
		b := g.batch(n, "main", 100000, false)
		b.PoolInputs = nil
		b.Entries = []entryJ{{Kind: "same@env0", Env: 0}, {Kind: "same@env1", Env: 1},
			{Kind: "struct/keep+count+rebuild", Env: 0, Ops: []opJ{{Op: "keep", I: 20}, {Op: "allcount", Z: 20}, {Op: "rebuild"}}},
			{Kind: "count/all", Env: 0, Ops: []opJ{{Op: "allcount", Z: 20}}}}
		runBatch(o, fmt.Sprintf("group/n=%02d/over-max", n), b)
	}

	// C. inputs taken from an earlier group (GroupCount / Header / Next still set; the last
	// input carries a stale Next: former finding 1, fixed in chain33 db466e1) - guarded like B:
	// the created group must pass, and RebuiltGroup must drop a Next put on the last member
	for i := 0; i < 3*rounds; i++ {
		n := 2 + i%3
		b := g.batch(n, "main", 100000, true)
		G := created(b)
		if G == nil {
			panic("stale batch not created")
		}
		m := pclone(G[n-1])
		m.Next = digest(G[0])
		b.Entries = []entryJ{{Kind: "same@env0", Env: 0}, {Kind: "same@env1", Env: 1},
			{Kind: "field/Next:stale-last", Env: 0, Ops: []opJ{fieldOp(n-1, m)}},
			{Kind: "field/Next:stale-last+rebuild", Env: 0, Ops: []opJ{fieldOp(n-1, m), {Op: "rebuild"}}}}
		runBatch(o, "regress/stale-next", b)
	}
	// D. unrestricted stream: alterations that meet the recorded findings
	for i := 0; i < 3*rounds; i++ {
		n := 2 + i%3
		b := g.batch(n, "main", 100000, false)
		G := created(b)
		for m := 0; m < n; m++ {
			s := G[m].Signature
			if types.ExtractCryptoID(s.Ty) != 1 {
				continue
			}
			hs := highS(s.Signature)
			if hs == nil {
				panic("der")
			}
			t := pclone(G[m])
			t.Signature = &types.Signature{Ty: s.Ty, Pubkey: s.Pubkey, Signature: hs}
			bb := *b
			bb.Entries = []entryJ{{Kind: "sig/high-s", Env: 0, Ops: []opJ{fieldOp(m, t)}}}
			runBatch(o, "finding/sig-malleable", &bb)
			t2 := pclone(G[m])
			t2.Signature = &types.Signature{Ty: s.Ty, Pubkey: s.Pubkey, Signature: append(append([]byte{}, s.Signature...), 0)}
			bb2 := *b
			bb2.Entries = []entryJ{{Kind: "sig/trailing", Env: 0, Ops: []opJ{fieldOp(m, t2)}}}
			runBatch(o, "finding/sig-malleable", &bb2)
			break
		}
		for _, bits := range []int32{1 << 12, 2 << 12, 7 << 12, 1 << 30} {
			m := i % n
			s := G[m].Signature
			t := pclone(G[m])
			t.Signature = &types.Signature{Ty: s.Ty | bits, Pubkey: s.Pubkey, Signature: s.Signature}
			bb := *b
			bb.Entries = []entryJ{{Kind: "sig/ty-bits", Env: 0, Ops: []opJ{fieldOp(m, t)}}}
			runBatch(o, "finding/ty-bits", &bb)
		}
	}
	fmt.Printf("cases: %d entries: %d accepted: %d rejected: %d\n", o.Count(), st.entries, st.accepted, st.rejected)
	var ks []string
	for k, v := range entryKinds {
		ks = append(ks, fmt.Sprintf("%s=%d", k, v))
	}
	_ = ks
}
