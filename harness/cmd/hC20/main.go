// hC20: runs common/difficulty on generated compact values and integers.
package main

import (
	"math/big"

	"github.com/33cn/chain33/common/difficulty"
	"verifharness/hlib"
)

type decIn struct {
	Op string `json:"op"`
	C  uint32 `json:"c,omitempty"`
	C2 uint32 `json:"c2,omitempty"`
	N  string `json:"n,omitempty"`
	N2 string `json:"n2,omitempty"`
}

func emitDecode(o *hlib.Out, kind string, c uint32) {
	b := difficulty.CompactToBig(c)
	r := difficulty.BigToCompact(b)
	w := difficulty.CalcWork(c)
	o.Emit(kind, b.Sign() != 0,
		hlib.App("CDecode", hlib.Z(int64(c)), hlib.ZBig(b), hlib.Z(int64(r)), hlib.ZBig(w)),
		decIn{Op: "decode", C: c}, map[string]string{"big": b.String(), "recode": big.NewInt(int64(r)).String(), "work": w.String()})
}

func emitEncode(o *hlib.Out, kind string, n *big.Int) {
	c := difficulty.BigToCompact(n)
	back := difficulty.CompactToBig(c)
	o.Emit(kind, n.Sign() != 0,
		hlib.App("CEncode", hlib.ZBig(n), hlib.Z(int64(c)), hlib.ZBig(back)),
		decIn{Op: "encode", N: n.String()}, map[string]string{"compact": big.NewInt(int64(c)).String(), "back": back.String()})
}

func emitPair(o *hlib.Out, c1, c2 uint32) {
	w1, w2 := difficulty.CalcWork(c1), difficulty.CalcWork(c2)
	o.Emit("workpair", true,
		hlib.App("CWorkPair", hlib.Z(int64(c1)), hlib.Z(int64(c2)), hlib.ZBig(w1), hlib.ZBig(w2)),
		decIn{Op: "pair", C: c1, C2: c2}, map[string]string{"w1": w1.String(), "w2": w2.String()})
}

// emitEncPair: integer targets t1 <= t2 pushed through BigToCompact, then CalcWork.
func emitEncPair(o *hlib.Out, kind string, t1, t2 *big.Int) {
	if t1.Cmp(t2) > 0 {
		t1, t2 = t2, t1
	}
	w1 := difficulty.CalcWork(difficulty.BigToCompact(t1))
	w2 := difficulty.CalcWork(difficulty.BigToCompact(t2))
	o.Emit(kind, t1.Sign() > 0,
		hlib.App("CEncPair", hlib.ZBig(t1), hlib.ZBig(t2), hlib.ZBig(w1), hlib.ZBig(w2)),
		decIn{Op: "encpair", N: t1.String(), N2: t2.String()}, map[string]string{"w1": w1.String(), "w2": w2.String()})
}

func main() {
	opts := hlib.ParseFlags()
	o := hlib.NewOut(opts.OutDir)
	defer o.Close()
	if opts.Replay != "" {
		var in decIn
		if err := hlib.ReplayInput(opts.Replay, &in); err != nil {
			panic(err)
		}
		switch in.Op {
		case "decode":
			emitDecode(o, "replay", in.C)
		case "encode":
			n, _ := new(big.Int).SetString(in.N, 10)
			emitEncode(o, "replay", n)
		case "pair":
			emitPair(o, in.C, in.C2)
		case "encpair":
			t1, _ := new(big.Int).SetString(in.N, 10)
			t2, _ := new(big.Int).SetString(in.N2, 10)
			emitEncPair(o, "replay", t1, t2)
		}
		return
	}
	r := hlib.NewRng(opts.Seed)
	// edge mantissas (with and without the sign bit)
	edges := []uint32{0, 1, 2, 0x7f, 0x80, 0xff, 0x100, 0x7fff, 0x8000, 0xffff, 0x10000, 0x7fffff,
		0x7ffffe, 0x400000, 0x3fffff, 0x008000, 0x00ff00, 0x010000, 0x123456}
	perExp := 24
	if opts.Thorough() {
		perExp = 400
	}
	for e := uint32(0); e < 256; e++ {
		for _, m := range edges {
			emitDecode(o, "decode-edge", e<<24|m)
			emitDecode(o, "decode-edge-neg", e<<24|0x800000|m)
		}
		for i := 0; i < perExp; i++ {
			emitDecode(o, "decode-rand", e<<24|uint32(r.U64()&0xffffff))
		}
	}
	// integers of every byte length 0..260, several top-byte patterns
	one := big.NewInt(1)
	for l := 0; l <= 260; l++ {
		if l == 0 {
			emitEncode(o, "encode-zero", big.NewInt(0))
			continue
		}
		tops := []byte{0x01, 0x7f, 0x80, 0xff}
		for _, t := range tops {
			b := r.Bytes(l)
			b[0] = t
			n := new(big.Int).SetBytes(b)
			emitEncode(o, "encode-rand", n)
			emitEncode(o, "encode-neg", new(big.Int).Neg(n))
		}
		// all-ones and power of 256
		p := new(big.Int).Lsh(one, uint(8*l))
		emitEncode(o, "encode-pow", new(big.Int).Sub(p, one))
		emitEncode(o, "encode-pow", new(big.Int).Rsh(p, 8))
		emitEncode(o, "encode-pow", new(big.Int).Rsh(p, 1))
	}
	// exactly representable integers (mantissa << shift), both signs; negative integers whose
	// arithmetic right shift rounds the magnitude up (leading bytes 7fffff / ffffff + low bits)
	mants := []int64{1, 0x7f, 0x80, 0xff, 0x100, 0x7fff, 0x8000, 0xffff, 0x10000, 0x7fffff, 0x800000, 0xffffff, 0x123456, 0xff00, 0x8001}
	for sh := uint(0); sh <= 253; sh++ {
		if !opts.Thorough() && sh > 6 && sh%9 != 0 && sh < 248 {
			continue
		}
		for _, m := range mants {
			n := new(big.Int).Lsh(big.NewInt(m), 8*sh)
			emitEncode(o, "encode-exact", n)
			emitEncode(o, "encode-exact-neg", new(big.Int).Neg(n))
		}
		for _, m := range []int64{0x7fffff, 0xffffff, 0x800000, 0x00ffff} {
			if sh == 0 {
				continue
			}
			n := new(big.Int).Lsh(big.NewInt(m), 8*sh)
			n.Add(n, one)
			emitEncode(o, "encode-neg-roundup", new(big.Int).Neg(n))
			lowb := r.Bytes(int(sh))
			n2 := new(big.Int).Lsh(big.NewInt(m), 8*sh)
			n2.Add(n2, new(big.Int).SetBytes(lowb))
			emitEncode(o, "encode-neg-roundup", new(big.Int).Neg(n2))
		}
	}
	// integer target pairs through the encoder: class boundaries, neighbours, random
	for l := 1; l <= 256; l++ {
		if !opts.Thorough() && l > 8 && l%7 != 0 && l < 250 {
			continue
		}
		p := new(big.Int).Lsh(one, uint(8*l))       // 256^l
		h := new(big.Int).Rsh(p, 1)                 // top bit of an l-byte integer
		pm, hm := new(big.Int).Sub(p, one), new(big.Int).Sub(h, one)
		emitEncPair(o, "encpair-boundary", pm, p)
		emitEncPair(o, "encpair-boundary", hm, h)
		emitEncPair(o, "encpair-boundary", hm, pm)
		emitEncPair(o, "encpair-boundary", h, p)
		for i := 0; i < 4; i++ {
			a := new(big.Int).SetBytes(r.Bytes(l))
			b := new(big.Int).SetBytes(r.Bytes(l))
			emitEncPair(o, "encpair-rand", a, b)
			emitEncPair(o, "encpair-rand", a, new(big.Int).Add(a, one))
			c := new(big.Int).SetBytes(r.Bytes(1 + r.Intn(l)))
			emitEncPair(o, "encpair-rand", a, c)
		}
	}
	// work pairs: neighbours and random pairs
	npairs := 2000
	if opts.Thorough() {
		npairs = 40000
	}
	for i := 0; i < npairs; i++ {
		c1 := uint32(r.U64())
		if r.Chance(1, 2) {
			c1 &^= 0x800000
		}
		var c2 uint32
		switch r.Intn(3) {
		case 0:
			c2 = c1 + 1
		case 1:
			c2 = (c1 & 0xff000000) | uint32(r.U64()&0x7fffff)
		default:
			c2 = uint32(r.U64()) &^ 0x800000
		}
		emitPair(o, c1, c2)
	}
}
