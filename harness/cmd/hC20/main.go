// hC20: runs common/difficulty on generated compact values and integers.
package main

import (
	"math/big"

	"github.com/33cn/chain33/common/difficulty"
	"verifharness/hlib"
)

type decIn struct {
	Op string `json:"op"`
	C  uint32 `json:"c,omitempty"`
	C2 uint32 `json:"c2,omitempty"`
	N  string `json:"n,omitempty"`
}

func emitDecode(o *hlib.Out, kind string, c uint32) {
	b := difficulty.CompactToBig(c)
	r := difficulty.BigToCompact(b)
	w := difficulty.CalcWork(c)
	o.Emit(kind, b.Sign() != 0,
		hlib.App("CDecode", hlib.Z(int64(c)), hlib.ZBig(b), hlib.Z(int64(r)), hlib.ZBig(w)),
		decIn{Op: "decode", C: c}, map[string]string{"big": b.String(), "recode": big.NewInt(int64(r)).String(), "work": w.String()})
}

func emitEncode(o *hlib.Out, kind string, n *big.Int) {
	c := difficulty.BigToCompact(n)
	back := difficulty.CompactToBig(c)
	o.Emit(kind, n.Sign() != 0,
		hlib.App("CEncode", hlib.ZBig(n), hlib.Z(int64(c)), hlib.ZBig(back)),
		decIn{Op: "encode", N: n.String()}, map[string]string{"compact": big.NewInt(int64(c)).String(), "back": back.String()})
}

func emitPair(o *hlib.Out, c1, c2 uint32) {
	w1, w2 := difficulty.CalcWork(c1), difficulty.CalcWork(c2)
	o.Emit("workpair", true,
		hlib.App("CWorkPair", hlib.Z(int64(c1)), hlib.Z(int64(c2)), hlib.ZBig(w1), hlib.ZBig(w2)),
		decIn{Op: "pair", C: c1, C2: c2}, map[string]string{"w1": w1.String(), "w2": w2.String()})
}

func main() {
	opts := hlib.ParseFlags()
	o := hlib.NewOut(opts.OutDir)
	defer o.Close()
	if opts.Replay != "" {
		var in decIn
		if err := hlib.ReplayInput(opts.Replay, &in); err != nil {
			panic(err)
		}
		switch in.Op {
		case "decode":
			emitDecode(o, "replay", in.C)
		case "encode":
			n, _ := new(big.Int).SetString(in.N, 10)
			emitEncode(o, "replay", n)
		case "pair":
			emitPair(o, in.C, in.C2)
		}
		return
	}
	r := hlib.NewRng(opts.Seed)
	// edge mantissas (with and without the sign bit)
	edges := []uint32{0, 1, 2, 0x7f, 0x80, 0xff, 0x100, 0x7fff, 0x8000, 0xffff, 0x10000, 0x7fffff,
		0x7ffffe, 0x400000, 0x3fffff, 0x008000, 0x00ff00, 0x010000, 0x123456}
	perExp := 24
	if opts.Thorough() {
		perExp = 400
	}
	for e := uint32(0); e < 256; e++ {
		for _, m := range edges {
			emitDecode(o, "decode-edge", e<<24|m)
			emitDecode(o, "decode-edge-neg", e<<24|0x800000|m)
		}
		for i := 0; i < perExp; i++ {
			emitDecode(o, "decode-rand", e<<24|uint32(r.U64()&0xffffff))
		}
	}
	// integers of every byte length 0..260, several top-byte patterns
	one := big.NewInt(1)
	for l := 0; l <= 260; l++ {
		if l == 0 {
			emitEncode(o, "encode-zero", big.NewInt(0))
			continue
		}
		tops := []byte{0x01, 0x7f, 0x80, 0xff}
		for _, t := range tops {
			b := r.Bytes(l)
			b[0] = t
			n := new(big.Int).SetBytes(b)
			emitEncode(o, "encode-rand", n)
			emitEncode(o, "encode-neg", new(big.Int).Neg(n))
		}
		// all-ones and power of 256
		p := new(big.Int).Lsh(one, uint(8*l))
		emitEncode(o, "encode-pow", new(big.Int).Sub(p, one))
		emitEncode(o, "encode-pow", new(big.Int).Rsh(p, 8))
		emitEncode(o, "encode-pow", new(big.Int).Rsh(p, 1))
	}
	// work pairs: neighbours and random pairs
	npairs := 2000
	if opts.Thorough() {
		npairs = 40000
	}
	for i := 0; i < npairs; i++ {
		c1 := uint32(r.U64())
		if r.Chance(1, 2) {
			c1 &^= 0x800000
		}
		var c2 uint32
		switch r.Intn(3) {
		case 0:
			c2 = c1 + 1
		case 1:
			c2 = (c1 & 0xff000000) | uint32(r.U64()&0x7fffff)
		default:
			c2 = uint32(r.U64()) &^ 0x800000
		}
		emitPair(o, c1, c2)
	}
}
