// hwarm: imports the big chain33 packages so that setup warms the Go build cache.
package main

import (
	"fmt"

	_ "github.com/33cn/chain33/system"
	"github.com/33cn/chain33/util/testnode"
)

func main() {
	_ = testnode.New
	fmt.Println("ok")
}
