// hC25: block trees delivered to fresh chain33 nodes in generated orders (C25, and with
// --extra c26 the block sequence log for C26).
//
// A factory test node builds real, executed blocks (one "none" transaction each) forming a
// tree rooted at the genesis block, with several fork points and varied Difficulty bits.  For
// every delivery order a fresh node (same genesis) receives the blocks through
// BlockChain.ProcessBlock; after every delivery the tip and its stored total difficulty are read
// back; at the end the hash at every height, the transaction index and the sequence log.
package main

import (
	"bytes"
	"fmt"
	"os"
	"runtime"
	"time"

	"github.com/33cn/chain33/common/difficulty"
	"github.com/33cn/chain33/common/log"
	_ "github.com/33cn/chain33/system"
	"github.com/33cn/chain33/types"
	"github.com/33cn/chain33/util"
	"github.com/33cn/chain33/util/testnode"
	"verifharness/hlib"
)

// ---------- tree description (the replay format) ----------

type treeSpec struct {
	Par   []int    `json:"par"`   // Par[i] = parent of block i (i >= 1), Par[0] = -1 (genesis)
	Dbits []uint32 `json:"dbits"` // Difficulty bits of block i (Dbits[0] unused: genesis as configured)
}

type runIn struct {
	Tree    treeSpec `json:"tree"`
	Order   []int    `json:"order"`
	LevelDB bool     `json:"leveldb"`
	Kind    string   `json:"kind"`
}

type stepOut struct {
	Main   bool   `json:"main"`
	Orphan bool   `json:"orphan"`
	Err    int    `json:"err"`
	ErrS   string `json:"errs,omitempty"`
	Tip    int    `json:"tip"`
	TipTd  string `json:"tiptd"`
}

type runOut struct {
	Steps   []stepOut `json:"steps"`
	Main    []int     `json:"main"`
	TxOK    bool      `json:"txok"`
	TxNote  string    `json:"txnote,omitempty"`
	Log     [][2]int  `json:"log"`
	LastSeq int64     `json:"lastseq"`
}

const unknownID = 999999

var diffChoices = []uint32{0x1f2fffff, 0x1f27ffff, 0x1f1fffff, 0x1f17ffff}

// ---------- nodes ----------

func quiet() { log.SetLogLevel("crit") }

// The nodes are configured with minerstart=false, so the solo miner never passes its IsMining
// test (a miner stopped after the start may already be past that test, and then turns the
// transactions of a block that is disconnected in the next milliseconds into a block of its
// own).  stopMiner is kept as a second line: it waits for the consensus module's answer (an
// unacknowledged stop can get lost on a loaded machine).
func stopMiner(m *testnode.Chain33Mock) {
	cl := m.GetClient()
	for try := 0; try < 5; try++ {
		msg := cl.NewMessage("consensus", types.EventMinerStop, nil)
		if err := cl.Send(msg, true); err != nil {
			time.Sleep(20 * time.Millisecond)
			continue
		}
		_, err := cl.WaitTimeout(msg, 10*time.Second)
		if err == nil || err == types.ErrMinerNotStared {
			return
		}
	}
	panic("miner not stopped")
}

// waitWalletRescan: importing the test keys starts one wallet goroutine per key
// (rescanReqTxDetailByAddr) that lists the address's transactions and then fetches their
// details; if a block holding one of them is disconnected in between, the wallet dereferences
// a nil transaction (wallet_proc.go GetTxDetailByHashs -> ActionName) and the process dies.
// The run starts when those goroutines are gone.
func waitWalletRescan() {
	buf := make([]byte, 8<<20)
	deadline := time.Now().Add(20 * time.Second)
	for time.Now().Before(deadline) {
		n := runtime.Stack(buf, true)
		if !bytes.Contains(buf[:n], []byte("rescanReqTxDetailByAddr")) {
			return
		}
		time.Sleep(5 * time.Millisecond)
	}
}

func newNode(leveldb bool) *testnode.Chain33Mock {
	cfg := types.NewChain33Config(types.GetDefaultCfgstring())
	if !leveldb {
		cfg.GetModuleConfig().BlockChain.Driver = "memdb"
		cfg.GetModuleConfig().Store.Driver = "memdb"
		cfg.GetModuleConfig().Wallet.Driver = "memdb"
	}
	cfg.GetModuleConfig().Consensus.Minerstart = false // see stopMiner
	m := testnode.NewWithConfig(cfg, nil)
	quiet()
	stopMiner(m)
	deadline := time.Now().Add(20 * time.Second)
	for m.GetBlockChain().GetBlockHeight() < 0 {
		if time.Now().After(deadline) {
			panic("genesis block not created")
		}
		time.Sleep(2 * time.Millisecond)
	}
	waitWalletRescan()
	return m
}

// ---------- factory ----------

type factory struct {
	node *testnode.Chain33Mock
	cfg  *types.Chain33Config
	gen  *types.Block
}

func newFactory() *factory {
	n := newNode(false)
	return &factory{node: n, cfg: n.GetClient().GetConfig(), gen: n.GetBlock(0)}
}

// build executes the tree on the factory node and returns the blocks (index 0 = genesis).
func (f *factory) build(t treeSpec) []*types.Block {
	blocks := make([]*types.Block, len(t.Par))
	blocks[0] = f.gen
	for i := 1; i < len(t.Par); i++ {
		parent := blocks[t.Par[i]]
		b := util.CreateNewBlock(f.cfg, parent, util.GenNoneTxs(f.cfg, f.node.GetGenesisKey(), 1))
		b.Difficulty = t.Dbits[i]
		d, _, err := util.ExecBlock(f.node.GetClient(), parent.StateHash, b, false, true, false)
		if err != nil {
			panic(fmt.Sprintf("factory: exec block %d: %v", i, err))
		}
		if len(d.Block.Txs) != 1 || d.Block.Difficulty != t.Dbits[i] {
			panic("factory: block changed by execution")
		}
		blocks[i] = d.Block
	}
	return blocks
}

// ---------- one run ----------

func errClass(err error) int {
	switch err {
	case nil:
		return 0
	case types.ErrBlockExist:
		return 1
	case types.ErrParentBlockNoExist:
		return 2
	case types.ErrBlockHeightNoMatch:
		return 3
	}
	return 9
}

func runOrder(cfg *types.Chain33Config, blocks []*types.Block, in runIn) (out runOut, panicked string) {
	ids := map[string]int{}
	for i, b := range blocks {
		ids[string(b.Hash(cfg))] = i
	}
	idOf := func(h []byte) int {
		if i, ok := ids[string(h)]; ok {
			return i
		}
		return unknownID
	}
	r := newNode(in.LevelDB)
	defer r.Close()
	chain := r.GetBlockChain()
	store := chain.GetStore()
	if !bytes.Equal(r.GetBlock(0).Hash(cfg), blocks[0].Hash(cfg)) {
		panic("receiver has a different genesis block")
	}
	process := func(b *types.Block) (m, o bool, err error, pan string) {
		defer func() {
			if e := recover(); e != nil {
				pan = fmt.Sprint(e)
			}
		}()
		_, m, o, err = chain.ProcessBlock(false, &types.BlockDetail{Block: types.Clone(b).(*types.Block)}, "peer1", true, 0)
		return
	}
	for _, i := range in.Order {
		m, o, err, pan := process(blocks[i])
		if pan != "" {
			return out, pan
		}
		st := stepOut{Main: m, Orphan: o, Err: errClass(err)}
		if err != nil {
			st.ErrS = err.Error()
		}
		hdr := store.LastHeader()
		st.Tip = idOf(hdr.Hash)
		st.TipTd = "-1"
		if td, e := store.GetTdByBlockHash(hdr.Hash); e == nil && td != nil {
			st.TipTd = td.String()
		}
		out.Steps = append(out.Steps, st)
	}
	// final chain: hash at every height
	h := store.Height()
	onMain := map[int]bool{}
	for k := int64(0); k <= h; k++ {
		hash, err := store.GetBlockHashByHeight(k)
		id := unknownID
		if err == nil {
			id = idOf(hash)
		}
		out.Main = append(out.Main, id)
		onMain[id] = true
	}
	// last header must be the block at the top height
	if last := store.LastHeader(); len(out.Main) == 0 || idOf(last.Hash) != out.Main[len(out.Main)-1] || last.Height != h {
		out.Main = append(out.Main, unknownID)
	}
	// transaction index: a delivered block's transaction is found iff the block is on the best chain
	out.TxOK = true
	seen := map[int]bool{}
	for _, i := range in.Order {
		if seen[i] || i == 0 {
			continue
		}
		seen[i] = true
		for _, tx := range blocks[i].Txs {
			res, err := store.GetTx(tx.Hash())
			found := err == nil && res != nil
			if found != onMain[i] || (found && res.Height != blocks[i].Height) {
				out.TxOK = false
				out.TxNote = fmt.Sprintf("block %d onMain=%v tx found=%v", i, onMain[i], found)
			}
		}
	}
	// sequence log
	last, err := store.LoadBlockLastSequence()
	if err != nil {
		last = -1
	}
	out.LastSeq = last
	for k := int64(0); k <= last; k++ {
		seq, err := store.GetBlockSequence(k)
		if err != nil || seq == nil {
			out.Log = append(out.Log, [2]int{0, 0})
			continue
		}
		out.Log = append(out.Log, [2]int{idOf(seq.Hash), int(seq.Type)})
	}
	return out, ""
}

// ---------- Gallina rendering ----------

func work(bits uint32) int64 { return difficulty.CalcWork(bits).Int64() }

func renderTree(blocks []*types.Block, t treeSpec) string {
	items := make([]string, len(blocks))
	for i, b := range blocks {
		par := uint64(unknownID + 1) // the genesis block's parent hash is no block
		if i > 0 {
			par = uint64(t.Par[i])
		}
		items[i] = hlib.App("mkB", hlib.N(uint64(i)), hlib.N(par), hlib.Z(b.Height), hlib.Z(work(b.Difficulty)))
	}
	return hlib.List(items)
}

func renderCase(c26 bool, blocks []*types.Block, in runIn, out runOut) string {
	ord := make([]string, len(in.Order))
	for i, v := range in.Order {
		ord[i] = hlib.N(uint64(v))
	}
	obs := make([]string, len(out.Steps))
	for i, s := range out.Steps {
		obs[i] = fmt.Sprintf("(%s, %s, %s, %s, (%s)%%Z)", hlib.Bool(s.Main), hlib.Bool(s.Orphan), hlib.N(uint64(s.Err)), hlib.N(uint64(s.Tip)), s.TipTd)
	}
	fm := make([]string, len(out.Main))
	for i, v := range out.Main {
		fm[i] = hlib.N(uint64(v))
	}
	if !c26 {
		return hlib.App("CRun", hlib.Z(0), renderTree(blocks, in.Tree), hlib.List(ord), hlib.List(obs), hlib.List(fm), hlib.Bool(out.TxOK))
	}
	lg := make([]string, len(out.Log))
	for i, e := range out.Log {
		lg[i] = hlib.Pair(hlib.N(uint64(e[0])), hlib.Z(int64(e[1])))
	}
	return hlib.App("CSeq", hlib.Z(0), renderTree(blocks, in.Tree), hlib.List(ord), hlib.List(obs), hlib.List(fm), hlib.List(lg), hlib.Z(out.LastSeq))
}

// ---------- generators ----------

// genTree: a trunk of trunkLen blocks plus nb side branches.
func genTree(r *hlib.Rng, trunkLen, nb, maxLen int, varied bool) treeSpec {
	t := treeSpec{Par: []int{-1}, Dbits: []uint32{0}}
	heights := []int{0}
	pickD := func() uint32 {
		if varied && r.Chance(1, 3) {
			return hlib.Pick(r, diffChoices)
		}
		return diffChoices[0]
	}
	add := func(p int) int {
		t.Par = append(t.Par, p)
		t.Dbits = append(t.Dbits, pickD())
		heights = append(heights, heights[p]+1)
		return len(t.Par) - 1
	}
	p := 0
	for i := 0; i < trunkLen; i++ {
		p = add(p)
	}
	if trunkLen >= 12 {
		// a branch that ends level with the trunk tip (a tie above the margin when difficulties are equal)
		q := trunkLen - 2
		q = add(q)
		add(q)
	}
	for k := 0; k < nb; k++ {
		// fork point: any existing block, biased to the trunk
		fp := r.Intn(len(t.Par))
		if r.Chance(1, 2) {
			fp = r.Intn(trunkLen + 1)
		}
		n := r.Range(1, maxLen)
		if r.Chance(1, 3) {
			// long enough to overtake the trunk
			n = trunkLen - heights[fp] + r.Range(0, 2)
			if n < 1 {
				n = 1
			}
		}
		q := fp
		for i := 0; i < n && len(t.Par) < 34; i++ {
			q = add(q)
		}
	}
	return t
}

func heightsOf(t treeSpec) []int {
	h := make([]int, len(t.Par))
	for i := 1; i < len(t.Par); i++ {
		h[i] = h[t.Par[i]] + 1
	}
	return h
}

// guardHolds: among the blocks connected to the genesis through delivered blocks the one of
// greatest total difficulty is unique and at height >= 12.
func guardHolds(t treeSpec, order []int) bool {
	del := map[int]bool{0: true}
	for _, i := range order {
		del[i] = true
	}
	hs := heightsOf(t)
	td := make([]int64, len(t.Par))
	conn := make([]bool, len(t.Par))
	conn[0] = true
	td[0] = work(diffChoices[0])
	best, cnt, bi := td[0], 1, 0
	for i := 1; i < len(t.Par); i++ {
		if del[i] && conn[t.Par[i]] {
			conn[i] = true
			td[i] = td[t.Par[i]] + work(t.Dbits[i])
			if td[i] > best {
				best, cnt, bi = td[i], 1, i
			} else if td[i] == best {
				cnt++
			}
		}
	}
	return cnt == 1 && hs[bi] >= 12
}

func seqOrder(n int) []int {
	o := make([]int, n-1)
	for i := range o {
		o[i] = i + 1
	}
	return o
}

type orderGen struct {
	name string
	f    func(r *hlib.Rng, t treeSpec) []int
}

func withDups(r *hlib.Rng, o []int) []int {
	var res []int
	for i, v := range o {
		res = append(res, v)
		if i > 0 && r.Chance(1, 4) {
			res = append(res, o[r.Intn(i+1)]) // re-deliver something delivered before
		}
	}
	return res
}

var orderGens = []orderGen{
	{"creation", func(r *hlib.Rng, t treeSpec) []int { return seqOrder(len(t.Par)) }},
	{"reverse", func(r *hlib.Rng, t treeSpec) []int {
		o := seqOrder(len(t.Par))
		for i, j := 0, len(o)-1; i < j; i, j = i+1, j-1 {
			o[i], o[j] = o[j], o[i]
		}
		return o
	}},
	{"byheight", func(r *hlib.Rng, t treeSpec) []int {
		hs := heightsOf(t)
		var o []int
		for h := 1; h < 64; h++ {
			var lvl []int
			for i := 1; i < len(t.Par); i++ {
				if hs[i] == h {
					lvl = append(lvl, i)
				}
			}
			hlib.Shuffle(r, lvl)
			o = append(o, lvl...)
		}
		return o
	}},
	{"shuffle", func(r *hlib.Rng, t treeSpec) []int {
		o := seqOrder(len(t.Par))
		hlib.Shuffle(r, o)
		return o
	}},
	{"shuffle-dups", func(r *hlib.Rng, t treeSpec) []int {
		o := seqOrder(len(t.Par))
		hlib.Shuffle(r, o)
		return withDups(r, o)
	}},
	{"local-swaps", func(r *hlib.Rng, t treeSpec) []int {
		// nearly in order: what gossip produces
		o := seqOrder(len(t.Par))
		for k := 0; k < len(o); k++ {
			i := r.Intn(len(o))
			j := i + r.Range(-3, 3)
			if j >= 0 && j < len(o) {
				o[i], o[j] = o[j], o[i]
			}
		}
		return withDups(r, o)
	}},
	{"missing", func(r *hlib.Rng, t treeSpec) []int {
		// some blocks never arrive: their descendants stay orphans
		o := seqOrder(len(t.Par))
		hlib.Shuffle(r, o)
		drop := r.Range(1, 3)
		return withDups(r, o[drop:])
	}},
}

// permutations of xs (Heap's algorithm)
func perms(xs []int, f func([]int)) {
	var rec func(k int)
	rec = func(k int) {
		if k == 1 {
			f(xs)
			return
		}
		for i := 0; i < k; i++ {
			rec(k - 1)
			if k%2 == 0 {
				xs[i], xs[k-1] = xs[k-1], xs[i]
			} else {
				xs[0], xs[k-1] = xs[k-1], xs[0]
			}
		}
	}
	if len(xs) > 0 {
		rec(len(xs))
	}
}

// ---------- main ----------

func main() {
	quiet()
	opts := hlib.ParseFlags()
	c26 := opts.Extra == "c26"
	o := hlib.NewOut(opts.OutDir)
	defer o.Close()
	quiet()
	f := newFactory()
	defer f.node.Close()
	start := time.Now()

	emit := func(blocks []*types.Block, in runIn) {
		out, pan := runOrder(f.cfg, blocks, in)
		if pan != "" {
			// a panic inside ProcessBlock is an observable: no model step panics
			out.Main = []int{unknownID}
			fmt.Fprintln(os.Stderr, "hC25: ProcessBlock panicked:", pan)
		}
		nontrivial := false
		prevTip := 0
		for k, s := range out.Steps {
			if s.Orphan {
				nontrivial = true
			}
			if s.Tip != prevTip && s.Tip < len(in.Tree.Par) && in.Tree.Par[s.Tip] != prevTip {
				nontrivial = true // reorganisation or orphan cascade
			}
			prevTip = s.Tip
			_ = k
		}
		kind := in.Kind
		if guardHolds(in.Tree, in.Order) {
			kind = "guarded/" + kind
		} else {
			kind = "unguarded/" + kind
		}
		o.Emit(kind, nontrivial, renderCase(c26, blocks, in, out), in, out)
	}

	if opts.Replay != "" {
		var xin extIn
		if err := hlib.ReplayInput(opts.Replay, &xin); err == nil && len(xin.Evs) > 0 {
			emitExt(o, f, buildFor(f, xin), xin)
			return
		}
		var in runIn
		if err := hlib.ReplayInput(opts.Replay, &in); err != nil {
			panic(err)
		}
		emit(f.build(in.Tree), in)
		return
	}

	r := hlib.NewRng(opts.Seed)
	if !c26 {
		// extended runs (orphan-pool limits, finalize events) with their own generator and budget
		xb := 60 * time.Second
		if opts.Thorough() {
			xb = 25 * time.Minute
		}
		xs := time.Now()
		extStreams(o, f, hlib.NewRng(opts.Seed+7777), opts.Thorough(), func() bool { return time.Since(xs) > xb })
		start = time.Now()
	}
	nTrees, nOrders, budget := 4, 36, 70*time.Second
	exhaustOff := 4
	if opts.Thorough() {
		nTrees, nOrders, budget = 40, 300, 40*time.Minute
		exhaustOff = 6
	}
	count := 0
	over := func() bool { return time.Since(start) > budget }

	// 1. exhaustive stream: trunk in order, then every order of a few off-trunk blocks
	{
		trunk := 13
		t := treeSpec{Par: []int{-1}, Dbits: []uint32{0}}
		for i := 0; i < trunk; i++ {
			t.Par = append(t.Par, i)
			t.Dbits = append(t.Dbits, diffChoices[0])
		}
		// a branch from height 10 that ties with the trunk tip and then overtakes it (thorough: plus a short fork near the tip)
		p := 10
		for i := 0; i < exhaustOff; i++ {
			t.Par = append(t.Par, p)
			// equal difficulty: the branch ties with the trunk tip at height 13 before overtaking it
			t.Dbits = append(t.Dbits, diffChoices[0])
			if i == exhaustOff-2 && exhaustOff > 4 {
				p = 12 // last block forks off the trunk near the tip
			} else {
				p = len(t.Par) - 1
			}
		}
		blocks := f.build(t)
		off := make([]int, exhaustOff)
		for i := range off {
			off[i] = trunk + 1 + i
		}
		perms(off, func(p []int) {
			if over() {
				return
			}
			order := append(seqOrder(trunk+1), p...)
			emit(blocks, runIn{Tree: t, Order: order, LevelDB: count%6 == 0, Kind: "exhaustive-offtrunk"})
			count++
		})
	}

	// 2. random trees, generated orders
	for ti := 0; ti < nTrees && !over(); ti++ {
		var t treeSpec
		switch ti % 4 {
		case 0:
			t = genTree(r, r.Range(13, 16), 3, 6, false) // equal difficulty: heaviest = longest
		case 1:
			t = genTree(r, r.Range(12, 15), 4, 7, true)
		case 2:
			t = genTree(r, r.Range(8, 11), 4, 8, true) // much of the tree below the margin
		default:
			t = genTree(r, r.Range(14, 18), 5, 5, true)
		}
		blocks := f.build(t)
		for k := 0; k < nOrders && !over(); k++ {
			g := orderGens[k%len(orderGens)]
			if k < len(orderGens) {
				g = orderGens[k]
			} else if k%3 != 0 {
				g = orderGens[3+k%4]
			}
			emit(blocks, runIn{Tree: t, Order: g.f(r, t), LevelDB: count%6 == 0, Kind: g.name})
			count++
		}
	}
	if over() {
		fmt.Fprintln(os.Stderr, "hC25: time budget reached after", count, "runs")
	}
}
