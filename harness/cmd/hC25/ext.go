// hC25, extended runs: deliveries against the orphan pool's limits (expiry through
// types.SetTimeDelta, the 10240-orphan limit through cheap unconnected blocks) and finalize
// events (EventSnowmanAcceptBlk to the blockchain module) between deliveries.
//
// Receive times are given to the model in ticks of 100 s: tick t = time delta (100 t - 300) s.
// Expiry is "more than 600 s old", the window of SetTimeDelta is exactly 600 s, and the real
// clock only moves forward a little during a run (checked: < 90 s), so "expired" is exactly
// "received at tick 0, looked at at tick 6": ttl = 5 ticks with strict comparison in the model.
package main

import (
	"bytes"
	"crypto/sha256"
	"fmt"
	"os"
	"runtime"
	"sort"
	"strings"
	"time"

	"github.com/33cn/chain33/queue"
	drivers "github.com/33cn/chain33/system/consensus"
	"github.com/33cn/chain33/system/consensus/solo"
	"github.com/33cn/chain33/types"
	"github.com/33cn/chain33/util"
	"github.com/33cn/chain33/util/testnode"
	"verifharness/hlib"
)

const (
	junkBase   = 100000
	nilID      = 999998
	orphanCap  = 10240
	ttlTicks   = 5
	maxElapsed = 90 * time.Second
)

type extEv struct {
	K    string `json:"k"`           // "D" deliver, "F" finalize, "J" n unconnected blocks
	Tick int    `json:"t,omitempty"` // receive time (D, J)
	Id   int    `json:"id"`          // tree index, >= junkBase: unconnected block, unknownID: a hash nobody has
	H    int64  `json:"h,omitempty"` // F: height
	N    int    `json:"n,omitempty"` // J: how many
}

type extIn struct {
	Tree treeSpec `json:"tree"`
	Evs  []extEv  `json:"evs"`
	Kind string   `json:"kind"`
	Ebc  bool     `json:"ebc,omitempty"` // EnableBestBlockCmp on, consensus "solocmp" (smaller hash wins); tree built with equal sibling block times
}

type extStep struct {
	Main   bool   `json:"main"`
	Orphan bool   `json:"orphan"`
	Err    int    `json:"err"`
	ErrS   string `json:"errs,omitempty"`
	Tip    int    `json:"tip"`
	TipTd  string `json:"tiptd"`
	FinH   int64  `json:"finh"`
	FinId  int    `json:"finid"`
}

type extOut struct {
	Steps   []extStep `json:"steps"`
	Main    []int     `json:"main"`
	Pool    [][2]int  `json:"pool"`
	TxOK    bool      `json:"txok"`
	TxNote  string    `json:"txnote,omitempty"`
	Elapsed float64   `json:"elapsed_s"`
	Leaked  bool      `json:"leaked,omitempty"`
	Dropped int       `json:"dropped"` // delivered tree blocks found neither stored nor pooled after some event
}

// solocmp: solo with a CmpBestBlock that prefers the block with the smaller hash (solo's own
// always answers false).  BaseClient.CmpBestBlock asks it only for blocks of equal height,
// block time and parent.
type cmpClient struct{ *solo.Client }

func (c *cmpClient) CmpBestBlock(newBlock *types.Block, cmpBlock *types.Block) bool {
	cfg := c.GetAPI().GetConfig()
	return bytes.Compare(newBlock.Hash(cfg), cmpBlock.Hash(cfg)) < 0
}

func init() {
	drivers.Reg("solocmp", func(cfg *types.Consensus, sub []byte) queue.Module {
		m := solo.New(cfg, sub).(*solo.Client)
		w := &cmpClient{m}
		m.BaseClient.SetChild(w)
		return w
	})
	drivers.QueryData.Register("solocmp", &cmpClient{})
}

func newNodeCmp() *testnode.Chain33Mock {
	cfg := types.NewChain33Config(types.GetDefaultCfgstring())
	mc := cfg.GetModuleConfig()
	mc.BlockChain.Driver, mc.Store.Driver, mc.Wallet.Driver = "memdb", "memdb", "memdb"
	mc.Consensus.Name = "solocmp"
	mc.Consensus.EnableBestBlockCmp = true
	cfg.GetModuleConfig().Consensus.Minerstart = false // see stopMiner
	m := testnode.NewWithConfig(cfg, nil)
	quiet()
	stopMiner(m)
	deadline := time.Now().Add(20 * time.Second)
	for m.GetBlockChain().GetBlockHeight() < 0 {
		if time.Now().After(deadline) {
			panic("genesis block not created")
		}
		time.Sleep(2 * time.Millisecond)
	}
	waitWalletRescan()
	return m
}

// buildEqualTimes: like factory.build, every block one second after its parent (siblings equal).
func (f *factory) buildEqualTimes(t treeSpec) []*types.Block {
	blocks := make([]*types.Block, len(t.Par))
	blocks[0] = f.gen
	for i := 1; i < len(t.Par); i++ {
		parent := blocks[t.Par[i]]
		b := util.CreateNewBlock(f.cfg, parent, util.GenNoneTxs(f.cfg, f.node.GetGenesisKey(), 1))
		b.Difficulty = t.Dbits[i]
		b.BlockTime = parent.BlockTime + 1
		d, _, err := util.ExecBlock(f.node.GetClient(), parent.StateHash, b, false, true, false)
		if err != nil {
			panic(fmt.Sprintf("factory: exec block %d: %v", i, err))
		}
		blocks[i] = d.Block
	}
	return blocks
}

func junkBlock(id int) *types.Block {
	ph := sha256.Sum256([]byte(fmt.Sprintf("hC25 unconnected parent %d", id)))
	th := sha256.Sum256([]byte(fmt.Sprintf("hC25 unconnected txs %d", id)))
	return &types.Block{ParentHash: ph[:], TxHash: th[:], Height: 9000, BlockTime: 1, Difficulty: diffChoices[0]}
}

func setTick(t int) { types.SetTimeDelta(int64(100*t-300) * int64(time.Second)) }

// waitFinalizeHandled: the AcceptBlk message is handled on its own goroutine.  After a later
// request on the same (FIFO) channel was answered the handler has been spawned; wait until no
// processMsg goroutine is left except ones parked on the health channel (their work is done).
func waitFinalizeHandled(m *testnode.Chain33Mock) {
	_, _ = m.GetAPI().GetLastHeader()
	buf := make([]byte, 1<<20)
	deadline := time.Now().Add(20 * time.Second)
	for {
		n := runtime.Stack(buf, true)
		for n == len(buf) {
			buf = make([]byte, 2*len(buf))
			n = runtime.Stack(buf, true)
		}
		busy := false
		for _, g := range strings.Split(string(buf[:n]), "\n\n") {
			// a handler goroutine that has not started yet shows only ProcRecvMsg's go-wrapper
			if !strings.Contains(g, "(*BlockChain).processMsg") && !strings.Contains(g, "ProcRecvMsg.gowrap") {
				continue
			}
			head := g
			if i := strings.IndexByte(g, '\n'); i >= 0 {
				head = g[:i]
			}
			if strings.Contains(g, "snowmanAcceptBlock") && strings.Contains(head, "chan send") {
				continue
			}
			busy = true
		}
		if !busy {
			return
		}
		if time.Now().After(deadline) {
			panic("finalize handler did not finish")
		}
		time.Sleep(200 * time.Microsecond)
	}
}

func runExt(cfg *types.Chain33Config, blocks []*types.Block, in extIn) (out extOut, panicked string, valid bool) {
	ids := map[string]int{}
	for i, b := range blocks {
		ids[string(b.Hash(cfg))] = i
	}
	idOf := func(h []byte) int {
		if len(h) == 0 {
			return nilID
		}
		if i, ok := ids[string(h)]; ok {
			return i
		}
		return unknownID
	}
	r := newNode(false)
	if in.Ebc {
		r.Close()
		r = newNodeCmp()
	}
	accepted := 0
	defer func() {
		types.SetTimeDelta(0)
		if os.Getenv("HC25_DEBUG") != "" {
			fmt.Fprintf(os.Stderr, "DBG accepted=%d evs=%+v steps=%+v\n", accepted, in.Evs, out.Steps)
		}
		if accepted >= 2 {
			leakedNodes++
			// the second accepted choice parks its handler on the finalizer's health channel
			// (no health check runs on a node without a configured finalizer) and
			// BlockChain.Close would wait for it forever: leave this node open.
			out.Leaked = true
			return
		}
		r.Close()
	}()
	chain := r.GetBlockChain()
	store := chain.GetStore()
	if !bytes.Equal(r.GetBlock(0).Hash(cfg), blocks[0].Hash(cfg)) {
		panic("receiver has a different genesis block")
	}
	blockOf := func(id int) *types.Block {
		if id >= junkBase {
			return junkBlock(id)
		}
		return blocks[id]
	}
	process := func(b *types.Block) (m, o bool, err error, pan string) {
		defer func() {
			if e := recover(); e != nil {
				pan = fmt.Sprint(e)
			}
		}()
		_, m, o, err = chain.ProcessBlock(false, &types.BlockDetail{Block: types.Clone(b).(*types.Block)}, "peer1", true, 0)
		return
	}
	readback := func(st *extStep) {
		hdr := store.LastHeader()
		st.Tip = idOf(hdr.Hash)
		st.TipTd = "-1"
		if td, e := store.GetTdByBlockHash(hdr.Hash); e == nil && td != nil {
			st.TipTd = td.String()
		}
		ch, err := r.GetAPI().GetFinalizedBlock()
		if err != nil {
			st.FinH, st.FinId = -1, unknownID
			return
		}
		st.FinH, st.FinId = ch.Height, idOf(ch.Hash)
	}
	delivered := map[int]bool{}
	waiting := map[int]bool{} // tree blocks that came back as orphans and were in the pool after the last event
	start := time.Now()
	lastFin := [2]int64{0, nilID}
	for _, e := range in.Evs {
		var st extStep
		switch e.K {
		case "D":
			setTick(e.Tick)
			delivered[e.Id] = true
			m, o, err, pan := process(blockOf(e.Id))
			if pan != "" {
				return out, pan, true
			}
			st.Main, st.Orphan, st.Err = m, o, errClass(err)
			if err != nil {
				st.ErrS = err.Error()
			}
		case "J":
			setTick(e.Tick)
			st.Orphan = true
			for k := 0; k < e.N; k++ {
				delivered[e.Id+k] = true
				m, o, err, pan := process(junkBlock(e.Id + k))
				if pan != "" {
					return out, pan, true
				}
				if m || !o || err != nil {
					// not what an unconnected block gets: make the case disagree with the model
					st.Main, st.Orphan, st.Err = m, o, errClass(err)
				}
			}
		case "F":
			hash := sha256.Sum256([]byte(fmt.Sprintf("hC25 nobody's block %d", e.H)))
			hb := hash[:]
			if e.Id != unknownID {
				hb = blocks[e.Id].Hash(cfg)
			}
			cl := r.GetClient()
			msg := cl.NewMessage("blockchain", types.EventSnowmanAcceptBlk, &types.SnowChoice{Height: e.H, Hash: hb})
			if err := cl.Send(msg, true); err != nil {
				panic(err)
			}
			waitFinalizeHandled(r)
		}
		readback(&st)
		if e.K != "F" {
			for id := range waiting {
				hash := blocks[id].Hash(cfg)
				if chain.GetOrphanPool().IsKnownOrphan(hash) {
					continue
				}
				if d, err := chain.LoadBlockByHash(hash); err != nil || d == nil {
					out.Dropped++
				}
				delete(waiting, id)
			}
			if e.K == "D" && e.Id < junkBase && st.Orphan {
				waiting[e.Id] = true
			}
		}
		if e.K == "F" && (st.FinH != lastFin[0] || int64(st.FinId) != lastFin[1]) {
			accepted++
		}
		lastFin = [2]int64{st.FinH, int64(st.FinId)}
		out.Steps = append(out.Steps, st)
	}
	out.Elapsed = time.Since(start).Seconds()
	valid = time.Since(start) < maxElapsed
	types.SetTimeDelta(0)
	// final chain
	h := store.Height()
	onMain := map[int]bool{}
	for k := int64(0); k <= h; k++ {
		hash, err := store.GetBlockHashByHeight(k)
		id := unknownID
		if err == nil {
			id = idOf(hash)
		}
		out.Main = append(out.Main, id)
		onMain[id] = true
	}
	if last := store.LastHeader(); len(out.Main) == 0 || idOf(last.Hash) != out.Main[len(out.Main)-1] || last.Height != h {
		out.Main = append(out.Main, unknownID)
	}
	// the pool: which delivered hashes are known orphans
	var pooled []int
	for id := range delivered {
		if chain.GetOrphanPool().IsKnownOrphan(blockOf(id).Hash(cfg)) {
			pooled = append(pooled, id)
		}
	}
	sort.Ints(pooled)
	for i := 0; i < len(pooled); {
		j := i
		for j+1 < len(pooled) && pooled[j+1] == pooled[j]+1 {
			j++
		}
		out.Pool = append(out.Pool, [2]int{pooled[i], pooled[j]})
		i = j + 1
	}
	// transaction index
	out.TxOK = true
	for id := range delivered {
		if id == 0 || id >= junkBase {
			continue
		}
		for _, tx := range blocks[id].Txs {
			res, err := store.GetTx(tx.Hash())
			found := err == nil && res != nil
			if found != onMain[id] || (found && res.Height != blocks[id].Height) {
				out.TxOK = false
				out.TxNote = fmt.Sprintf("block %d onMain=%v tx found=%v", id, onMain[id], found)
			}
		}
	}
	return out, "", valid
}

func renderExt(cfg *types.Chain33Config, blocks []*types.Block, in extIn, out extOut) string {
	evs := make([]string, len(in.Evs))
	for i, e := range in.Evs {
		switch e.K {
		case "D":
			evs[i] = hlib.App("CD", hlib.Z(int64(e.Tick)), hlib.N(uint64(e.Id)))
		case "J":
			evs[i] = hlib.App("CJ", hlib.Z(int64(e.Tick)), hlib.N(uint64(e.Id)), hlib.N(uint64(e.N)))
		default:
			evs[i] = hlib.App("CF", hlib.Z(e.H), hlib.N(uint64(e.Id)))
		}
	}
	obs := make([]string, len(out.Steps))
	for i, s := range out.Steps {
		obs[i] = fmt.Sprintf("(%s, %s, %s, %s, (%s)%%Z, %s, %s)", hlib.Bool(s.Main), hlib.Bool(s.Orphan), hlib.N(uint64(s.Err)),
			hlib.N(uint64(s.Tip)), s.TipTd, hlib.Z(s.FinH), hlib.N(uint64(s.FinId)))
	}
	fm := make([]string, len(out.Main))
	for i, v := range out.Main {
		fm[i] = hlib.N(uint64(v))
	}
	pool := make([]string, len(out.Pool))
	for i, p := range out.Pool {
		pool[i] = hlib.Pair(hlib.N(uint64(p[0])), hlib.N(uint64(p[1])))
	}
	var cmps []string
	if in.Ebc {
		for i := 1; i < len(blocks); i++ {
			for j := 1; j < len(blocks); j++ {
				if i != j && in.Tree.Par[i] == in.Tree.Par[j] && blocks[i].BlockTime == blocks[j].BlockTime &&
					bytes.Compare(blocks[i].Hash(cfg), blocks[j].Hash(cfg)) < 0 {
					cmps = append(cmps, hlib.Pair(hlib.N(uint64(i)), hlib.N(uint64(j))))
				}
			}
		}
	}
	return hlib.App("CExt", hlib.Z(orphanCap), hlib.Z(ttlTicks), hlib.Bool(in.Ebc), hlib.List(cmps), renderTree(blocks, in.Tree),
		hlib.List(evs), hlib.List(obs), hlib.List(fm), hlib.List(pool), hlib.Bool(out.TxOK))
}

// ---------- generators ----------

func dEvents(order []int, tick int) []extEv {
	evs := make([]extEv, len(order))
	for i, id := range order {
		evs[i] = extEv{K: "D", Tick: tick, Id: id}
	}
	return evs
}

// genExpiry: an order with orphans, the clock jumping between deliveries; optionally the whole
// tree again in creation order at the end (then nothing that is needed stays dropped).
func genExpiry(r *hlib.Rng, t treeSpec, redeliver bool) []extEv {
	gens := []int{1, 2, 3, 3, 4, 5, 6} // reverse, byheight, shuffle, shuffle-dups, local-swaps, missing
	order := orderGens[hlib.Pick(r, gens)].f(r, t)
	ticks := [][]int{{0, 6}, {0, 6, 3}, {0, 3, 6}, {3, 6}, {0, 6, 0, 6}, {6, 0, 6}}[r.Intn(6)]
	cuts := make([]int, len(ticks)-1)
	for i := range cuts {
		cuts[i] = r.Intn(len(order) + 1)
	}
	sort.Ints(cuts)
	var evs []extEv
	seg, nj := 0, 0
	for i, id := range order {
		for seg < len(cuts) && cuts[seg] <= i {
			seg++
		}
		evs = append(evs, extEv{K: "D", Tick: ticks[seg], Id: id})
		if r.Chance(1, 9) {
			evs = append(evs, extEv{K: "D", Tick: ticks[seg], Id: junkBase + nj})
			nj++
		}
	}
	last := ticks[len(ticks)-1]
	if redeliver {
		if r.Chance(1, 2) {
			last = 6
		}
		evs = append(evs, dEvents(seqOrder(len(t.Par)), last)...)
	}
	return evs
}

// finTree: a trunk, a long branch off a low trunk block (reaching at least 12 above the lowest
// trunk blocks), a short fork near the tip.
func finTree(r *hlib.Rng) (t treeSpec, trunk int, forkAt int, side []int, short []int) {
	t = treeSpec{Par: []int{-1}, Dbits: []uint32{0}}
	add := func(p int, d uint32) int {
		t.Par = append(t.Par, p)
		t.Dbits = append(t.Dbits, d)
		return len(t.Par) - 1
	}
	trunk = r.Range(13, 17)
	p := 0
	for i := 0; i < trunk; i++ {
		p = add(p, diffChoices[0])
	}
	forkAt = r.Range(0, 3)
	n := r.Range(11, 15)
	d := diffChoices[0]
	if r.Chance(1, 3) {
		d = diffChoices[1]
	}
	q := forkAt
	for i := 0; i < n && len(t.Par) < 36; i++ {
		q = add(q, d)
		side = append(side, q)
	}
	q = trunk - r.Range(1, 2)
	for i := 0; i < r.Range(1, 3) && len(t.Par) < 40; i++ {
		q = add(q, diffChoices[0])
		short = append(short, q)
	}
	return
}

// genFinalize: the trunk's first blocks, finalize events, the long branch, the rest, with
// finalize events (right ones, wrong heights, hashes nobody has, old ones) in between.
func genFinalize(r *hlib.Rng, t treeSpec, trunk, forkAt int, side, short []int, low bool) []extEv {
	hs := heightsOf(t)
	var evs []extEv
	fz := func() {
		switch {
		case r.Chance(1, 8):
			evs = append(evs, extEv{K: "F", Id: unknownID, H: int64(r.Range(1, trunk))})
		case r.Chance(1, 6):
			id := r.Range(1, len(t.Par)-1)
			evs = append(evs, extEv{K: "F", Id: id, H: int64(hs[id] + r.Range(-1, 1))})
		default:
			var id int
			if low {
				id = r.Range(0, forkAt) // at or below the fork: every long branch goes through it
			} else if r.Chance(2, 3) {
				id = r.Range(1, 6) // low trunk block
			} else {
				id = r.Range(1, len(t.Par)-1)
			}
			evs = append(evs, extEv{K: "F", Id: id, H: int64(hs[id])})
		}
	}
	k := r.Range(3, 8)
	for i := 1; i <= k; i++ {
		evs = append(evs, extEv{K: "D", Id: i, Tick: 3})
		if r.Chance(1, 4) {
			fz()
		}
	}
	fz()
	rest := append([]int{}, side...)
	for i := k + 1; i <= trunk; i++ {
		rest = append(rest, i)
	}
	rest = append(rest, short...)
	switch r.Intn(3) {
	case 0: // the branch first, then the trunk
	case 1: // interleaved by height
		sort.SliceStable(rest, func(a, b int) bool { return hs[rest[a]] < hs[rest[b]] })
	default: // local swaps
		for n := 0; n < len(rest); n++ {
			i := r.Intn(len(rest))
			j := i + r.Range(-2, 2)
			if j >= 0 && j < len(rest) {
				rest[i], rest[j] = rest[j], rest[i]
			}
		}
	}
	for _, id := range rest {
		evs = append(evs, extEv{K: "D", Id: id, Tick: 3})
		if r.Chance(1, 5) {
			fz()
		}
	}
	fz()
	if r.Chance(1, 2) {
		evs = append(evs, dEvents(seqOrder(len(t.Par)), 3)...)
	}
	return evs
}

// finSafe: every finalize event that names a tree block at its height leaves no block off its
// branches at or above its height + 12 (the guard of C25_finalized_stays_partial).
func finSafe(t treeSpec, evs []extEv) bool {
	hs := heightsOf(t)
	anc := func(a, b int) bool { // a is b or an ancestor of b
		for b >= 0 {
			if a == b {
				return true
			}
			b = t.Par[b]
		}
		return false
	}
	for _, e := range evs {
		if e.K != "F" || e.Id == unknownID || int64(hs[e.Id]) != e.H {
			continue
		}
		for b := 1; b < len(t.Par); b++ {
			if !anc(e.Id, b) && hs[b] >= hs[e.Id]+12 {
				return false
			}
		}
	}
	return true
}

// genFill: block 2 waits for block 1 and is connected by it while oldestOrphan still points to
// it (stale); the three deepest trunk blocks and an unconnected block wait in the pool; unconnected
// blocks fill it to 10240; the next ones overflow: the first removal hits the stale pointer
// (nothing leaves, the pool is over its limit from then on), the following push out the oldest
// one by one (an unconnected block, the trunk tip, its parent); the trunk arrives; the dropped
// blocks are delivered again.
func genFill(t treeSpec, trunk int) []extEv {
	evs := []extEv{
		{K: "D", Tick: 0, Id: 2}, {K: "D", Tick: 0, Id: junkBase}, {K: "D", Tick: 0, Id: 1},
		{K: "D", Tick: 0, Id: trunk}, {K: "D", Tick: 0, Id: trunk - 1}, {K: "D", Tick: 0, Id: trunk - 2},
		{K: "J", Tick: 0, Id: junkBase + 1, N: orphanCap - 4},
		{K: "D", Tick: 0, Id: junkBase + 20000}, // overflow, stale pointer: nothing leaves
		{K: "D", Tick: 3, Id: junkBase + 20001}, // drops the first unconnected block
		{K: "D", Tick: 3, Id: junkBase + 20002}, // drops the trunk tip
		{K: "D", Tick: 3, Id: junkBase + 20003}, // drops its parent
	}
	for i := 3; i <= trunk-3; i++ {
		evs = append(evs, extEv{K: "D", Tick: 3, Id: i})
	}
	// trunk-2 was still waiting and is connected by the cascade; the two dropped ones are not
	evs = append(evs, extEv{K: "D", Tick: 3, Id: trunk}, extEv{K: "D", Tick: 3, Id: trunk - 1}, extEv{K: "D", Tick: 3, Id: trunk})
	return evs
}

func extNontrivial(in extIn, out extOut) bool {
	if strings.HasPrefix(in.Kind, "ext/fill") || out.Dropped > 0 {
		return true
	}
	orphaned := map[int]bool{}
	par := in.Tree.Par
	for i, s := range out.Steps {
		if in.Ebc && i > 0 {
			// the tip moved to a sibling: the consensus module's comparison decided
			a, b := out.Steps[i-1].Tip, s.Tip
			if a != b && a > 0 && b > 0 && a < len(par) && b < len(par) && par[a] == par[b] {
				return true
			}
		}
		if i > 0 && (s.FinH != out.Steps[i-1].FinH || s.FinId != out.Steps[i-1].FinId) {
			return true
		}
		if in.Evs[i].K == "D" && s.Orphan {
			if orphaned[in.Evs[i].Id] {
				return true // accepted as an orphan twice: it was dropped in between
			}
			orphaned[in.Evs[i].Id] = true
		}
	}
	return false
}

var leakedNodes int

const maxLeaked = 60

// oneFinalize keeps only the first finalize event that names a tree block at its height.
func oneFinalize(t treeSpec, evs []extEv) []extEv {
	hs := heightsOf(t)
	var out []extEv
	seen := false
	for _, e := range evs {
		if e.K == "F" && e.Id != unknownID && int64(hs[e.Id]) == e.H {
			if seen {
				continue
			}
			seen = true
		}
		out = append(out, e)
	}
	return out
}

func emitExt(o *hlib.Out, f *factory, blocks []*types.Block, in extIn) {
	out, pan, valid := runExt(f.cfg, blocks, in)
	if pan != "" {
		out.Main = []int{unknownID}
		fmt.Fprintln(os.Stderr, "hC25: ProcessBlock panicked:", pan)
	} else if !valid {
		fmt.Fprintf(os.Stderr, "hC25: extended run took %.0f s, the tick abstraction is not valid for it: skipped\n", out.Elapsed)
		return
	}
	o.Emit(in.Kind, extNontrivial(in, out), renderExt(f.cfg, blocks, in, out), in, out)
}

func buildFor(f *factory, in extIn) []*types.Block {
	if in.Ebc {
		return f.buildEqualTimes(in.Tree)
	}
	return f.build(in.Tree)
}

// witnessFinalize: the refutation witness of C25_finalized_stays_refuted on a node: trunk 1-2-3,
// block 2 finalized, a branch of 13 blocks off block 1 reaching height 14 = 2 + 12.
func witnessFinalize() extIn {
	t := treeSpec{Par: []int{-1, 0, 1, 2, 1}, Dbits: []uint32{0, diffChoices[0], diffChoices[0], diffChoices[0], diffChoices[0]}}
	for i := 0; i < 12; i++ {
		t.Par = append(t.Par, len(t.Par)-1)
		t.Dbits = append(t.Dbits, diffChoices[0])
	}
	evs := []extEv{{K: "D", Tick: 3, Id: 1}, {K: "D", Tick: 3, Id: 2}, {K: "D", Tick: 3, Id: 3}, {K: "F", Id: 2, H: 2}}
	for i := 4; i < len(t.Par); i++ {
		evs = append(evs, extEv{K: "D", Tick: 3, Id: i})
	}
	return extIn{Tree: t, Evs: evs, Kind: "ext/finalize-witness"}
}

// cmpTree: a trunk with siblings (same parent, equal difficulty and block time) at and below the
// tip and one below the 12-block margin; some siblings have a child.
func cmpTree(r *hlib.Rng) treeSpec {
	t := treeSpec{Par: []int{-1}, Dbits: []uint32{0}}
	add := func(p int) int {
		t.Par = append(t.Par, p)
		t.Dbits = append(t.Dbits, diffChoices[0])
		return len(t.Par) - 1
	}
	trunk := r.Range(13, 15)
	p := 0
	for i := 0; i < trunk; i++ {
		p = add(p)
	}
	for _, h := range []int{trunk, trunk, trunk - 1, r.Range(3, 9)} {
		q := add(h - 1) // sibling of the trunk block at height h
		if r.Chance(1, 2) {
			add(q)
		}
	}
	return t
}

func genCmp(r *hlib.Rng, t treeSpec) []extEv {
	var order []int
	switch r.Intn(3) {
	case 0:
		order = seqOrder(len(t.Par))
	case 1:
		order = orderGens[2].f(r, t) // by height, shuffled inside a level
	default:
		order = orderGens[5].f(r, t) // local swaps with duplicates
	}
	return dEvents(order, 3)
}

// extStreams: the fill run first (its evaluation is the longest), then expiry and finalize runs.
func extStreams(o *hlib.Out, f *factory, r *hlib.Rng, thorough bool, over func() bool) {
	nExp, nFin := 24, 40
	if thorough {
		nExp, nFin = 300, 500
	}
	only := os.Getenv("HC25_EXT") // debugging aid: "fill", "expiry" or "finalize" runs only
	if only == "" || only == "fill" {
		trunk := 14
		t := treeSpec{Par: []int{-1}, Dbits: []uint32{0}}
		for i := 0; i < trunk; i++ {
			t.Par = append(t.Par, i)
			t.Dbits = append(t.Dbits, diffChoices[0])
		}
		emitExt(o, f, f.build(t), extIn{Tree: t, Evs: genFill(t, trunk), Kind: "ext/fill-10240"})
	}
	var t treeSpec
	var blocks []*types.Block
	if only != "" && only != "expiry" {
		nExp = 0
	}
	if only != "" && only != "finalize" {
		nFin = 0
	}
	for k := 0; k < nExp && !over(); k++ {
		if k%6 == 0 {
			t = genTree(r, r.Range(12, 15), 3, 6, k%12 == 0)
			blocks = f.build(t)
		}
		re := k%2 == 0
		kind := "ext/expiry"
		if re {
			kind = "ext/expiry-redeliver"
		}
		emitExt(o, f, blocks, extIn{Tree: t, Evs: genExpiry(r, t, re), Kind: kind})
	}
	if only == "" || only == "finalize" {
		w := witnessFinalize()
		emitExt(o, f, f.build(w.Tree), w)
	}
	nCmp := 8
	if thorough {
		nCmp = 120
	}
	if only != "" && only != "cmp" {
		nCmp = 0
	}
	for k := 0; k < nCmp && !over(); k++ {
		if k%4 == 0 {
			t = cmpTree(r)
			blocks = f.buildEqualTimes(t)
		}
		emitExt(o, f, blocks, extIn{Tree: t, Evs: genCmp(r, t), Kind: "ext/bestcmp", Ebc: true})
	}
	var trunk, forkAt int
	var side, short []int
	for k := 0; k < nFin && !over(); k++ {
		if k%5 == 0 {
			t, trunk, forkAt, side, short = finTree(r)
			blocks = f.build(t)
		}
		evs := genFinalize(r, t, trunk, forkAt, side, short, k%3 == 0)
		if leakedNodes >= maxLeaked {
			// a node with two accepted choices cannot be closed (see runExt): keep at most one
			// finalize event that can be accepted per run from here on
			evs = oneFinalize(t, evs)
		}
		kind := "ext/finalize-any"
		if finSafe(t, evs) {
			kind = "ext/finalize-guarded"
		}
		emitExt(o, f, blocks, extIn{Tree: t, Evs: evs, Kind: kind})
	}
}
