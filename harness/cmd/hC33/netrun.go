// netrun.go: child side of the stream streams - runs download jobs, serving-side
// requests, version requests and peer-info rounds against the real protocols.
package main

import (
	"bufio"
	"encoding/json"
	"fmt"
	"os"
	"sort"
	"strconv"
	"sync"
	"syscall"
	"time"

	_ "github.com/33cn/chain33/system"
	"github.com/33cn/chain33/system/p2p/dht/protocol"
	"github.com/33cn/chain33/types"
	"github.com/33cn/chain33/util/testnode"
	"github.com/libp2p/go-libp2p/core/peer"
)

type reqObs struct {
	P int   `json:"p"`
	H int64 `json:"h"`
	C int   `json:"c"`
}

type srvObs struct {
	Fwd   *[2]int64 `json:"fwd,omitempty"`
	Class string    `json:"class"` // blocks eof reset
	Hs    []int64   `json:"hs,omitempty"`
}

type verObs struct {
	Class int      `json:"class"` // 0 reply, 1 eof, 2 reset, 3 blacklisted
	From  string   `json:"from,omitempty"`
	Effs  []effObs `json:"effs,omitempty"`
}

// netResult: observations of one case (Dead is set by the parent).
type netResult struct {
	I    int      `json:"i"`
	Ack  string   `json:"ack,omitempty"`
	Dels []delObs `json:"dels,omitempty"`
	Reqs []reqObs `json:"reqs,omitempty"`
	Srv  []srvObs `json:"srv,omitempty"`
	Ver  []verObs `json:"ver,omitempty"`
	Lim  []int    `json:"lim,omitempty"` // round-major, peer-minor
	St   []stObs  `json:"st,omitempty"`
	Env  *stEnv   `json:"env,omitempty"`
	Tip  int64    `json:"tip,omitempty"`
	Done bool     `json:"done,omitempty"`
	Dead bool     `json:"dead,omitempty"`
	Why  string   `json:"why,omitempty"`
	Ms   int64    `json:"ms,omitempty"`
}

type netBatch struct {
	Mode  string    `json:"mode"`
	Lim   string    `json:"lim,omitempty"`
	Cases []netCase `json:"cases"`
}

var (
	netOut   *bufio.Writer
	netOutMu sync.Mutex
)

func netSay(tag string, v interface{}) {
	b, _ := json.Marshal(v)
	netOutMu.Lock()
	netOut.WriteString("\n@@" + tag + " ")
	netOut.Write(b)
	netOut.WriteByte('\n')
	netOut.Flush()
	netOutMu.Unlock()
}

func netFail(err error) {
	fmt.Fprintln(os.Stderr, "child: harness error:", err)
	os.Exit(3)
}

func netChildMain() {
	lim := uint64(rlimitAS)
	if gb, err := strconv.Atoi(os.Getenv("HC33_RLIMIT_GB")); err == nil && gb > 0 { // experiments only
		lim = uint64(gb) << 30
	}
	_ = syscall.Setrlimit(syscall.RLIMIT_AS, &syscall.Rlimit{Cur: lim, Max: lim})
	netOut = bufio.NewWriter(os.Stdout)
	var b netBatch
	if err := json.NewDecoder(os.Stdin).Decode(&b); err != nil {
		netFail(err)
	}
	var w *netWorld
	var senv *stEnv
	cleanup := func() {}
	switch b.Mode {
	case "store":
		w, senv, cleanup = newStoreWorld()
	case "srvlive":
		mock := testnode.New("", nil)
		discardLogs()
		w = newNetWorld("srvlive", "", mock.GetClient(), mock.GetAPI().GetConfig())
		w.tip = mock.GetBlockChain().GetBlockHeight()
	default:
		cfg := types.NewChain33Config(types.GetDefaultCfgstring())
		w = newNetWorld(b.Mode, b.Lim, nil, cfg)
	}
	for i := range b.Cases {
		c := &b.Cases[i]
		res := netResult{I: i}
		var err error
		t0 := time.Now()
		switch c.Net {
		case "dl":
			err = w.runDl(c, &res)
		case "srv", "srvlive":
			err = w.runSrv(c, &res)
		case "ver":
			err = w.runVer(c, &res)
		case "lim":
			err = w.runLim(c, &res)
		case "store":
			var stuck bool
			stuck, err = w.runStore(c, &res, senv)
			if stuck && err == nil {
				// the routing table is blocked for good: the rest of the batch needs a fresh child
				res.Done = true
				res.Ms = time.Since(t0).Milliseconds()
				netSay("R", res)
				cleanup()
				os.Exit(4)
			}
		default:
			err = fmt.Errorf("case kind %q", c.Net)
		}
		if err != nil {
			cleanup()
			netFail(fmt.Errorf("case %d (%s): %v", i, c.Net, err))
		}
		res.Done = true
		res.Ms = time.Since(t0).Milliseconds()
		netSay("R", res)
	}
	netSay("END", 0)
	cleanup()
	os.Exit(0)
}

// ---------------------------------------------------------------- download job

func (w *netWorld) runDl(c *netCase, res *netResult) error {
	w.mu.Lock()
	w.script = map[[2]int64][]wireSpec{}
	w.served = map[[2]int64]int{}
	w.dels = nil
	w.adv = map[peer.ID]int64{}
	w.lat = map[peer.ID]time.Duration{}
	for _, s := range c.Script {
		w.script[[2]int64{int64(s.P), s.H}] = s.W
	}
	var pids []string
	for i, p := range c.Peers {
		id := w.servers[p].ID()
		w.adv[id] = c.Adv[i]
		w.lat[id] = time.Duration(i+1) * time.Millisecond
		pids = append(pids, id.String())
	}
	w.mu.Unlock()
	msg := w.cli.NewMessage("p2p", types.EventFetchBlocks, &types.ReqBlocks{Start: c.Start, End: c.End, Pid: pids})
	done := make(chan struct{})
	go func() {
		protocol.GetEventHandler(types.EventFetchBlocks).CallBack(msg)
		close(done)
	}()
	r, err := w.cli.WaitTimeout(msg, 30*time.Second)
	if err != nil {
		return fmt.Errorf("no acknowledgement: %v", err)
	}
	switch v := r.Data.(type) {
	case types.Reply:
		res.Ack = string(v.Msg)
	case *types.Reply:
		res.Ack = string(v.Msg)
	default:
		res.Ack = "?"
	}
	select {
	case <-done:
	case <-time.After(90 * time.Second):
		return fmt.Errorf("download job did not end")
	}
	if err := w.barrier(); err != nil {
		return err
	}
	w.mu.Lock()
	defer w.mu.Unlock()
	res.Dels = append([]delObs(nil), w.dels...)
	sort.Slice(res.Dels, func(a, b int) bool {
		x, y := res.Dels[a], res.Dels[b]
		if x.H != y.H {
			return x.H < y.H
		}
		return x.P < y.P
	})
	for k, n := range w.served {
		res.Reqs = append(res.Reqs, reqObs{P: int(k[0]), H: k[1], C: n})
	}
	sort.Slice(res.Reqs, func(a, b int) bool {
		x, y := res.Reqs[a], res.Reqs[b]
		if x.P != y.P {
			return x.P < y.P
		}
		return x.H < y.H
	})
	return nil
}

// ---------------------------------------------------------------- serving side

func (q sreqSpec) payload() []byte {
	if q.Old {
		m := &types.MessageGetBlocksReq{}
		if !q.NoMsg {
			m.Message = &types.P2PGetBlocks{StartHeight: q.S, EndHeight: q.E}
		}
		return types.Encode(m)
	}
	return types.Encode(&types.ReqBlocks{Start: q.S, End: q.E})
}

func (w *netWorld) runSrv(c *netCase, res *netResult) error {
	if c.Net == "srv" {
		w.mu.Lock()
		w.tip, w.mode = c.Tip, c.Mode
		w.mu.Unlock()
	}
	res.Tip = w.tip
	for i, q := range c.Reqs {
		w.mu.Lock()
		w.fwd = nil
		w.mu.Unlock()
		if q.Direct {
			// what rpc GetBlocks does: the range goes to the blockchain module unchecked
			msg := w.cli.NewMessage("blockchain", types.EventGetBlocks, &types.ReqBlocks{Start: q.S, End: q.E})
			o := srvObs{Class: "eof"}
			if err := w.cli.Send(msg, true); err != nil {
				return err
			}
			if reply, err := w.cli.WaitTimeout(msg, 3*time.Second); err == nil {
				if bd, ok := reply.Data.(*types.BlockDetails); ok {
					o.Class = "blocks"
					for _, it := range bd.Items {
						o.Hs = append(o.Hs, it.GetBlock().GetHeight())
					}
				}
			}
			res.Srv = append(res.Srv, o)
			netSay("P", res)
			continue
		}
		proto := protoDlNew
		if q.Old {
			proto = protoDlOld
		}
		class, data, err := w.exchange(proto, q.K, q.payload())
		if err != nil {
			return err
		}
		o := srvObs{Class: class}
		if class == "data" {
			pl, ok := w.unframe(data)
			if !ok {
				return fmt.Errorf("request %d: unreadable reply", i)
			}
			o.Class = "blocks"
			if q.Old {
				var resp types.MessageGetBlocksResp
				if err := types.Decode(pl, &resp); err != nil {
					return err
				}
				for _, it := range resp.GetMessage().GetItems() {
					h := int64(-999)
					if b, ok := it.GetValue().(*types.InvData_Block); ok && b.Block != nil {
						h = b.Block.Height
					}
					o.Hs = append(o.Hs, h)
				}
			} else {
				var blk types.Block
				if err := types.Decode(pl, &blk); err != nil {
					return err
				}
				o.Hs = []int64{blk.Height}
			}
		}
		w.mu.Lock()
		if w.fwd != nil {
			f := *w.fwd
			o.Fwd = &f
		}
		w.mu.Unlock()
		res.Srv = append(res.Srv, o)
		netSay("P", res)
	}
	return nil
}

// ---------------------------------------------------------------- version handlers

func (q vreqSpec) payload() []byte {
	v := &types.P2PVersion{Version: q.Ver, AddrFrom: q.From, AddrRecv: q.Recv}
	if q.Old {
		m := &types.MessageP2PVersionReq{}
		if !q.NoMsg {
			m.Message = v
		}
		return types.Encode(m)
	}
	return types.Encode(v)
}

func (w *netWorld) runVer(c *netCase, res *netResult) error {
	for i, q := range c.Vreqs {
		w.mu.Lock()
		w.effs = nil
		w.mu.Unlock()
		proto := protoVer
		if q.Old {
			proto = protoVerOld
		}
		class, data, err := w.exchange(proto, q.K, q.payload())
		if err != nil {
			return err
		}
		o := verObs{}
		switch class {
		case "data":
			pl, ok := w.unframe(data)
			if !ok {
				return fmt.Errorf("request %d: unreadable reply", i)
			}
			if q.Old {
				var resp types.MessageP2PVersionResp
				if err := types.Decode(pl, &resp); err != nil {
					return err
				}
				o.From = resp.GetMessage().GetAddrFrom()
			} else {
				var resp types.P2PVersion
				if err := types.Decode(pl, &resp); err != nil {
					return err
				}
				o.From = resp.GetAddrFrom()
			}
		case "eof":
			o.Class = 1
		case "reset":
			o.Class = 2
		}
		w.mu.Lock()
		o.Effs = append([]effObs(nil), w.effs...)
		w.mu.Unlock()
		for _, e := range o.Effs {
			if e.K == "black" {
				o.Class = 3
			}
		}
		res.Ver = append(res.Ver, o)
		netSay("P", res)
	}
	return nil
}

// ---------------------------------------------------------------- version limit (peer-info rounds)

func (w *netWorld) runLim(c *netCase, res *netResult) error {
	rounds := len(c.Info[0])
	w.mu.Lock()
	w.limScript = c.Info
	w.limServed = make([]int, nServers)
	w.limEvents = nil
	w.limLast = time.Now()
	w.mu.Unlock()
	deadline := time.Now().Add(time.Duration(20+3*rounds) * time.Second)
	reported := 0
	for {
		time.Sleep(50 * time.Millisecond)
		w.mu.Lock()
		minServed := rounds + 1
		for _, n := range w.limServed {
			if n < minServed {
				minServed = n
			}
		}
		quiet := time.Since(w.limLast)
		evs := append([]limEvent(nil), w.limEvents...)
		w.mu.Unlock()
		// round k is complete when round k+1 has begun everywhere, or after a pause
		complete := minServed - 1
		if minServed >= rounds && quiet > 600*time.Millisecond {
			complete = rounds
		}
		for reported < complete && reported < rounds {
			res.Lim = append(res.Lim, limRound(c, reported, evs)...)
			reported++
			netSay("P", res)
		}
		if reported >= rounds {
			return nil
		}
		if time.Now().After(deadline) {
			return fmt.Errorf("peer-info rounds: %d of %d seen", reported, rounds)
		}
	}
}

func limRound(c *netCase, k int, evs []limEvent) []int {
	out := make([]int, nServers)
	untagged := []int{}
	for _, e := range evs {
		if e.Name == "" && e.Round == k {
			untagged = append(untagged, e.Kind)
		}
	}
	nameless := 0
	for p := 0; p < nServers; p++ {
		s := c.Info[p][k]
		switch s.K {
		case "msg":
			out[p] = 2
			n := 0
			for _, e := range evs {
				if e.Name == s.Name {
					out[p] = e.Kind
					n++
				}
			}
			if n > 1 {
				out[p] = 9
			}
		case "badhdr":
			nameless++
			out[p] = 2
			if len(untagged) == 1 {
				out[p] = untagged[0]
			}
		default:
			out[p] = 2
		}
	}
	if len(untagged) > nameless || len(untagged) > 1 {
		for p := 0; p < nServers; p++ {
			if c.Info[p][k].K != "msg" {
				out[p] = 9
			}
		}
	}
	return out
}
