// net.go: the in-process libp2p network of the stream streams of hC33 (always
// inside a CHILD process): one node host that runs chain33's real download
// and peer protocols, a pool of scripted serving hosts (download replies,
// peer-info replies), fakes for the blockchain / mempool modules and for the
// interfaces the protocols query, recorders for address-book and blacklist
// effects.  Code patterns follow harness/cmd/hC35 (world.go).
package main

import (
	"context"
	"crypto/ed25519"
	"encoding/binary"
	"errors"
	"fmt"
	"io"
	"math/big"
	"strings"
	"sync"
	"time"

	"github.com/33cn/chain33/client"
	"github.com/33cn/chain33/queue"
	"github.com/33cn/chain33/system/p2p/dht/protocol"
	"github.com/33cn/chain33/system/p2p/dht/protocol/download"
	peerproto "github.com/33cn/chain33/system/p2p/dht/protocol/peer"
	p2pty "github.com/33cn/chain33/system/p2p/dht/types"
	"github.com/33cn/chain33/types"
	"github.com/libp2p/go-libp2p"
	kbt "github.com/libp2p/go-libp2p-kbucket"
	"github.com/libp2p/go-libp2p/core/crypto"
	"github.com/libp2p/go-libp2p/core/host"
	"github.com/libp2p/go-libp2p/core/metrics"
	"github.com/libp2p/go-libp2p/core/network"
	"github.com/libp2p/go-libp2p/core/peer"
	"github.com/libp2p/go-libp2p/core/peerstore"
	coreproto "github.com/libp2p/go-libp2p/core/protocol"
	ma "github.com/multiformats/go-multiaddr"
)

const (
	protoDlOld  = "/chain33/downloadBlockReq/1.0.0"
	protoDlNew  = "/chain33/download-block/1.0.0"
	protoVer    = "/chain33/peer-version/1.0.0"
	protoVerOld = "/chain33/peerVersion/1.0.0"
	protoInfo   = "/chain33/peer-info/1.0.0"
	nServers    = 6 // server 5 does not speak the download protocol
	netChannel  = 7
	tySentinel  = int64(-3333)
	blockMark   = 33 // Version of the blocks the stub blockchain serves
)

type delObs struct {
	H  int64 `json:"h"`
	P  int   `json:"p"`
	ID int   `json:"id"`
}

type effObs struct {
	K string `json:"k"` // black addremote addself addself-nil
	A string `json:"a,omitempty"`
}

type limEvent struct {
	Round int
	Kind  int // 0 refresh, 1 black
	Name  string
}

type netWorld struct {
	node    host.Host
	servers []host.Host
	pidIdx  map[peer.ID]int
	q       queue.Queue
	cli     queue.Client
	hdr     []byte
	cancel  context.CancelFunc
	env     *protocol.P2PEnv
	rt      *kbt.RoutingTable // store mode: the node's routing table
	selfH   int64             // store mode: height the node reports for itself

	mu     sync.Mutex
	adv    map[peer.ID]int64
	lat    map[peer.ID]time.Duration
	script map[[2]int64][]wireSpec
	served map[[2]int64]int
	dels   []delObs
	tip    int64
	mode   int64
	fwd    *[2]int64
	effs   []effObs
	// version-limit child
	limScript [][]infoSpec
	limServed []int
	limEvents []limEvent
	limLast   time.Time
}

// ---- fakes and recorders

type netPeerInfo struct{ w *netWorld }

func (p *netPeerInfo) Refresh(info *types.Peer) {
	if info == nil || info.Self {
		return
	}
	p.w.limEvent(0, info.GetName())
}
func (p *netPeerInfo) Fetch(pid peer.ID) *types.Peer { return nil }
func (p *netPeerInfo) FetchAll() []*types.Peer       { return nil }
func (p *netPeerInfo) PeerHeight(pid peer.ID) int64 {
	p.w.mu.Lock()
	defer p.w.mu.Unlock()
	if h, ok := p.w.adv[pid]; ok {
		return h
	}
	if p.w.selfH != 0 && pid == p.w.node.ID() {
		return p.w.selfH
	}
	return -1
}
func (p *netPeerInfo) PeerMaxHeight() int64 { return 0 }

type netConnMgr struct{}

func (c *netConnMgr) FetchConnPeers() []peer.ID                      { return nil }
func (c *netConnMgr) BoundSize() (int, int)                          { return 0, 0 }
func (c *netConnMgr) GetNetRate() metrics.Stats                      { return metrics.Stats{} }
func (c *netConnMgr) BandTrackerByProtocol() *types.NetProtocolInfos { return nil }
func (c *netConnMgr) RateCalculate(ratebytes float64) string         { return "" }

type blackRec struct{ w *netWorld }

func (b *blackRec) Add(s string, t time.Duration) {
	b.w.mu.Lock()
	b.w.effs = append(b.w.effs, effObs{K: "black"})
	b.w.mu.Unlock()
	b.w.limEvent(1, s)
}
func (b *blackRec) Has(s string) bool      { return false }
func (b *blackRec) List() *types.Blacklist { return &types.Blacklist{} }

func (w *netWorld) limEvent(kind int, name string) {
	w.mu.Lock()
	defer w.mu.Unlock()
	round := 0
	for _, n := range w.limServed {
		if n > round {
			round = n
		}
	}
	w.limEvents = append(w.limEvents, limEvent{Round: round - 1, Kind: kind, Name: name})
	w.limLast = time.Now()
}

// recStore records AddAddr and overrides LatencyEWMA of the node's real peerstore.
type recStore struct {
	peerstore.Peerstore
	w *netWorld
}

func (s *recStore) AddAddr(p peer.ID, addr ma.Multiaddr, ttl time.Duration) {
	e := effObs{K: "addremote"}
	if p == s.w.node.ID() {
		e.K = "addself"
	}
	if addr == nil {
		e.K += "-nil"
	} else {
		e.A = addr.String()
	}
	s.w.mu.Lock()
	s.w.effs = append(s.w.effs, e)
	s.w.mu.Unlock()
	s.Peerstore.AddAddr(p, addr, ttl)
}

func (s *recStore) LatencyEWMA(p peer.ID) time.Duration {
	s.w.mu.Lock()
	defer s.w.mu.Unlock()
	return s.w.lat[p]
}

type recHost struct {
	host.Host
	ps *recStore
}

func (h *recHost) Peerstore() peerstore.Peerstore { return h.ps }

// ---- construction

func netKey(tag byte, i int) crypto.PrivKey {
	seed := make([]byte, ed25519.SeedSize)
	copy(seed, []byte("hC33-deterministic-key"))
	seed[30], seed[31] = tag, byte(i)
	sk, err := crypto.UnmarshalEd25519PrivateKey(ed25519.NewKeyFromSeed(seed))
	if err != nil {
		panic(err)
	}
	return sk
}

func netHost(sk crypto.PrivKey) host.Host {
	h, err := libp2p.New(
		libp2p.Identity(sk),
		libp2p.ListenAddrStrings("/ip4/127.0.0.1/tcp/0"),
		libp2p.DisableRelay(),
		libp2p.Ping(false),
		libp2p.ResourceManager(&network.NullResourceManager{}),
	)
	if err != nil {
		panic(err)
	}
	return h
}

// newNetWorld: mode "net" (download + version streams), "lim" (peer-info queries of the node,
// VerLimit = lim) or "srvlive" (qcli = the queue client of a real test node).
func newNetWorld(mode, lim string, qcli queue.Client, cfg *types.Chain33Config) *netWorld {
	w := &netWorld{pidIdx: map[peer.ID]int{}, adv: map[peer.ID]int64{}, lat: map[peer.ID]time.Duration{},
		script: map[[2]int64][]wireSpec{}, served: map[[2]int64]int{}, limServed: make([]int, nServers)}
	ctx, cancel := context.WithCancel(context.Background())
	w.cancel = cancel
	base := netHost(netKey('n', 0))
	w.node = &recHost{Host: base, ps: &recStore{Peerstore: base.Peerstore(), w: w}}
	for i := 0; i < nServers; i++ {
		s := netHost(netKey('s', i))
		idx := i
		if i < nServers-1 {
			s.SetStreamHandler(protoDlOld, func(st network.Stream) { w.serveDl(idx, st) })
		}
		if mode == "lim" {
			s.SetStreamHandler(protoInfo, func(st network.Stream) { w.serveInfo(idx, st) })
		}
		w.servers = append(w.servers, s)
		w.pidIdx[s.ID()] = i
		if err := base.Connect(ctx, peer.AddrInfo{ID: s.ID(), Addrs: s.Addrs()}); err != nil {
			panic(fmt.Sprintf("connect %d: %v", i, err))
		}
	}
	env := &protocol.P2PEnv{
		Ctx:             ctx,
		ChainCfg:        cfg,
		Host:            w.node,
		PeerInfoManager: &netPeerInfo{w},
		ConnManager:     &netConnMgr{},
		ConnBlackList:   &blackRec{w},
		SubConfig:       &p2pty.P2PSubConfig{Channel: netChannel, VerLimit: lim, Port: 13802},
	}
	if qcli != nil {
		env.QueueClient = qcli
		w.cli = qcli
	} else {
		w.q = queue.New("hC33net")
		w.q.SetConfig(cfg)
		w.cli = w.q.Client()
		env.QueueClient = w.q.Client()
		w.startStubs()
	}
	w.hdr = protoHeader()
	w.env = env
	download.InitProtocol(env)
	if mode == "srvlive" {
		return w
	}
	api, err := client.New(w.q.Client(), nil)
	if err != nil {
		panic(err)
	}
	env.API = api
	rt, err := kbt.NewRoutingTable(20, kbt.ConvertPeerID(base.ID()), time.Minute, base.Peerstore(), time.Hour, nil)
	if err != nil {
		panic(err)
	}
	if mode == "lim" {
		for _, s := range w.servers {
			if _, err := rt.TryAddPeer(s.ID(), true, false); err != nil {
				panic(err)
			}
		}
	}
	env.RoutingTable = rt
	peerproto.InitProtocol(env)
	return w
}

// protoHeader: the 17 bytes WriteStream puts in front of every message.
func protoHeader() []byte {
	var rec recStream
	_ = protocol.WriteStream(&types.ReqNil{}, &rec)
	if len(rec.b) < 17 {
		panic("protocol header")
	}
	return append([]byte(nil), rec.b[:17]...)
}

type recStream struct {
	network.Stream
	b []byte
}

func (s *recStream) Write(p []byte) (int, error) {
	s.b = append(s.b, p...)
	return len(p), nil
}

// ---- stub blockchain / mempool modules

func (w *netWorld) startStubs() {
	bc := w.q.Client()
	bc.Sub("blockchain")
	go func() {
		for msg := range bc.Recv() {
			switch msg.Ty {
			case tySentinel:
				close(msg.Data.(chan struct{}))
			case types.EventSyncBlock:
				bp, ok := msg.Data.(*types.BlockPid)
				d := delObs{H: -1, P: -1, ID: -1}
				if ok && bp.Block != nil {
					d.H, d.ID = bp.Block.Height, int(bp.Block.Version)
					if pid, err := peer.Decode(bp.Pid); err == nil {
						if i, ok := w.pidIdx[pid]; ok {
							d.P = i
						}
					}
				}
				w.mu.Lock()
				w.dels = append(w.dels, d)
				w.mu.Unlock()
			case types.EventGetBlocks:
				req := msg.Data.(*types.ReqBlocks)
				w.mu.Lock()
				w.fwd = &[2]int64{req.Start, req.End}
				tip, mode := w.tip, w.mode
				w.mu.Unlock()
				msg.Reply(bc.NewMessage("", types.EventBlocks, stubChain(tip, mode, req.Start, req.End)))
			case types.EventGetLastHeader:
				msg.Reply(bc.NewMessage("", types.EventHeader, &types.Header{Height: 5}))
			case types.EventSnowmanLastChoice:
				msg.Reply(bc.NewMessage("", types.EventSnowmanLastChoice, &types.SnowChoice{}))
			default:
				msg.Reply(bc.NewMessage("", msg.Ty, errors.New("stub: unsupported")))
			}
		}
	}()
	mp := w.q.Client()
	mp.Sub("mempool")
	go func() {
		for msg := range mp.Recv() {
			if msg.Ty == types.EventGetMempoolSize {
				msg.Reply(mp.NewMessage("", types.EventMempoolSize, &types.MempoolSize{Size: 3}))
			} else {
				msg.Reply(mp.NewMessage("", msg.Ty, errors.New("stub: unsupported")))
			}
		}
	}()
}

// stubChain mirrors Check.stub_chain (integer arithmetic, no wrap-around).
func stubChain(tip, mode, s, e int64) interface{} {
	switch mode {
	case 1:
		return &types.BlockDetails{}
	case 2:
		return errors.New("stub: error")
	}
	span := new(big.Int).Sub(big.NewInt(e), big.NewInt(s))
	if s < 0 || tip < s || e < s || span.Cmp(big.NewInt(1000)) >= 0 {
		return errors.New("stub: range")
	}
	en := e
	if tip < e {
		en = tip
	}
	out := &types.BlockDetails{}
	for h := s; h <= en; h++ {
		out.Items = append(out.Items, &types.BlockDetail{Block: &types.Block{Height: h, Version: blockMark}})
	}
	return out
}

// barrier: everything sent to the blockchain topic before this call has been processed.
func (w *netWorld) barrier() error {
	ch := make(chan struct{})
	if err := w.cli.Send(w.cli.NewMessage("blockchain", tySentinel, ch), false); err != nil {
		return err
	}
	select {
	case <-ch:
		return nil
	case <-time.After(20 * time.Second):
		return errors.New("barrier timeout")
	}
}

// ---- wire writers (serving peers and requesting peer)

func frame(payload []byte) []byte {
	b := make([]byte, 4+len(payload))
	binary.BigEndian.PutUint32(b, uint32(len(payload)))
	copy(b[4:], payload)
	return b
}

func buildResp(s wireSpec) *types.MessageGetBlocksResp {
	if s.NoMsg {
		return &types.MessageGetBlocksResp{}
	}
	m := &types.InvDatas{}
	for _, it := range s.Items {
		switch it.K {
		case "block":
			m.Items = append(m.Items, &types.InvData{Ty: 2, Value: &types.InvData_Block{Block: &types.Block{Height: it.H, Version: int64(it.ID)}}})
		case "tx":
			m.Items = append(m.Items, &types.InvData{Ty: 1, Value: &types.InvData_Tx{Tx: &types.Transaction{Payload: []byte("x")}}})
		default:
			m.Items = append(m.Items, &types.InvData{Ty: 2})
		}
	}
	return &types.MessageGetBlocksResp{Message: m}
}

// wireBytes: what is written to the stream (nil, false = reset the stream instead).
func (w *netWorld) wireBytes(k string, payload []byte) ([]byte, bool) {
	switch k {
	case "reset":
		return nil, false
	case "empty":
		return nil, true
	case "shorthdr":
		return append([]byte(nil), w.hdr[:5]...), true
	case "badhdr":
		return []byte("xxxxxxxxxxxxxxxxx-and-more"), true
	case "garbage":
		return append(append([]byte(nil), w.hdr...), frame([]byte{0xff, 0xff, 0xff, 0x07, 0x01})...), true
	case "oversize":
		return append(append([]byte(nil), w.hdr...), 0x7f, 0xff, 0xff, 0xff), true
	case "trunc":
		return append(append([]byte(nil), w.hdr...), 0, 0, 0, 100, 1, 2, 3), true
	case "msg", "raw":
		return append(append([]byte(nil), w.hdr...), frame(payload)...), true
	}
	panic("wire kind " + k)
}

func (w *netWorld) writeWire(st network.Stream, k string, payload []byte) {
	b, ok := w.wireBytes(k, payload)
	if !ok {
		_ = st.Reset()
		return
	}
	if len(b) > 0 {
		_, _ = st.Write(b)
	}
	_ = st.Close()
}

// serveDl: download handler of a scripted serving peer.
func (w *netWorld) serveDl(idx int, st network.Stream) {
	var req types.MessageGetBlocksReq
	if err := protocol.ReadStream(&req, st); err != nil || req.Message == nil {
		_ = st.Reset()
		return
	}
	k := [2]int64{int64(idx), req.Message.StartHeight}
	w.mu.Lock()
	n := w.served[k]
	w.served[k] = n + 1
	ws := w.script[k]
	w.mu.Unlock()
	spec := wireSpec{K: "reset"}
	if n < len(ws) {
		spec = ws[n]
	}
	w.writeWire(st, spec.K, spec.payload())
}

// serveInfo: peer-info handler of a scripted serving peer (version-limit child).
func (w *netWorld) serveInfo(idx int, st network.Stream) {
	w.mu.Lock()
	n := w.limServed[idx]
	w.limServed[idx] = n + 1
	var spec infoSpec
	if idx < len(w.limScript) && n < len(w.limScript[idx]) {
		spec = w.limScript[idx][n]
	} else {
		spec = infoSpec{K: "reset"}
	}
	w.limLast = time.Now()
	w.mu.Unlock()
	var payload []byte
	if spec.K == "msg" {
		payload = types.Encode(&types.Peer{Name: spec.Name, Version: spec.Ver, Header: &types.Header{Height: 1}})
	}
	w.writeWire(st, spec.K, payload)
}

// ---- requesting peer (server 0 talks to the node)

func (w *netWorld) openStream(proto string) (network.Stream, error) {
	c := w.servers[0]
	var last error
	for i := 0; i < 100; i++ {
		ctx, cancel := context.WithTimeout(context.Background(), 3*time.Second)
		if c.Network().Connectedness(w.node.ID()) != network.Connected {
			_ = c.Connect(ctx, peer.AddrInfo{ID: w.node.ID(), Addrs: w.node.Addrs()})
		}
		st, err := c.NewStream(ctx, w.node.ID(), coreproto.ID(proto))
		cancel()
		if err == nil {
			return st, nil
		}
		last = err
		time.Sleep(20 * time.Millisecond)
	}
	return nil, last
}

// exchange writes the request bytes, half-closes, and reads everything the node sends back.
// class: "data" (bytes in data), "eof", "reset".
func (w *netWorld) exchange(proto, k string, payload []byte) (class string, data []byte, err error) {
	st, err := w.openStream(proto)
	if err != nil {
		return "", nil, err
	}
	defer st.Reset()
	_ = st.SetDeadline(time.Now().Add(8 * time.Second))
	b, _ := w.wireBytes(k, payload)
	if len(b) > 0 {
		if _, err := st.Write(b); err != nil {
			return "", nil, fmt.Errorf("write: %v", err)
		}
	}
	_ = st.CloseWrite()
	data, rerr := io.ReadAll(st)
	switch {
	case len(data) > 0:
		return "data", data, nil
	case rerr == nil:
		return "eof", nil, nil
	case strings.Contains(rerr.Error(), "reset") || strings.Contains(rerr.Error(), "closed"):
		return "reset", nil, nil
	}
	return "", nil, fmt.Errorf("read: %v", rerr)
}

// unframe: header + one msgio frame -> payload
func (w *netWorld) unframe(data []byte) ([]byte, bool) {
	if len(data) < 21 || string(data[:17]) != string(w.hdr) {
		return nil, false
	}
	n := int(binary.BigEndian.Uint32(data[17:21]))
	if len(data) < 21+n {
		return nil, false
	}
	return data[21 : 21+n], true
}
