// netcases.go: replayable inputs of the stream streams, their generators and
// the structural view of every wire message that the Coq model receives.
package main

import (
	"encoding/hex"
	"fmt"
	"math"

	"github.com/33cn/chain33/types"
	"verifharness/hlib"
)

type itemSpec struct {
	K  string `json:"k"` // none tx block
	H  int64  `json:"h,omitempty"`
	ID int    `json:"id,omitempty"`
}

// wireSpec: one reply of a serving peer to a block request.
type wireSpec struct {
	K     string     `json:"k"` // nostream reset shorthdr badhdr garbage oversize trunc empty msg raw
	NoMsg bool       `json:"nomsg,omitempty"`
	Items []itemSpec `json:"items,omitempty"`
	Raw   string     `json:"raw,omitempty"` // hex payload of the frame (raw)
}

func (s wireSpec) payload() []byte {
	switch s.K {
	case "msg":
		return types.Encode(buildResp(s))
	case "raw":
		b, _ := hex.DecodeString(s.Raw)
		return b
	}
	return nil
}

// coq: the model's view of the reply (decoding of the frame is trusted: done here with types.Decode)
func (s wireSpec) coq() string {
	switch s.K {
	case "nostream":
		return "wn"
	case "badhdr":
		return "wb"
	case "msg", "raw":
		var resp types.MessageGetBlocksResp
		if types.Decode(s.payload(), &resp) != nil {
			return "we"
		}
		if resp.Message == nil {
			return "w0"
		}
		var items []string
		for _, it := range resp.Message.Items {
			switch v := it.GetValue().(type) {
			case *types.InvData_Block:
				items = append(items, fmt.Sprintf("ib %s %d", zlit(v.Block.GetHeight()), v.Block.GetVersion()))
			case *types.InvData_Tx:
				items = append(items, "WItx")
			default:
				items = append(items, "WInone")
			}
		}
		return "(wm " + hlib.List(items) + ")"
	}
	return "we"
}

type dlScript struct {
	P int        `json:"p"`
	H int64      `json:"h"`
	W []wireSpec `json:"w"`
}

type sreqSpec struct {
	Direct bool   `json:"direct,omitempty"` // srvlive only: EventGetBlocks sent straight to the blockchain module (as rpc does)
	Old    bool   `json:"old,omitempty"`
	K      string `json:"k"` // empty shorthdr badhdr garbage msg
	NoMsg  bool   `json:"nomsg,omitempty"`
	S      int64  `json:"s"`
	E      int64  `json:"e"`
}

type vreqSpec struct {
	Old   bool   `json:"old,omitempty"`
	K     string `json:"k"` // empty shorthdr badhdr garbage msg
	NoMsg bool   `json:"nomsg,omitempty"`
	Ver   int32  `json:"ver"`
	From  string `json:"from"`
	Recv  string `json:"recv"`
}

type infoSpec struct {
	K    string `json:"k"` // reset badhdr garbage msg
	Name string `json:"name,omitempty"`
	Ver  string `json:"ver,omitempty"`
}

// netCase: one case of a stream stream.
type netCase struct {
	Net   string `json:"net"` // dl srv srvlive ver lim
	Name  string `json:"name,omitempty"`
	Seed  uint64 `json:"seed"`
	Index int    `json:"index"`
	// dl
	Start  int64      `json:"start,omitempty"`
	End    int64      `json:"end,omitempty"`
	Peers  []int      `json:"peers,omitempty"` // latency order
	Adv    []int64    `json:"adv,omitempty"`
	Script []dlScript `json:"script,omitempty"`
	// srv / srvlive
	Tip  int64      `json:"tip,omitempty"`
	Mode int64      `json:"mode,omitempty"`
	Reqs []sreqSpec `json:"reqs,omitempty"`
	// ver
	Vreqs []vreqSpec `json:"vreqs,omitempty"`
	// lim: Info[p] = replies of serving peer p, one per round
	Lim  string       `json:"lim,omitempty"`
	Info [][]infoSpec `json:"info,omitempty"`
	// store
	St []stReq `json:"st,omitempty"`
}

// ---------------------------------------------------------------- generators

func blockItem(h int64, id int) itemSpec { return itemSpec{K: "block", H: h, ID: id} }

func okWire(h int64, id int) wireSpec { return wireSpec{K: "msg", Items: []itemSpec{blockItem(h, id)}} }

// genWire: a reply to a request for height h; good = well-formed single block of height h
func genWire(r *hlib.Rng, h int64, id int, goodPct int) wireSpec {
	if r.Intn(100) < goodPct {
		return okWire(h, id)
	}
	switch r.Intn(16) {
	case 0:
		return wireSpec{K: "reset"}
	case 1:
		return wireSpec{K: "shorthdr"}
	case 2:
		return wireSpec{K: "badhdr"}
	case 3:
		return wireSpec{K: "garbage"}
	case 4:
		return wireSpec{K: "oversize"}
	case 5:
		return wireSpec{K: "trunc"}
	case 6:
		return wireSpec{K: "msg", NoMsg: true}
	case 7, 8:
		return wireSpec{K: "msg"} // Message set, zero items
	case 9: // first item carries nothing / a transaction
		return wireSpec{K: "msg", Items: []itemSpec{{K: hlib.Pick(r, []string{"none", "tx"})}, blockItem(h, id)}}
	case 10: // wrong height
		return okWire(h+int64(hlib.Pick(r, []int{-1, 1, 100})), id)
	case 11: // several items, the first one right
		return wireSpec{K: "msg", Items: []itemSpec{blockItem(h, id), blockItem(h+1, id), {K: "tx"}}}
	case 12: // several items, the right one second
		return wireSpec{K: "msg", Items: []itemSpec{blockItem(h+1, id), blockItem(h, id)}}
	case 13: // a frame that is a Block, not a reply
		return wireSpec{K: "raw", Raw: hex.EncodeToString(types.Encode(&types.Block{Height: h, Version: int64(id)}))}
	case 14: // a frame that is a request
		return wireSpec{K: "raw", Raw: hex.EncodeToString(types.Encode(&types.MessageGetBlocksReq{Message: &types.P2PGetBlocks{StartHeight: h, EndHeight: h}}))}
	default:
		return wireSpec{K: "empty"}
	}
}

func genDl(r *hlib.Rng, seed uint64, index int, thorough bool) netCase {
	c := netCase{Net: "dl", Seed: seed, Index: index}
	c.Start = int64(r.Range(0, 50))
	c.End = c.Start + int64(r.Intn(3))
	if r.Chance(1, 25) {
		c.End = c.Start - 1 // start > end
	}
	np := r.Range(1, 4)
	if r.Chance(1, 30) {
		np = 0 // no pid
	}
	perm := []int{0, 1, 2, 3, 4, 5}
	hlib.Shuffle(r, perm)
	goodPct := hlib.Pick(r, []int{0, 30, 60})
	for i := 0; i < np; i++ {
		p := perm[i]
		c.Peers = append(c.Peers, p)
		adv := c.End + int64(r.Range(0, 5))
		if thorough && np > 1 && r.Chance(1, 400) {
			adv = c.Start - 1 // never asked; when the other peers fail: 50 sleeps of 400 ms, twice
		}
		c.Adv = append(c.Adv, adv)
		for h := c.Start; h <= c.End; h++ {
			sc := dlScript{P: p, H: h}
			for a := 0; a < 2; a++ {
				if p == nServers-1 {
					sc.W = append(sc.W, wireSpec{K: "nostream"})
				} else {
					sc.W = append(sc.W, genWire(r, h, 1+r.Intn(200), goodPct))
				}
			}
			c.Script = append(c.Script, sc)
		}
	}
	return c
}

// fixed download cases: every malformed variant as the only / first answer
func fixedDl(seed uint64) []netCase {
	var out []netCase
	mk := func(name string, ws ...wireSpec) {
		c := netCase{Net: "dl", Name: name, Seed: seed, Start: 5, End: 5, Peers: []int{0, 1}, Adv: []int64{9, 9}}
		c.Script = []dlScript{{P: 0, H: 5, W: ws}, {P: 1, H: 5, W: []wireSpec{{K: "reset"}, okWire(5, 77)}}}
		out = append(out, c)
	}
	mk("empty-items", wireSpec{K: "msg"}, wireSpec{K: "msg"})
	mk("no-message", wireSpec{K: "msg", NoMsg: true}, wireSpec{K: "msg", NoMsg: true})
	mk("bad-header", wireSpec{K: "badhdr"}, wireSpec{K: "badhdr"})
	mk("first-item-empty", wireSpec{K: "msg", Items: []itemSpec{{K: "none"}}}, okWire(5, 3))
	mk("first-item-tx", wireSpec{K: "msg", Items: []itemSpec{{K: "tx"}, blockItem(5, 1)}}, okWire(5, 3))
	mk("wrong-height", okWire(6, 1), okWire(4, 1))
	mk("two-items", wireSpec{K: "msg", Items: []itemSpec{blockItem(5, 9), blockItem(6, 9)}})
	mk("oversize", wireSpec{K: "oversize"}, wireSpec{K: "trunc"})
	// the fastest peer advertises a lower height: skipped, the second one answers at once
	lo := netCase{Net: "dl", Name: "low-advertised", Seed: seed, Start: 5, End: 6, Peers: []int{3, 1}, Adv: []int64{4, 6}}
	for h := int64(5); h <= 6; h++ {
		lo.Script = append(lo.Script, dlScript{P: 3, H: h, W: []wireSpec{okWire(h, 8)}}, dlScript{P: 1, H: h, W: []wireSpec{okWire(h, 9)}})
	}
	out = append(out, lo)
	// the only peer answers with an empty item list, three heights
	c := netCase{Net: "dl", Name: "empty-items-only-peer", Seed: seed, Start: 7, End: 9, Peers: []int{2}, Adv: []int64{20}}
	for h := int64(7); h <= 9; h++ {
		c.Script = append(c.Script, dlScript{P: 2, H: h, W: []wireSpec{{K: "msg"}, {K: "msg"}}})
	}
	out = append(out, c)
	return out
}

var srvEdges = []int64{math.MinInt64, math.MinInt64 + 1, -(1 << 62), -(1 << 40), -257, -2, -1, 0, 1, 3, 5, 6, 200, 256, 257, 258, 1005,
	1 << 40, 1 << 62, math.MaxInt64 - 256, math.MaxInt64 - 1, math.MaxInt64}

func genSreq(r *hlib.Rng, nonneg bool) sreqSpec {
	q := sreqSpec{Old: r.Chance(1, 2), K: "msg"}
	switch r.Intn(12) {
	case 0:
		q.K = hlib.Pick(r, []string{"empty", "shorthdr", "badhdr", "garbage"})
		return q
	case 1:
		q.NoMsg = true
		return q
	case 2, 3, 4: // ordinary
		q.S = int64(r.Range(0, 8))
		q.E = q.S + int64(r.Range(-1, 4))
	case 5: // around the limit
		q.S = int64(r.Range(0, 3))
		q.E = q.S + int64(r.Range(254, 258))
	default:
		q.S, q.E = hlib.Pick(r, srvEdges), hlib.Pick(r, srvEdges)
		if r.Chance(1, 2) {
			q.E = q.S + int64(r.Range(-2, 300)) // may overflow: fine
		}
	}
	if nonneg && q.S < 0 {
		q.S = -(q.S + 1) // non-negative start: more requests get past the first test
	}
	return q
}

func genSrv(r *hlib.Rng, seed uint64, index int, nonneg bool) netCase {
	c := netCase{Net: "srv", Seed: seed, Index: index, Tip: int64(r.Range(0, 6))}
	if nonneg {
		c.Name = "nonneg"
	}
	if r.Chance(1, 6) {
		c.Mode = int64(r.Range(1, 2))
	}
	for n := r.Range(2, 6); n > 0; n-- {
		c.Reqs = append(c.Reqs, genSreq(r, nonneg))
	}
	return c
}

// the live case: real blockchain module behind the handlers. The ranges whose int64 difference
// wraps (witness of repaired finding 4: the sixth request used to end in a fatal allocation) go
// through both handlers and then straight to the blockchain module through the queue.
func liveSrv(seed uint64) netCase {
	return netCase{Net: "srvlive", Name: "range-wraps", Seed: seed, Reqs: []sreqSpec{
		{Old: true, K: "msg", S: 0, E: 0},
		{Old: true, K: "msg", NoMsg: true},
		{Old: true, K: "msg", S: -1, E: math.MaxInt64},
		{Old: false, K: "msg", S: -(1 << 62), E: 1 << 62},
		{Old: true, K: "msg", S: 0, E: 300},
		{Old: true, K: "msg", S: -(1 << 40), E: math.MaxInt64},
		{Old: false, K: "msg", S: -(1 << 40), E: math.MaxInt64},
		{Old: true, K: "msg", S: 0, E: 0},
		{Direct: true, K: "msg", S: 0, E: 0},
		{Direct: true, K: "msg", S: -5, E: 0},
		{Direct: true, K: "msg", S: 0, E: 1000},
		{Direct: true, K: "msg", S: -1, E: math.MaxInt64},
		{Direct: true, K: "msg", S: -(1 << 62), E: 1 << 62},
		{Direct: true, K: "msg", S: math.MinInt64, E: 0},
		{Direct: true, K: "msg", S: -(1 << 40), E: math.MaxInt64},
		{Direct: true, K: "msg", S: 0, E: 999},
		{Old: true, K: "msg", S: 0, E: 0},
	}}
}

// address strings: public / private / malformed, with and without a numeric fifth part
var addrPool = []string{
	"", "/", "////", "/ip4/8.8.8.8/tcp/13802", "/ip4/8.8.8.8/tcp/x", "/ip4/8.8.8.8/tcp/", "/ip4/8.8.8.8/tcp",
	"/ip4/192.168.1.5/tcp/13802", "/ip4/10.0.0.1/tcp/1", "/ip4/127.0.0.1/tcp/13802", "/ip4/1.2.3.4/tcp/99999999999999999999",
	"/ip4/1.2.3.4/tcp/+5", "/ip4/1.2.3.4/tcp/-0", "/x/1.2.3.4/y/80", "/ip4/1.2.3.4/udp/80/quic", "/ip4/300.1.1.1/tcp/80",
	"/ip6/2001:db8::1/tcp/80", "/ip6/::1/tcp/80", "/dns4/example.com/tcp/80", "a/b/9.9.9.9/d/7/e/f", "/ip4/9.9.9.9/tcp/80/p2p/xyz",
	"8.8.8.8", "/ip4/172.16.0.1/tcp/5", "/ip4/172.32.0.1/tcp/5", "/ip4/1.2.3.4/tcp/080", "/ip4/ 1.2.3.4/tcp/80",
}

const pubAddr = "/ip4/8.8.4.4/tcp/13802"

func genVer(r *hlib.Rng, seed uint64, index int) netCase {
	c := netCase{Net: "ver", Seed: seed, Index: index}
	// first request normalises the node's external address
	c.Vreqs = append(c.Vreqs, vreqSpec{K: "msg", Ver: netChannel, From: "", Recv: pubAddr})
	for n := r.Range(2, 5); n > 0; n-- {
		q := vreqSpec{Old: r.Chance(1, 2), K: "msg", Ver: netChannel, From: hlib.Pick(r, addrPool), Recv: hlib.Pick(r, addrPool)}
		switch r.Intn(10) {
		case 0:
			q.K = hlib.Pick(r, []string{"empty", "shorthdr", "badhdr", "garbage"})
		case 1:
			q.NoMsg = q.Old
			if !q.Old {
				q.Ver = 0
			}
		case 2:
			q.Ver = int32(hlib.Pick(r, []int{0, 6, 8, -1, math.MaxInt32}))
		}
		c.Vreqs = append(c.Vreqs, q)
	}
	return c
}

var verPool = []string{
	"", "@", "x@", "@6.8.9", "1.0.0@6.8.9", "1.0.0@6.8.10", "1.0.0@6.8.8", "1.0.0@6.8", "1.0.0@6", "1.0.0@7", "1.0.0@6.9", "1.0.0@6.8.9.0",
	"1.0.0@6.8.x", "1.0.0@6..9", "1.0.0@...", "1.0.0@6.8.9@", "a@b@c", "1.0.0@-6.8.9", "1.0.0@+6.+8.+9", "1.0.0@99999999999999999999.0.0",
	"1.0.0@6.8.-99999999999999999999", "1.0.0@06.008.0009", "1.0.0@6.8.9 ", "1.0.0@ 6.8.9", "1.0.0@1_0.8.9", "1.0.0@0x7.8.9", "@@", "1.0.0@5.9.9",
	"1.0.0@6.7.99", "1.0.0@9223372036854775807.8.9", "1.0.0@9223372036854775808.8.9", "1.0.0@6.8.9.x.y", "1.0.0@.8.9", "1.0.0@6.8.",
}

// strings around the limit 6.8.9 that pass it (or nearly)
var verNear = []string{"1.0.0@6.8.9", "1.0.0@6.8.10", "1.0.0@7", "1.0.0@6.9", "1.0.0@6.8.9.0", "1.0.0@06.008.0009", "1.0.0@+6.+8.+9",
	"1.0.0@7.0.0", "1.0.0@6.8.9.x.y", "1.0.0@6.9.0", "1.0.0@9223372036854775808.8.9", "x@10.10.10"}

func genLim(r *hlib.Rng, seed uint64, index int, lim string, rounds int) netCase {
	c := netCase{Net: "lim", Seed: seed, Index: index, Lim: lim, Info: make([][]infoSpec, nServers)}
	for k := 0; k < rounds; k++ {
		for p := 0; p < nServers; p++ {
			s := infoSpec{K: "msg", Name: fmt.Sprintf("t%d-%d", p, k), Ver: hlib.Pick(r, verPool)}
			if r.Chance(1, 3) {
				s.Ver = hlib.Pick(r, verNear)
			}
			if p == k%nServers && r.Chance(1, 2) {
				s = infoSpec{K: "badhdr"} // an answer without a name: at most one per round
			} else if r.Chance(1, 12) {
				s = infoSpec{K: hlib.Pick(r, []string{"reset", "garbage"})}
			}
			c.Info[p] = append(c.Info[p], s)
		}
	}
	return c
}
