// store.go: the p2pstore stream ("net-store") - child side.  A node host runs
// chain33's real p2pstore protocol in front of a REAL test node (blockchain
// module with a few blocks, recorded sequences and three chunk records written
// into its database), a local chunk store with a few bodies and a routing table
// holding the six serving hosts.  Server 0 sends requests to the header,
// chunk-record, fetch-chunk, shard-peer and full-node handlers; ranges also go
// straight to the blockchain module through the queue as the rpc module sends
// them (EventGetHeaders, EventGetBlockSequences).
package main

import (
	"encoding/binary"
	"fmt"
	"os"
	"strings"
	"time"

	dbm "github.com/33cn/chain33/common/db"
	"github.com/33cn/chain33/system/p2p/dht/protocol/p2pstore"
	p2pty "github.com/33cn/chain33/system/p2p/dht/types"
	"github.com/33cn/chain33/types"
	"github.com/33cn/chain33/util"
	"github.com/33cn/chain33/util/testnode"
	kbt "github.com/libp2p/go-libp2p-kbucket"
	"github.com/libp2p/go-libp2p/core/peer"
)

const (
	protoHdrOld = "/chain33/headerinfoReq/1.0.0"
	protoHdr    = "/chain33/headers/1.0.0"
	protoRec    = "/chain33/chunk-record/1.0.0"
	protoChunk  = "/chain33/fetch-chunk/1.0.0"
	protoShard  = "/chain33/fetch-shard-peer/1.0.0"
	protoFull   = "/chain33/full-node/1.0.0"
	storeBlocks = 3 // blocks mined on the test node before the requests
	storeRecs   = 3 // chunk records 0..2 written into the blockchain database
)

// heights of the bodies in the node's local chunk store
var storeDB = []int64{0, 1, 2, 3, 4, 7, 10, 11, 12, 99, 100, 999999999999}

type stEnv struct {
	Tip    int64   `json:"tip"`
	Last   int64   `json:"last"`
	Nrec   int64   `json:"nrec"`
	DB     []int64 `json:"db"`
	NPeers int     `json:"npeers"`
}

// stReq: one request of a net-store case.
type stReq struct {
	Q     string `json:"q"`           // hdrold hdr rec chunk shard full dirhdr dirseq
	K     string `json:"k,omitempty"` // empty shorthdr badhdr garbage msg
	NoMsg bool   `json:"nomsg,omitempty"`
	Mem   string `json:"mem,omitempty"` // blocks records chunk peers pid none
	Hdrs  bool   `json:"hdrs,omitempty"`
	Sig   string `json:"sig,omitempty"` // ok bad (else: no signature)
	S     int64  `json:"s,omitempty"`
	E     int64  `json:"e,omitempty"`
	Key   bool   `json:"key,omitempty"`
	Count int32  `json:"count,omitempty"`
	Wait  int    `json:"wait,omitempty"` // dirhdr/dirseq: seconds to wait for the reply (default 5; experiments only)
}

type stObs struct {
	C     string  `json:"c"` // reset eof timeout err headers records bodies node peers seqs
	Hs    []int64 `json:"hs,omitempty"`
	N     int64   `json:"n,omitempty"`
	M     int64   `json:"m,omitempty"`
	Stuck bool    `json:"stuck,omitempty"`
}

// newStoreWorld: test node + node host with the p2pstore protocol.
func newStoreWorld() (*netWorld, *stEnv, func()) {
	mock := testnode.New("", nil)
	discardLogs()
	cfg := mock.GetAPI().GetConfig()
	for h := int64(1); h <= storeBlocks; h++ {
		mock.SendTx(util.CreateNoneTx(cfg, mock.GetGenesisKey()))
		if err := mock.WaitHeightTimeout(h, 20); err != nil {
			netFail(fmt.Errorf("test node does not reach height %d: %v", h, err))
		}
	}
	for i := int64(0); i < storeRecs; i++ {
		info := &types.ChunkInfo{ChunkNum: i, ChunkHash: []byte(fmt.Sprintf("chunk-hash-%d", i)), Start: i * 10, End: i*10 + 9}
		if err := mock.GetBlockChain().GetDB().Set([]byte(fmt.Sprintf("ChunkNumToHash:%012d", i)), types.Encode(info)); err != nil {
			netFail(err)
		}
	}
	w := newNetWorld("srvlive", "", mock.GetClient(), cfg)
	w.mu.Lock()
	w.selfH = 20000 // the serving hosts (height -1) stay out of the extended table: the handlers use env.RoutingTable
	w.mu.Unlock()
	dir, err := os.Getenv("HC33_STORE_DIR"), error(nil)
	if dir == "" {
		dir, err = os.MkdirTemp("/var/tmp", "hC33store")
	}
	if err != nil {
		netFail(err)
	}
	env := w.env
	env.API = mock.GetAPI()
	env.SubConfig = &p2pty.P2PSubConfig{Channel: netChannel, Port: 13802}
	env.DB = dbm.NewDB("p2pstore", "leveldb", dir, 16)
	for _, h := range storeDB {
		if err := env.DB.Set([]byte(fmt.Sprintf("chunk-%012d", h)), types.Encode(&types.BlockBody{Height: h})); err != nil {
			netFail(err)
		}
	}
	base := w.node.(*recHost).Host
	rt, err := kbt.NewRoutingTable(20, kbt.ConvertPeerID(base.ID()), time.Minute, base.Peerstore(), time.Hour, nil)
	if err != nil {
		netFail(err)
	}
	for _, s := range w.servers {
		if _, err := rt.TryAddPeer(s.ID(), true, false); err != nil {
			netFail(err)
		}
	}
	env.RoutingTable, w.rt = rt, rt
	p2pstore.InitProtocol(env)
	time.Sleep(300 * time.Millisecond) // updateExtendRoutingTable of the start-up has asked the six hosts
	e := &stEnv{Tip: mock.GetBlockChain().GetBlockHeight(), Last: -1, Nrec: storeRecs, DB: storeDB, NPeers: rt.Size()}
	if seq, err := mock.GetAPI().GetLastBlockSequence(); err == nil {
		e.Last = seq.Data
	}
	w.tip = e.Tip
	return w, e, func() { _ = os.RemoveAll(dir) }
}

// rtBlocked: a writer on the routing table does not get the lock.
func (w *netWorld) rtBlocked() bool {
	done := make(chan struct{})
	go func() {
		w.rt.RemovePeer(peer.ID("hC33-no-such-peer"))
		close(done)
	}()
	select {
	case <-done:
		return false
	case <-time.After(700 * time.Millisecond):
		return true
	}
}

func (q stReq) p2pRequest() *types.P2PRequest {
	req := &types.P2PRequest{}
	switch q.Mem {
	case "blocks":
		req.Request = &types.P2PRequest_ReqBlocks{ReqBlocks: &types.ReqBlocks{Start: q.S, End: q.E}}
	case "records":
		req.Request = &types.P2PRequest_ReqChunkRecords{ReqChunkRecords: &types.ReqChunkRecords{Start: q.S, End: q.E}}
	case "chunk":
		req.Request = &types.P2PRequest_ChunkInfoMsg{ChunkInfoMsg: &types.ChunkInfoMsg{ChunkHash: []byte("hC33-chunk"), Start: q.S, End: q.E}}
	case "peers":
		rp := &types.ReqPeers{Count: q.Count}
		if q.Key {
			rp.ReferKey = []byte("hC33-refer-key")
		}
		req.Request = &types.P2PRequest_ReqPeers{ReqPeers: rp}
	case "pid":
		req.Request = &types.P2PRequest_Pid{Pid: "hC33-pid"}
	}
	if q.Hdrs {
		req.Headers = &types.P2PMessageHeaders{Version: "hC33", Timestamp: 1700000000, Id: 33}
		if q.Sig == "ok" || q.Sig == "bad" {
			sign, err := netKey('s', 0).Sign(types.Encode(req))
			if err != nil {
				panic(err)
			}
			if q.Sig == "bad" {
				sign[5] ^= 0x40
			}
			req.Headers.Sign = sign
		}
	}
	return req
}

func (q stReq) payload() []byte {
	if q.Q == "hdrold" {
		m := &types.MessageHeaderReq{}
		if !q.NoMsg {
			m.Message = &types.P2PGetHeaders{StartHeight: q.S, EndHeight: q.E}
		}
		return types.Encode(m)
	}
	return types.Encode(q.p2pRequest())
}

// unframeAll: header + frame, repeated
func (w *netWorld) unframeAll(data []byte) ([][]byte, bool) {
	var out [][]byte
	for len(data) > 0 {
		if len(data) < 21 || string(data[:17]) != string(w.hdr) {
			return nil, false
		}
		n := int(binary.BigEndian.Uint32(data[17:21]))
		if len(data) < 21+n {
			return nil, false
		}
		out = append(out, data[21:21+n])
		data = data[21+n:]
	}
	return out, true
}

func headerHeights(hs []*types.Header) []int64 {
	out := []int64{}
	for _, h := range hs {
		out = append(out, h.GetHeight())
	}
	return out
}

func (w *netWorld) storeDirect(q stReq) (stObs, error) {
	ty := int64(types.EventGetHeaders)
	if q.Q == "dirseq" {
		ty = types.EventGetBlockSequences
	}
	msg := w.cli.NewMessage("blockchain", ty, &types.ReqBlocks{Start: q.S, End: q.E})
	if err := w.cli.Send(msg, true); err != nil {
		return stObs{}, err
	}
	wait := 5 * time.Second
	if q.Wait > 0 {
		wait = time.Duration(q.Wait) * time.Second
	}
	reply, err := w.cli.WaitTimeout(msg, wait)
	if err != nil {
		if err == types.ErrTimeout || err.Error() == "ErrTimeout" {
			return stObs{C: "timeout"}, nil
		}
		return stObs{C: "err"}, nil
	}
	switch v := reply.Data.(type) {
	case *types.Headers:
		return stObs{C: "headers", Hs: headerHeights(v.GetItems())}, nil
	case *types.BlockSequences:
		o := stObs{C: "seqs"}
		for _, it := range v.GetItems() {
			if it == nil {
				o.N++
			} else {
				o.M++
			}
		}
		return o, nil
	}
	return stObs{C: "err"}, nil
}

func (w *netWorld) storeRequest(q stReq) (stObs, error) {
	if q.Q == "dirhdr" || q.Q == "dirseq" {
		return w.storeDirect(q)
	}
	proto := map[string]string{"hdrold": protoHdrOld, "hdr": protoHdr, "rec": protoRec, "chunk": protoChunk, "shard": protoShard, "full": protoFull}[q.Q]
	if proto == "" {
		return stObs{}, fmt.Errorf("request kind %q", q.Q)
	}
	class, data, err := w.exchange(proto, q.K, q.payload())
	if err != nil && strings.Contains(err.Error(), "deadline") {
		return stObs{C: "timeout"}, nil // the node neither answers nor closes the stream
	}
	if err != nil {
		return stObs{}, err
	}
	if class != "data" {
		return stObs{C: class}, nil
	}
	frames, ok := w.unframeAll(data)
	if !ok || len(frames) == 0 {
		return stObs{}, fmt.Errorf("unreadable reply (%d bytes)", len(data))
	}
	if q.Q == "hdrold" {
		var resp types.MessageHeaderResp
		if err := types.Decode(frames[0], &resp); err != nil {
			return stObs{}, err
		}
		return stObs{C: "headers", Hs: headerHeights(resp.GetMessage().GetHeaders())}, nil
	}
	bodies := int64(0)
	var last types.P2PResponse
	for i, f := range frames {
		var resp types.P2PResponse
		if err := types.Decode(f, &resp); err != nil {
			return stObs{}, err
		}
		if _, ok := resp.Response.(*types.P2PResponse_BlockBody); ok {
			bodies++
		} else if i != len(frames)-1 {
			return stObs{}, fmt.Errorf("frame %d of %d is not a body", i, len(frames))
		}
		if i == len(frames)-1 {
			last = types.P2PResponse{Error: resp.Error, CloserPeers: resp.CloserPeers, Response: resp.Response}
		}
	}
	if last.Error != "" {
		if bodies > 0 {
			return stObs{}, fmt.Errorf("bodies and an error")
		}
		return stObs{C: "err"}, nil
	}
	switch q.Q {
	case "chunk":
		if _, ok := last.Response.(*types.P2PResponse_BlockBody); ok {
			return stObs{}, fmt.Errorf("no closing response")
		}
		return stObs{C: "bodies", N: bodies}, nil
	case "shard":
		return stObs{C: "peers", N: int64(len(last.CloserPeers))}, nil
	}
	switch v := last.Response.(type) {
	case *types.P2PResponse_BlockHeaders:
		return stObs{C: "headers", Hs: headerHeights(v.BlockHeaders.GetItems())}, nil
	case *types.P2PResponse_ChunkRecords:
		return stObs{C: "records", N: int64(len(v.ChunkRecords.GetInfos()))}, nil
	case *types.P2PResponse_NodeInfo:
		return stObs{C: "node"}, nil
	}
	return stObs{}, fmt.Errorf("reply of an unknown kind")
}

// runStore: returns stuck = the routing table was found blocked (the world cannot be used any more).
func (w *netWorld) runStore(c *netCase, res *netResult, e *stEnv) (bool, error) {
	res.Env = e
	netSay("P", res)
	for i, q := range c.St {
		o, err := w.storeRequest(q)
		if err != nil {
			return false, fmt.Errorf("request %d: %v", i, err)
		}
		if q.Q == "shard" || q.Q == "chunk" {
			o.Stuck = w.rtBlocked()
		}
		res.St = append(res.St, o)
		netSay("P", res)
		if o.Stuck {
			return true, nil
		}
	}
	return false, nil
}
