package main

import (
	"fmt"
	"os"
	"strings"
	"sync"
	"time"

	log "github.com/33cn/chain33/common/log/log15"
	"verifharness/cmd/hC33/ltenv"
	"verifharness/hlib"
)

// ---------------------------------------------------------------- Coq rendering

func hexS(xs []int) string {
	b := make([]byte, len(xs))
	for i, x := range xs {
		if x < 0 || x >= 255 {
			x = 255
		}
		b[i] = byte(x)
	}
	return `"` + hlib.HexS(b) + `"`
}

func zlit(v int64) string {
	if v < 0 {
		return fmt.Sprintf("(%d)", v)
	}
	return fmt.Sprintf("%d", v)
}

func nlit(v int) string {
	if v < 0 {
		v = 255
	}
	return fmt.Sprintf("%d%%N", v)
}

func coqLt(s *ltSpec) string {
	if s.NilHdr {
		return hlib.App("L0", nlit(s.Miner), hexS(s.Sh))
	}
	return hlib.App("L", zlit(s.TxCount), zlit(s.Height), nlit(s.Hash), nlit(s.Rest), nlit(s.Miner), hexS(s.Sh))
}

func coqPool(p []poolEnt) string {
	var items []string
	for _, e := range p {
		tx := univ[e.Tx-1]
		items = append(items, hlib.App("X", nlit(e.Key), nlit(e.Tx), zlit(int64(tx.GroupCount)), hexS(hdrMembers(tx))))
	}
	return hlib.List(items)
}

func coqEvent(e evSpec) string {
	switch e.Op {
	case "recv":
		return hlib.App("R", zlit(e.T), nlit(e.From), nlit(e.Pub), coqLt(e.Lt))
	case "tick":
		return hlib.App("K", zlit(e.T))
	case "pool":
		return hlib.App("EPool", coqPool(e.Pool))
	case "height":
		return hlib.App("EHeight", zlit(e.Height))
	case "preq":
		return hlib.App("EPeerReq", nlit(e.From), hlib.Bool(e.Decodes), zlit(e.Height))
	case "presp":
		return hlib.App("EPeerResp", nlit(e.Pub), hlib.Bool(e.Decodes), hlib.Bool(e.HasMsg),
			hlib.App("BK", zlit(e.Blk.Height), nlit(e.Blk.Rest), nlit(e.Blk.Main), hexS(e.Blk.Txs)))
	case "pother":
		return "EPeerOther"
	case "reqtick":
		return "EReqTick"
	}
	panic("op " + e.Op)
}

func coqObs(o obsT) string {
	var posts, msgs []string
	for _, p := range o.Posts {
		posts = append(posts, hlib.App("B", nlit(p.Pub), zlit(p.Height), nlit(p.Rest), nlit(p.Main), hexS(p.Txs)))
	}
	for _, m := range o.Msgs {
		switch m.Kind {
		case "req":
			msgs = append(msgs, hlib.App("Req", nlit(m.Peer), zlit(m.Height)))
		case "resp":
			msgs = append(msgs, hlib.App("Resp", nlit(m.Peer), zlit(m.Height)))
		default:
			msgs = append(msgs, hlib.App("Req", nlit(254), zlit(-999))) // never produced by the model
		}
	}
	return hlib.App("O", hlib.Bool(o.Alive), hlib.List(posts), hlib.List(msgs), zlit(int64(o.Pend)), zlit(int64(o.Reqs)))
}

func coqCfg(c caseSpec) string {
	var nc []string
	for _, h := range c.NoChain {
		nc = append(nc, zlit(h))
	}
	return hlib.App("mkCfg", "2147483648", zlit(c.TimeoutMs), hlib.List(nc), hlib.Bool(c.NoVal))
}

func nontrivial(obs []obsT) bool {
	for _, o := range obs {
		if !o.Alive || len(o.Posts) > 0 || o.Pend > 0 || len(o.Msgs) > 0 {
			return true
		}
	}
	return false
}

func emitBulk(out *hlib.Out, c caseSpec, obs []obsT) {
	var steps []string
	for i, o := range obs {
		steps = append(steps, hlib.Pair(coqEvent(c.Events[i]), coqObs(o)))
	}
	out.Emit(c.Stream, nontrivial(obs), hlib.App("Case", coqCfg(c), coqPool(c.Pool0), hlib.List(steps)), c, obs)
}

func emitLive(out *hlib.Out, c caseSpec, res liveResult) {
	var evs []string
	for _, e := range c.Events {
		evs = append(evs, coqEvent(e))
	}
	crash := "None"
	final := obsT{Alive: true}
	for _, o := range res.Obs {
		final.Posts = append(final.Posts, o.Posts...)
		final.Msgs = append(final.Msgs, o.Msgs...)
		final.Pend, final.Reqs = o.Pend, o.Reqs
	}
	if !res.Done {
		crash = fmt.Sprintf("(Some %d%%nat)", len(res.Obs))
		final.Alive = false
	}
	kind := "live"
	out.Emit(kind, true, hlib.App("CaseLive", coqCfg(c), coqPool(c.Pool0), hlib.List(evs), crash, coqObs(final)), c, res)
}

// ---------------------------------------------------------------- main

func runBulk(c caseSpec) ([]obsT, error) {
	for attempt := 0; ; attempt++ {
		var obs []obsT
		err := runCase(c, func(i int, o obsT) { obs = append(obs, o) })
		if err == errSlip && attempt < 25 {
			continue
		}
		return obs, err
	}
}

func main() {
	opts := hlib.ParseFlags()
	log.Root().SetHandler(log.DiscardHandler())
	buildUniverse()
	if opts.Extra == "child" {
		env = ltenv.NewEnv(3)
		childMain()
		return
	}
	if opts.Extra == "netchild" {
		netChildMain()
		return
	}
	env = ltenv.NewEnv(3)
	clockBase = time.Now().UnixNano() - 250*int64(time.Second)
	out := hlib.NewOut(opts.OutDir)
	defer out.Close()

	if opts.Extra == "storeonly" { // development aid: the net-store stream alone
		cases := storeCases(hlib.NewRng(opts.Seed*92821+33).Fork(), opts.Seed, opts.Thorough())
		res, err := runNetBatch("store", "", cases)
		if err != nil {
			fmt.Println("stream batch failed:", err)
			os.Exit(2)
		}
		for i := range cases {
			emitNet(out, cases[i], res[i])
		}
		return
	}
	if opts.Replay != "" {
		var nc netCase
		if err := hlib.ReplayInput(opts.Replay, &nc); err == nil && nc.Net != "" {
			mode := "net"
			if nc.Net == "lim" || nc.Net == "srvlive" || nc.Net == "store" {
				mode = nc.Net
			}
			res, err := runNetBatch(mode, nc.Lim, []netCase{nc})
			if err != nil {
				fmt.Println("stream case failed:", err)
				os.Exit(2)
			}
			emitNet(out, nc, res[0])
			return
		}
		var c caseSpec
		if err := hlib.ReplayInput(opts.Replay, &c); err != nil {
			panic(err)
		}
		if c.Live {
			res, err := runLive(c)
			if err != nil {
				fmt.Println("live case failed:", err)
				os.Exit(2)
			}
			emitLive(out, c, res)
		} else {
			obs, err := runBulk(c)
			if err != nil {
				fmt.Println("case failed:", err)
				os.Exit(2)
			}
			emitBulk(out, c, obs)
		}
		return
	}

	// live cases run in child processes, 4 at a time, while the bulk cases run here
	lives := liveCases(opts.Seed)
	nLiveRandom := 6
	if opts.Thorough() {
		nLiveRandom = 40
	}
	for i := 0; i < nLiveRandom; i++ {
		lives = append(lives, genLiveCase(opts.Seed, i))
	}
	liveRes := make([]liveResult, len(lives))
	liveErr := make([]error, len(lives))
	var wg sync.WaitGroup
	sem := make(chan struct{}, 4)
	for i := range lives {
		wg.Add(1)
		go func(i int) {
			defer wg.Done()
			sem <- struct{}{}
			defer func() { <-sem }()
			liveRes[i], liveErr[i] = runLive(lives[i])
		}(i)
	}

	// stream streams: batches of cases in child processes, same limit of concurrent children
	njobs := netJobs(opts.Seed, opts.Thorough())
	for _, j := range njobs {
		wg.Add(1)
		go func(j *netJob) {
			defer wg.Done()
			sem <- struct{}{}
			defer func() { <-sem }()
			j.res, j.err = runNetBatch(j.mode, j.lim, j.cases)
		}(j)
	}

	nGuard, nFree, nMal := 200, 250, 150
	if opts.Thorough() {
		nGuard, nFree, nMal = 4000, 6000, 3000
	}
	run := func(stream string, n int) {
		for i := 0; i < n; i++ {
			c := genCase(stream, opts.Seed, i, opts.Thorough())
			obs, err := runBulk(c)
			if err != nil {
				fmt.Println("case failed:", stream, i, err)
				os.Exit(2)
			}
			emitBulk(out, c, obs)
		}
	}
	run("guarded", nGuard)
	run("unrestricted", nFree)
	run("malformed", nMal)
	wg.Wait()
	crashes := 0
	for i := range lives {
		if liveErr[i] != nil {
			fmt.Println("live case failed:", lives[i].Stream, liveErr[i])
			os.Exit(2)
		}
		if !liveRes[i].Done {
			crashes++
		}
		emitLive(out, lives[i], liveRes[i])
	}
	netDead := 0
	for _, j := range njobs {
		if j.err != nil {
			fmt.Println("stream batch failed:", j.mode, j.err)
			os.Exit(2)
		}
		for i := range j.cases {
			if j.res[i].Dead {
				netDead++
			}
			emitNet(out, j.cases[i], j.res[i])
		}
	}
	fmt.Printf("cases: %d (live %d, child crashes %d; stream cases with a dead child %d)\n", out.Count(), len(lives), crashes, netDead)
	_ = strings.TrimSpace
}
