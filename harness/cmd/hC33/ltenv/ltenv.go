// Package ltenv builds the real light-broadcast component
// (system/p2p/dht/protocol/broadcast, through the hook lt_verif.go) over a
// private queue with harness-side "mempool" and "blockchain" subscribers and a
// stub chain API, and collects what the component posts and publishes.
// Shared by hC33 and hC34.
package ltenv

import (
	"context"
	"crypto/rand"
	"errors"
	"fmt"
	"strings"
	"sync"
	"time"

	"github.com/33cn/chain33/client"
	"github.com/33cn/chain33/p2p"
	"github.com/33cn/chain33/queue"
	net "github.com/33cn/chain33/system/p2p/dht/extension"
	"github.com/33cn/chain33/system/p2p/dht/protocol"
	"github.com/33cn/chain33/system/p2p/dht/protocol/broadcast"
	p2pty "github.com/33cn/chain33/system/p2p/dht/types"
	"github.com/33cn/chain33/types"
	"github.com/libp2p/go-libp2p"
	"github.com/libp2p/go-libp2p/core/crypto"
	"github.com/libp2p/go-libp2p/core/host"
	"github.com/libp2p/go-libp2p/core/peer"
)

// Env is per process: chain configuration, one libp2p host (no listen
// addresses) with its pubsub (only used by pubPeerMsg to join peer topics).
type Env struct {
	Cfg   *types.Chain33Config
	Host  host.Host
	PS    *net.PubSub
	Peers []peer.ID // peers[0] is the local host
	ctx   context.Context
}

// NewEnv creates the process-wide parts.
func NewEnv(npeers int) *Env {
	e := &Env{ctx: context.Background()}
	e.Cfg = types.NewChain33Config(strings.Replace(types.GetDefaultCfgstring(), "[p2p]\n", "[p2p]\ntypes=[\"dht\"]\n", 1))
	priv, _, err := crypto.GenerateEd25519Key(rand.Reader)
	if err != nil {
		panic(err)
	}
	e.Host, err = libp2p.New(libp2p.NoListenAddrs, libp2p.Identity(priv))
	if err != nil {
		panic(err)
	}
	e.PS, err = net.NewPubSub(e.ctx, e.Host, &p2pty.PubSubConfig{})
	if err != nil {
		panic(err)
	}
	e.Peers = append(e.Peers, e.Host.ID())
	for i := 1; i < npeers; i++ {
		_, pub, err := crypto.GenerateEd25519Key(rand.Reader)
		if err != nil {
			panic(err)
		}
		id, err := peer.IDFromPublicKey(pub)
		if err != nil {
			panic(err)
		}
		e.Peers = append(e.Peers, id)
	}
	return e
}

// PeerIndex maps a peer id (or its Pretty form) back to its index, -1 if unknown.
func (e *Env) PeerIndex(s string) int {
	for i, p := range e.Peers {
		if p.Pretty() == s || p.String() == s || string(p) == s {
			return i
		}
	}
	return -1
}

// PoolFn answers EventTxListByHash.
type PoolFn func(req *types.ReqTxHashList) *types.ReplyTxList

type stubAPI struct {
	client.QueueProtocolAPI
	n *Node
}

func (a *stubAPI) GetBlocks(req *types.ReqBlocks) (*types.BlockDetails, error) {
	a.n.mu.Lock()
	bad := a.n.NoChain[req.Start]
	a.n.mu.Unlock()
	if bad {
		return nil, errors.New("no such block")
	}
	return &types.BlockDetails{Items: []*types.BlockDetail{{Block: &types.Block{Height: req.Start, TxHash: []byte("served")}}}}, nil
}

// RawPub is one non-peer message handed to the publisher (a block or light block being broadcast).
type RawPub struct {
	Topic string
	Msg   types.Message
}

// PubMsg is one peer message handed to the publisher.
type PubMsg struct {
	Topic  string
	MsgID  int32
	Height int64 // ReqInt.Height or Block.Height
	Other  bool  // not a PeerPubSubMsg
}

// Node is one component instance with its private queue.
type Node struct {
	V       *broadcast.LtVerif
	Env     *Env
	Q       queue.Queue
	NoChain map[int64]bool
	Queries int64    // number of mempool short-hash queries answered
	Raw     []RawPub // broadcasts seen by the last Drain

	mu      sync.Mutex
	pool    PoolFn
	cancel  context.CancelFunc
	bcCli   queue.Client
	mpCli   queue.Client
	sendCli queue.Client
	posts   []*types.BlockPid
	txs     []*types.Transaction
	bcSeen  chan int64
	pub     chan interface{}
	seq     int64
}

const sentinelTy = 987654

// NewNode builds a component. live = run the real background loops.
func (e *Env) NewNode(timeoutMs int64, live bool, pool PoolFn) *Node {
	n := &Node{Env: e, NoChain: map[int64]bool{}, pool: pool, bcSeen: make(chan int64, 64)}
	n.Q = queue.New("channel")
	n.Q.SetConfig(e.Cfg)
	mgr := p2p.NewP2PMgr(e.Cfg)
	mgr.Client = n.Q.Client()
	ctx, cancel := context.WithCancel(e.ctx)
	n.cancel = cancel
	env := &protocol.P2PEnv{
		Ctx:         ctx,
		ChainCfg:    e.Cfg,
		QueueClient: n.Q.Client(),
		Host:        e.Host,
		P2PManager:  mgr,
		SubConfig:   &p2pty.P2PSubConfig{},
		Pubsub:      e.PS,
		API:         &stubAPI{n: n},
	}
	n.bcCli = n.Q.Client()
	n.bcCli.Sub("blockchain")
	go func() {
		for {
			var msg *queue.Message
			select {
			case msg = <-n.bcCli.Recv():
			case <-ctx.Done():
				return
			}
			if msg.Ty == sentinelTy {
				n.bcSeen <- msg.Data.(int64)
				continue
			}
			if bp, ok := msg.Data.(*types.BlockPid); ok && msg.Ty == types.EventBroadcastAddBlock {
				n.mu.Lock()
				n.posts = append(n.posts, bp)
				n.mu.Unlock()
			}
		}
	}()
	n.mpCli = n.Q.Client()
	n.mpCli.Sub("mempool")
	go func() {
		for {
			var msg *queue.Message
			select {
			case msg = <-n.mpCli.Recv():
			case <-ctx.Done():
				return
			}
			switch msg.Ty {
			case types.EventTxListByHash:
				n.mu.Lock()
				f := n.pool
				n.mu.Unlock()
				rep := f(msg.Data.(*types.ReqTxHashList))
				n.mu.Lock()
				n.Queries++
				n.mu.Unlock()
				msg.Reply(n.mpCli.NewMessage("p2p", types.EventTxListByHash, rep))
			case types.EventTx:
				if tx, ok := msg.Data.(*types.Transaction); ok {
					n.mu.Lock()
					n.txs = append(n.txs, tx)
					n.mu.Unlock()
				}
			}
		}
	}()
	n.sendCli = n.Q.Client()
	n.V = broadcast.NewLtVerif(env, timeoutMs, live)
	n.pub = n.V.SubPublished()
	return n
}

// SetPool swaps the mempool answer function.
func (n *Node) SetPool(f PoolFn) {
	n.mu.Lock()
	n.pool = f
	n.mu.Unlock()
}

// QueryCount returns the number of mempool queries answered so far.
func (n *Node) QueryCount() int64 {
	n.mu.Lock()
	defer n.mu.Unlock()
	return n.Queries
}

type marker struct{ seq int64 }

// Drain returns everything posted to the blockchain module and everything
// handed to the publisher since the previous Drain (FIFO barriers on both paths).
func (n *Node) Drain() ([]*types.BlockPid, []PubMsg, error) {
	n.seq++
	seq := n.seq
	n.Raw = nil
	// barrier 1: queue topic "blockchain"
	if err := n.sendCli.Send(n.sendCli.NewMessage("blockchain", sentinelTy, seq), true); err != nil {
		return nil, nil, fmt.Errorf("sentinel send: %v", err)
	}
	deadline := time.After(20 * time.Second)
	for got := int64(0); got != seq; {
		select {
		case got = <-n.bcSeen:
		case <-deadline:
			return nil, nil, errors.New("blockchain barrier timeout")
		}
	}
	// barrier 2: internal pubsub
	n.V.SyncPublished(marker{seq})
	var msgs []PubMsg
	for done := false; !done; {
		select {
		case x := <-n.pub:
			if m, ok := x.(marker); ok {
				done = m.seq == seq
				continue
			}
			topic, msg, ok := broadcast.PublishedVerif(x)
			if !ok {
				msgs = append(msgs, PubMsg{Other: true})
				continue
			}
			pm, ok := msg.(*types.PeerPubSubMsg)
			if !ok {
				n.Raw = append(n.Raw, RawPub{Topic: topic, Msg: msg})
				continue
			}
			o := PubMsg{Topic: topic, MsgID: pm.MsgID}
			switch pm.MsgID {
			case broadcast.VerifBlockReqID:
				var r types.ReqInt
				if types.Decode(pm.ProtoMsg, &r) != nil {
					o.Other = true
				}
				o.Height = r.Height
			case broadcast.VerifBlockRespID:
				var b types.Block
				if types.Decode(pm.ProtoMsg, &b) != nil {
					o.Other = true
				}
				o.Height = b.Height
			}
			msgs = append(msgs, o)
		case <-deadline:
			return nil, nil, errors.New("publisher barrier timeout")
		}
	}
	n.mu.Lock()
	posts := n.posts
	n.posts = nil
	n.mu.Unlock()
	return posts, msgs, nil
}

// Close stops the loops and the queue.
func (n *Node) Close() {
	n.cancel()
	n.Q.Close()
}
