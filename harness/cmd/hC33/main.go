// hC33: feeds generated peer input (light blocks with inconsistent counts, nil
// parts, short hashes that resolve to transaction groups; block request /
// response peer messages) followed by mempool changes and ticks of the
// background loops to the real light-broadcast component of
// system/p2p/dht/protocol/broadcast and records, per event, whether the node
// survived and what it posted / published.
//
// Two ways of driving the component:
//   - "bulk": in this process, background loops driven one iteration at a time
//     through the hook (TickPendVerif / TickReqVerif = the loop bodies), virtual
//     clock via types.SetTimeDelta; a panic of a loop body is caught here;
//   - "live": one CHILD process per case with the real pendBlockLoop /
//     blockRequestLoop goroutines and real time, under RLIMIT_AS; the exit
//     status of the child is the observable.
//
// Hook file used: /repo/system/p2p/dht/protocol/broadcast/lt_verif.go (build tag verif).
package main

import (
	"fmt"

	"github.com/33cn/chain33/types"
	"verifharness/hlib"
)

// ---------------------------------------------------------------- case description (replayable)

type ltSpec struct {
	NilHdr  bool  `json:"nilhdr,omitempty"`
	TxCount int64 `json:"txcount"`
	Height  int64 `json:"height"`
	Hash    int   `json:"hash"`  // 0 = empty hash, k = 32 bytes of value k
	Rest    int   `json:"rest"`  // BlockTime = 1000 + rest
	Miner   int   `json:"miner"` // transaction id, 0 = nil
	Sh      []int `json:"sh"`    // short-hash keys
}

type poolEnt struct {
	Key int `json:"k"`
	Tx  int `json:"tx"`
}

type blkSpec struct {
	Height int64 `json:"height"`
	Rest   int   `json:"rest"`
	Main   int   `json:"main"`
	Txs    []int `json:"txs"`
}

type evSpec struct {
	Op      string    `json:"op"` // recv tick pool height preq presp pother reqtick
	T       int64     `json:"t,omitempty"`
	From    int       `json:"from,omitempty"`
	Pub     int       `json:"pub,omitempty"`
	Lt      *ltSpec   `json:"lt,omitempty"`
	Pool    []poolEnt `json:"pool,omitempty"`
	Height  int64     `json:"height,omitempty"`
	Decodes bool      `json:"decodes,omitempty"`
	HasMsg  bool      `json:"hasmsg,omitempty"`
	Blk     *blkSpec  `json:"blk,omitempty"`
}

type caseSpec struct {
	Stream    string    `json:"stream"`
	Seed      uint64    `json:"seed"`
	Index     int       `json:"index"`
	TimeoutMs int64     `json:"timeout_ms"`
	NoChain   []int64   `json:"nochain,omitempty"`
	Live      bool      `json:"live,omitempty"`
	NoVal     bool      `json:"noval,omitempty"` // disableValidation: the component has no validator
	Pool0     []poolEnt `json:"pool0,omitempty"`
	Events    []evSpec  `json:"events"`
}

// ---------------------------------------------------------------- transaction universe

const (
	nPlain   = 10
	idMiner  = 11
	idG1m    = 12 // members 12,13,14
	idG1     = 15 // carrier of the 3-member group
	idG2m    = 16 // members 16,17
	idG2     = 18 // carrier of the 2-member group
	idW3of2  = 19 // GroupCount 2, header decodes to 3 transactions
	idWgc1   = 20 // GroupCount 1 (no expansion)
	idWgc21  = 21 // GroupCount 21 (no expansion)
	idWbad   = 22 // GroupCount 3, header does not decode
	idWempty = 23 // GroupCount 2, empty header
	idWneg   = 24 // GroupCount -1
	idW20    = 25 // GroupCount 20, 20 members
	nUniv    = 25
	nKeys    = 8
)

var (
	univ   []*types.Transaction // index = id-1
	idOfTx = map[string]int{}
)

func plain(i int) *types.Transaction {
	return &types.Transaction{Execer: []byte("none"), Payload: []byte(fmt.Sprintf("c33-%d", i)), Fee: 1000, Nonce: int64(i), To: "1"}
}

func addTx(tx *types.Transaction) {
	univ = append(univ, tx)
	idOfTx[string(types.Encode(tx))] = len(univ)
}

func buildUniverse() {
	for i := 1; i <= nPlain; i++ {
		addTx(plain(i))
	}
	addTx(plain(100)) // miner
	g1, err := types.CreateTxGroup([]*types.Transaction{plain(201), plain(202), plain(203)}, 0)
	if err != nil {
		panic(err)
	}
	for _, m := range g1.Txs {
		addTx(m)
	}
	addTx(g1.Tx())
	g2, err := types.CreateTxGroup([]*types.Transaction{plain(301), plain(302)}, 0)
	if err != nil {
		panic(err)
	}
	for _, m := range g2.Txs {
		addTx(m)
	}
	addTx(g2.Tx())
	w := plain(401)
	w.GroupCount = 2
	w.Header = types.Encode(&types.Transactions{Txs: []*types.Transaction{univ[0], univ[1], univ[2]}})
	addTx(w)
	w = plain(402)
	w.GroupCount = 1
	w.Header = types.Encode(&types.Transactions{Txs: []*types.Transaction{univ[0], univ[1]}})
	addTx(w)
	w = plain(403)
	w.GroupCount = 21
	w.Header = types.Encode(&types.Transactions{Txs: []*types.Transaction{univ[0], univ[1]}})
	addTx(w)
	w = plain(404)
	w.GroupCount = 3
	w.Header = []byte{0xff, 0xff, 0xff, 0x01}
	addTx(w)
	w = plain(405)
	w.GroupCount = 2
	w.Header = nil
	addTx(w)
	w = plain(406)
	w.GroupCount = -1
	w.Header = types.Encode(&types.Transactions{Txs: []*types.Transaction{univ[0], univ[1]}})
	addTx(w)
	w = plain(407)
	w.GroupCount = 20
	var many []*types.Transaction
	for i := 0; i < 20; i++ {
		many = append(many, univ[i%nPlain])
	}
	w.Header = types.Encode(&types.Transactions{Txs: many})
	addTx(w)
	if len(univ) != nUniv {
		panic("universe size")
	}
}

func txID(tx *types.Transaction) int {
	if tx == nil {
		return 0
	}
	if id, ok := idOfTx[string(types.Encode(tx))]; ok {
		return id
	}
	return 255
}

// what the Header of a pool-level transaction decodes to (the DATA the model
// receives; whether it is used is the model's GetTxGroup logic)
func hdrMembers(tx *types.Transaction) []int {
	var txs types.Transactions
	if len(tx.Header) == 0 || types.Decode(tx.Header, &txs) != nil {
		return nil
	}
	var out []int
	for _, m := range txs.Txs {
		out = append(out, txID(m))
	}
	return out
}

func keyStr(k int) string { return fmt.Sprintf("%010x", k) }

func hashBytes(k int) []byte {
	if k == 0 {
		return nil
	}
	b := make([]byte, 32)
	for i := range b {
		b[i] = byte(k)
	}
	return b
}

func mainOf(k int) ([]byte, int64) {
	if k == 0 {
		return nil, 0
	}
	return []byte{byte(k)}, int64(k)
}

func buildLt(s *ltSpec) *types.LightBlock {
	lb := &types.LightBlock{}
	if !s.NilHdr {
		lb.Header = &types.Header{TxCount: s.TxCount, Height: s.Height, Hash: hashBytes(s.Hash), BlockTime: 1000 + int64(s.Rest)}
	}
	if s.Miner != 0 {
		lb.MinerTx = univ[s.Miner-1]
	}
	for _, k := range s.Sh {
		lb.STxHashes = append(lb.STxHashes, keyStr(k))
	}
	return lb
}

func buildBlk(s *blkSpec) *types.Block {
	b := &types.Block{Height: s.Height, BlockTime: 1000 + int64(s.Rest)}
	b.MainHash, b.MainHeight = mainOf(s.Main)
	for _, t := range s.Txs {
		b.Txs = append(b.Txs, univ[t-1])
	}
	return b
}

func poolFn(ents []poolEnt) func(req *types.ReqTxHashList) *types.ReplyTxList {
	m := map[string]*types.Transaction{}
	for _, e := range ents {
		if _, dup := m[keyStr(e.Key)]; !dup { // first match, as the model's association list
			m[keyStr(e.Key)] = univ[e.Tx-1]
		}
	}
	return func(req *types.ReqTxHashList) *types.ReplyTxList {
		rep := &types.ReplyTxList{}
		for _, h := range req.GetHashes() {
			rep.Txs = append(rep.Txs, m[h])
		}
		return rep
	}
}

// ---------------------------------------------------------------- generators

var bigCounts = []int64{-1 << 63, -1, 0, 1<<45 + 1, 1 << 62}

func genLt(r *hlib.Rng, malformed bool) *ltSpec {
	n := r.Range(1, 6)
	s := &ltSpec{TxCount: int64(n), Height: int64(r.Range(0, 5)), Hash: r.Range(1, 6), Rest: r.Range(1, 3), Miner: idMiner}
	for i := 0; i < n; i++ {
		s.Sh = append(s.Sh, r.Range(1, nKeys))
	}
	if r.Chance(1, 8) {
		s.Miner = 0
	}
	if !malformed {
		return s
	}
	switch r.Intn(8) {
	case 0:
		s.NilHdr = true
	case 1:
		s.TxCount = hlib.Pick(r, bigCounts)
	case 2:
		s.Sh = s.Sh[:r.Intn(len(s.Sh))] // fewer hashes than TxCount (possibly none)
	case 3:
		s.Sh = append(s.Sh, r.Range(1, nKeys), r.Range(1, nKeys))
	case 4:
		s.TxCount += int64(r.Range(1, 3))
	case 5:
		s.Hash = 0
	case 6:
		s.Sh = nil
	case 7:
		s.TxCount = 1
	}
	return s
}

// every pool-level transaction the stub may return
var poolTxAll = []int{1, 2, 3, 4, 5, 6, 7, 8, 9, 10, idMiner, idG1, idG2, idW3of2, idWgc1, idWgc21, idWbad, idWempty, idWneg, idW20, idG1m + 1}
var poolTxNoExpand = []int{1, 2, 3, 4, 5, 6, 7, 8, 9, 10, idMiner, idWgc1, idWgc21, idWbad, idWempty, idWneg, idG1m + 1}

func genPool(r *hlib.Rng, guarded bool) []poolEnt {
	var out []poolEnt
	for k := 1; k <= nKeys; k++ {
		if r.Chance(1, 2) {
			continue
		}
		cands := poolTxAll
		if guarded {
			cands = poolTxNoExpand
		}
		tx := hlib.Pick(r, cands)
		if !guarded && r.Chance(1, 3) {
			tx = hlib.Pick(r, []int{idG1, idG2, idW3of2})
		}
		out = append(out, poolEnt{Key: k, Tx: tx})
	}
	return out
}

func memLen(tx int) int {
	switch tx {
	case idG1, idW3of2:
		return 3
	case idG2:
		return 2
	case idW20:
		return 20
	}
	return 0
}

// fits: no group the pool returns for a short hash of the light block is longer than the
// slots that follow it (the guard of the former partial theorem; the "guarded" stream keeps
// generating such histories: more blocks complete there)
func fits(pool []poolEnt, lt *ltSpec) bool {
	if lt.NilHdr {
		return true
	}
	first := map[int]int{}
	for _, e := range pool {
		if _, ok := first[e.Key]; !ok {
			first[e.Key] = e.Tx
		}
	}
	for i, k := range lt.Sh {
		if tx, ok := first[k]; ok && int64(i+memLen(tx)) > lt.TxCount {
			return false
		}
	}
	return true
}

func stripExpanding(pool []poolEnt) []poolEnt {
	var out []poolEnt
	for _, e := range pool {
		if memLen(e.Tx) == 0 {
			out = append(out, e)
		}
	}
	return out
}

func genCase(stream string, seed uint64, index int, thorough bool) caseSpec {
	r := hlib.NewRng(seed*1000003 + uint64(index)*7919 + uint64(len(stream))*104729)
	guarded := stream == "guarded"
	c := caseSpec{Stream: stream, Seed: seed, Index: index}
	c.TimeoutMs = int64(r.Range(1, 5)) * 1000
	if r.Chance(1, 3) {
		c.NoChain = []int64{int64(r.Range(1, 4))}
	}
	c.Pool0 = genPool(r, false)
	c.NoVal = !guarded && r.Chance(1, 8)
	nev := r.Range(3, 14)
	if index < 30 {
		nev = r.Range(2, 5)
	}
	if thorough {
		nev = r.Range(3, 30)
	}
	var clock int64
	malformedRate := 3
	if stream == "malformed" {
		malformedRate = 1
	}
	for i := 0; i < nev; i++ {
		var e evSpec
		if r.Chance(1, 2) {
			clock += int64(r.Range(0, 3))
		}
		x := r.Intn(100)
		switch {
		case x < 30 || i == 0:
			e.Op = "recv"
			e.T = clock
			e.From, e.Pub = r.Intn(3), r.Intn(3)
			e.Lt = genLt(r, r.Chance(1, malformedRate))
		case x < 55:
			e.Op = "tick"
			if r.Chance(1, 10) && clock > 2 {
				e.T = clock - int64(r.Range(1, 2)) // the clock steps back
			} else {
				e.T = clock
			}
		case x < 72:
			e.Op = "pool"
			e.Pool = genPool(r, false)
		case x < 78:
			e.Op = "height"
			e.Height = int64(r.Range(0, 6))
		case x < 86:
			e.Op = "preq"
			e.From = r.Intn(3)
			e.Decodes = !r.Chance(1, 5)
			e.Height = int64(r.Range(-1, 6))
		case x < 92:
			e.Op = "presp"
			e.Pub = r.Intn(3)
			e.Decodes = !r.Chance(1, 4)
			e.HasMsg = !r.Chance(1, 4)
			e.Blk = &blkSpec{Height: int64(r.Range(0, 6)), Rest: r.Range(1, 3), Main: r.Intn(2) * r.Range(1, 3)}
			for k := r.Intn(4); k > 0; k-- {
				e.Blk.Txs = append(e.Blk.Txs, r.Range(1, nPlain))
			}
			if !e.HasMsg {
				e.Decodes = true // a nil ProtoMsg decodes (to the empty block)
			}
		case x < 95:
			e.Op = "pother"
		default:
			e.Op = "reqtick"
		}
		c.Events = append(c.Events, e)
	}
	if guarded {
		var lts []*ltSpec
		for _, e := range c.Events {
			if e.Lt != nil {
				lts = append(lts, e.Lt)
			}
		}
		ok := func(p []poolEnt) bool {
			for _, l := range lts {
				if !fits(p, l) {
					return false
				}
			}
			return true
		}
		if !ok(c.Pool0) {
			c.Pool0 = stripExpanding(c.Pool0)
		}
		for i := range c.Events {
			if c.Events[i].Op == "pool" && !ok(c.Events[i].Pool) {
				c.Events[i].Pool = stripExpanding(c.Events[i].Pool)
			}
		}
	}
	return c
}

const (
	never  = int64(3600000) // ms
	always = int64(1)
)

func lt3(hash int, sh []int) *ltSpec {
	return &ltSpec{TxCount: 3, Height: 5, Hash: hash, Rest: 1, Miner: idMiner, Sh: sh}
}

// hand-written live cases (real loops, child process)
func liveCases(seed uint64) []caseSpec {
	mk := func(name string, timeout int64, pool0 []poolEnt, evs ...evSpec) caseSpec {
		return caseSpec{Stream: "live-" + name, Seed: seed, TimeoutMs: timeout, Live: true, Pool0: pool0, Events: evs}
	}
	recv := func(lt *ltSpec) evSpec { return evSpec{Op: "recv", From: 1, Pub: 2, Lt: lt} }
	pool := func(p ...poolEnt) evSpec { return evSpec{Op: "pool", Pool: p} }
	tick := evSpec{Op: "tick", T: 1}
	p0 := []poolEnt{{Key: 2, Tx: 1}}
	var out []caseSpec
	// the history of C33_no_panic_example (it killed the pending loop before the fix): 3 slots,
	// the last one is later answered with a 2-member group; the block must stay pending
	out = append(out, mk("witness-group-overrun", never, p0,
		recv(lt3(1, []int{1, 2, 3})), tick, pool(poolEnt{2, 1}, poolEnt{3, idG2}), tick))
	// same block, the group fits (slots 1 and 2)
	out = append(out, mk("group-fits", never, nil,
		recv(lt3(1, []int{1, 2, 3})), tick, pool(poolEnt{2, idG2}), tick, tick))
	// missing transaction, timeout passes: request to the sender (height 5 > 0)
	out = append(out, mk("timeout-request", always, p0, recv(lt3(1, []int{1, 2, 3})), tick, tick))
	// the node is already at that height: no request
	out = append(out, mk("timeout-norequest", always, p0, evSpec{Op: "height", Height: 5}, recv(lt3(1, []int{1, 2, 3})), tick))
	// height comparisons of the loop body: below / equal / above the node's height
	for i, h := range []int64{4, 5, 6} {
		out = append(out, mk(fmt.Sprintf("timeout-height-%d", i), always, p0, evSpec{Op: "height", Height: h},
			recv(lt3(1, []int{1, 2, 3})), tick, evSpec{Op: "height", Height: 9}, recv(lt3(2, []int{1, 2, 4})), tick))
	}
	// arrives before the (never reached) timeout
	out = append(out, mk("arrives", never, p0, recv(lt3(2, []int{1, 2, 3})), tick, pool(poolEnt{2, 1}, poolEnt{3, 2}), tick))
	// TxCount = 2^40 (8 TiB of pointers), below the makeslice limit: a fatal out of memory before
	// the fix, dropped now because the count exceeds the three short hashes
	big := lt3(3, []int{1, 2, 3})
	big.TxCount = 1 << 40
	out = append(out, mk("oom-2^40", never, p0, recv(lt3(1, []int{1, 2, 3})), recv(big), tick))
	big2 := lt3(3, nil)
	big2.TxCount = 1 << 45
	out = append(out, mk("oom-2^45", never, p0, recv(big2), tick))
	// above the makeslice limit / negative / zero / nil header: dropped (recovered panics before the fix)
	for i, n := range []int64{1<<45 + 1, -1, 0, 1 << 62} {
		l := lt3(3, []int{1, 2, 3})
		l.TxCount = n
		out = append(out, mk(fmt.Sprintf("recovered-%d", i), never, p0, recv(l), recv(lt3(1, []int{1, 2, 3})), tick))
	}
	out = append(out, mk("nil-header", never, p0, recv(&ltSpec{NilHdr: true, Miner: idMiner, Sh: []int{1}}), recv(lt3(1, []int{1, 2, 3})), tick))
	// TxCount larger than the hash list: dropped at arrival, never pending
	l := lt3(4, []int{1, 2})
	l.TxCount = 4
	out = append(out, mk("count-exceeds-hashes", never, p0, recv(l), tick, pool(poolEnt{2, 1}), tick))
	// groups that do not fit (20 members; GroupCount-2 carrier with 3 members): not expanded, block stays pending
	out = append(out, mk("overrun-20", never, p0, recv(lt3(1, []int{1, 2, 3})), pool(poolEnt{2, idW20}), tick))
	out = append(out, mk("overrun-3of2", never, nil, recv(lt3(1, []int{1, 2, 3})), pool(poolEnt{2, idW3of2}), tick))
	// disableValidation: an honest block that is completed in the pending loop (this killed the
	// node before the fix: nil validator)
	nv := mk("novalidator-honest", never, nil, recv(lt3(1, []int{1, 2, 3})), tick, pool(poolEnt{2, 1}, poolEnt{3, 2}), tick)
	nv.NoVal = true
	out = append(out, nv)
	// ... and a block that is complete on arrival
	nv2 := mk("novalidator-arrival", never, []poolEnt{{2, 1}, {3, 2}}, recv(lt3(1, []int{1, 2, 3})), tick, recv(lt3(2, []int{1, 2, 4})), tick)
	nv2.NoVal = true
	out = append(out, nv2)
	// two pending blocks, the second one's group does not fit after the first was completed
	out = append(out, mk("two-pending", never, nil, recv(lt3(1, []int{1, 2, 3})), recv(lt3(2, []int{1, 4, 5})),
		pool(poolEnt{2, 1}, poolEnt{3, 2}, poolEnt{4, 3}, poolEnt{5, idG1}), tick))
	return out
}

// ---------------------------------------------------------------- observations

type postObs struct {
	Pub    int   `json:"pub"`
	Height int64 `json:"height"`
	Rest   int   `json:"rest"`
	Main   int   `json:"main"`
	Txs    []int `json:"txs"`
}

type msgObs struct {
	Kind   string `json:"kind"` // req resp other
	Peer   int    `json:"peer"`
	Height int64  `json:"height"`
}

type obsT struct {
	Alive bool      `json:"alive"`
	Posts []postObs `json:"posts,omitempty"`
	Msgs  []msgObs  `json:"msgs,omitempty"`
	Pend  int       `json:"pend"`
	Reqs  int       `json:"reqs"`
	Panic string    `json:"panic,omitempty"`
}

// random live case: never-timeout or always-timeout, no waiting block requests
func genLiveCase(seed uint64, index int) caseSpec {
	r := hlib.NewRng(seed*7777 + uint64(index)*131 + 5)
	c := caseSpec{Stream: "live-random", Seed: seed, Index: index, Live: true, TimeoutMs: never}
	if r.Chance(1, 3) {
		c.TimeoutMs = always
	}
	c.Pool0 = genPool(r, false)
	n := r.Range(2, 4)
	for i := 0; i < n; i++ {
		c.Events = append(c.Events, evSpec{Op: "recv", From: r.Intn(3), Pub: r.Intn(3), Lt: genLt(r, r.Chance(1, 4))})
		if r.Chance(1, 2) {
			c.Events = append(c.Events, evSpec{Op: "pool", Pool: genPool(r, r.Chance(1, 2))})
		}
		c.Events = append(c.Events, evSpec{Op: "tick", T: int64(i + 1)})
	}
	return c
}
