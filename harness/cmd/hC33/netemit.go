// netemit.go: parent side of the stream streams - runs batches of cases in
// child processes (a child that dies marks the case in progress as not
// survived; the rest of the batch goes to a fresh child) and renders the
// cases as Gallina terms.
package main

import (
	"bufio"
	"encoding/json"
	"errors"
	"fmt"
	"os"
	"os/exec"
	"sort"
	"strings"
	"time"

	log "github.com/33cn/chain33/common/log/log15"
	"github.com/33cn/chain33/common/utils"
	"github.com/33cn/chain33/types"
	ma "github.com/multiformats/go-multiaddr"
	"verifharness/hlib"
)

func discardLogs() { log.Root().SetHandler(log.DiscardHandler()) }

// runNetChild runs one child on the batch; results[i] is filled for every case that was at least
// started; returns the number of cases finished and whether the child died (crash of the node).
func runNetChild(b netBatch, results []netResult) (finished int, died bool, stderr string, err error) {
	in, _ := json.Marshal(b)
	cmd := exec.Command(os.Args[0], "--extra", "netchild")
	cmd.Stdin = strings.NewReader(string(in))
	if b.Mode == "store" {
		// the node's chunk store lives in a directory of the parent: removed whatever becomes of the child
		dir, derr := os.MkdirTemp("/var/tmp", "hC33store")
		if derr != nil {
			return 0, false, "", derr
		}
		defer os.RemoveAll(dir)
		cmd.Env = append(os.Environ(), "HC33_STORE_DIR="+dir)
	}
	var eb strings.Builder
	cmd.Stderr = &eb
	stdout, err := cmd.StdoutPipe()
	if err != nil {
		return 0, false, "", err
	}
	if err := cmd.Start(); err != nil {
		return 0, false, "", err
	}
	timer := time.AfterFunc(600*time.Second, func() { _ = cmd.Process.Kill() })
	defer timer.Stop()
	sc := bufio.NewScanner(stdout)
	sc.Buffer(make([]byte, 1<<22), 1<<22)
	ended := false
	for sc.Scan() {
		line := sc.Text()
		switch {
		case strings.HasPrefix(line, "@@END"):
			ended = true
		case strings.HasPrefix(line, "@@R "), strings.HasPrefix(line, "@@P "):
			var r netResult
			if e := json.Unmarshal([]byte(line[4:]), &r); e != nil {
				return finished, false, "", fmt.Errorf("child output: %v", e)
			}
			if r.I < 0 || r.I >= len(results) {
				return finished, false, "", errors.New("child output: index")
			}
			results[r.I] = r
			if r.Done {
				finished = r.I + 1
			}
		}
	}
	werr := cmd.Wait()
	code := 0
	if ee, ok := werr.(*exec.ExitError); ok {
		code = ee.ExitCode()
	} else if werr != nil {
		return finished, false, "", werr
	}
	var keep []string
	for _, l := range strings.Split(eb.String(), "\n") {
		if strings.HasPrefix(l, "panic:") || strings.HasPrefix(l, "fatal error:") || strings.Contains(l, "out of memory") || strings.HasPrefix(l, "child:") {
			keep = append(keep, l)
		}
		if len(keep) >= 3 {
			break
		}
	}
	stderr = strings.Join(keep, " | ")
	if code == 3 {
		return finished, false, stderr, fmt.Errorf("child harness error: %s", stderr)
	}
	if code == 4 {
		// the child left after a finished case because its world is unusable: not a crash
		return finished, false, stderr, nil
	}
	if code == 0 && !ended {
		return finished, false, stderr, errors.New("child ended without finishing its batch")
	}
	return finished, code != 0, stderr, nil
}

// runNetBatch: all cases of a batch, restarting after a crash.
func runNetBatch(mode, lim string, cases []netCase) ([]netResult, error) {
	out := make([]netResult, len(cases))
	pos := 0
	for restarts := 0; pos < len(cases); restarts++ {
		if restarts > 60 {
			return nil, errors.New("too many child crashes")
		}
		part := make([]netResult, len(cases)-pos)
		fin, died, stderr, err := runNetChild(netBatch{Mode: mode, Lim: lim, Cases: cases[pos:]}, part)
		if err != nil {
			return nil, err
		}
		for i := 0; i < fin; i++ {
			out[pos+i] = part[i]
		}
		pos += fin
		if died {
			r := part[fin] // partial observations of the case in progress (if any)
			r.Dead, r.Why, r.Done = true, stderr, false
			out[pos] = r
			pos++
		}
	}
	return out, nil
}

// ---------------------------------------------------------------- Coq rendering

func coqStr(s string) string {
	plain := true
	for i := 0; i < len(s); i++ {
		if s[i] < 32 || s[i] > 126 || s[i] == '"' {
			plain = false
		}
	}
	if s == "" {
		return "[]"
	}
	if plain {
		return `(bs "` + s + `")`
	}
	return hlib.Hx([]byte(s))
}

func coqDl(c netCase, r netResult) string {
	var tasks, script, dels, reqs []string
	for i, p := range c.Peers {
		tasks = append(tasks, fmt.Sprintf("T %d %s", p, zlit(c.Adv[i])))
	}
	for _, s := range c.Script {
		var ws []string
		for _, w := range s.W {
			ws = append(ws, w.coq())
		}
		script = append(script, fmt.Sprintf("SC %d %s %s", s.P, zlit(s.H), hlib.List(ws)))
	}
	for _, d := range r.Dels {
		p, id := d.P, d.ID
		if p < 0 {
			p = 99
		}
		if id < 0 {
			id = 999999
		}
		dels = append(dels, fmt.Sprintf("D %s %d %d", zlit(d.H), p, id))
	}
	for _, q := range r.Reqs {
		reqs = append(reqs, fmt.Sprintf("Q %d %s %d", q.P, zlit(q.H), q.C))
	}
	ack := 9
	switch r.Ack {
	case "ok":
		ack = 0
	case "start>end":
		ack = 1
	case "no pid":
		ack = 2
	}
	job := hlib.App("mkJob", zlit(c.Start), zlit(c.End), hlib.List(tasks), hlib.List(script))
	return hlib.App("CaseDl", job, fmt.Sprint(ack), hlib.Bool(!r.Dead), hlib.List(dels), hlib.List(reqs))
}

func mustFail(payload []byte, m types.Message) {
	if types.Decode(payload, m) == nil {
		panic("garbage frame decodes")
	}
}

func coqSreq(q sreqSpec) string {
	if q.Direct {
		return fmt.Sprintf("(SDirect %s %s)", zlit(q.S), zlit(q.E))
	}
	rd := ""
	switch q.K {
	case "empty", "shorthdr":
		rd = "RdErr"
	case "garbage":
		mustFail([]byte{0xff, 0xff, 0xff, 0x07, 0x01}, &types.MessageGetBlocksReq{})
		mustFail([]byte{0xff, 0xff, 0xff, 0x07, 0x01}, &types.ReqBlocks{})
		rd = "RdErr"
	case "badhdr":
		rd = "RdZero"
	default:
		if q.Old && q.NoMsg {
			rd = "(RdMsg None)"
		} else if q.Old {
			rd = fmt.Sprintf("(RdMsg (Some (%s, %s)))", zlit(q.S), zlit(q.E))
		} else {
			rd = fmt.Sprintf("(RdMsg (%s, %s))", zlit(q.S), zlit(q.E))
		}
	}
	if q.Old {
		return "(SOld " + rd + ")"
	}
	return "(SNew " + rd + ")"
}

func coqSrv(c netCase, r netResult) string {
	var steps []string
	for i, o := range r.Srv {
		fwd := "None"
		if o.Fwd != nil {
			fwd = fmt.Sprintf("(Some (%s, %s))", zlit(o.Fwd[0]), zlit(o.Fwd[1]))
		}
		so := "SEof"
		switch o.Class {
		case "blocks":
			var hs []string
			for _, h := range o.Hs {
				hs = append(hs, zlit(h))
			}
			so = "(SBlocks " + hlib.List(hs) + ")"
		case "reset":
			so = "SReset"
		}
		steps = append(steps, hlib.Pair(coqSreq(c.Reqs[i]), hlib.Pair(fwd, so)))
	}
	return hlib.App("CaseSrv", zlit(c.Tip), zlit(c.Mode), hlib.List(steps), hlib.Bool(!r.Dead))
}

func coqSrvLive(c netCase, r netResult) string {
	var reqs []string
	for _, q := range c.Reqs {
		reqs = append(reqs, coqSreq(q))
	}
	crash := "None"
	if r.Dead {
		crash = fmt.Sprintf("(Some %d%%nat)", len(r.Srv))
	}
	return hlib.App("CaseSrvLive", zlit(r.Tip), hlib.List(reqs), crash)
}

func coqVreq(q vreqSpec) string {
	rd := ""
	switch q.K {
	case "empty", "shorthdr":
		rd = "RdErr"
	case "garbage":
		mustFail([]byte{0xff, 0xff, 0xff, 0x07, 0x01}, &types.P2PVersion{})
		mustFail([]byte{0xff, 0xff, 0xff, 0x07, 0x01}, &types.MessageP2PVersionReq{})
		rd = "RdErr"
	case "badhdr":
		rd = "RdZero"
	default:
		v := hlib.App("V", zlit(int64(q.Ver)), coqStr(q.From), coqStr(q.Recv))
		if q.Old && q.NoMsg {
			rd = "(RdMsg None)"
		} else if q.Old {
			rd = "(RdMsg (Some " + v + "))"
		} else {
			rd = "(RdMsg " + v + ")"
		}
	}
	if q.Old {
		return "(VOld " + rd + ")"
	}
	return "(VNew " + rd + ")"
}

func coqVer(c netCase, r netResult) string {
	// library oracles on every string of the case
	pubs, maddrs := map[string]bool{}, map[string]bool{}
	canon := map[string]string{} // normalised multiaddr text -> text as sent
	for _, q := range c.Vreqs {
		for _, a := range []string{q.From, q.Recv} {
			for _, seg := range strings.Split(a, "/") {
				if utils.IsPublicIP(seg) {
					pubs[seg] = true
				}
			}
			if m, err := ma.NewMultiaddr(a); err == nil {
				maddrs[a] = true
				canon[m.String()] = a
			}
		}
	}
	keys := func(m map[string]bool) []string {
		var ks, out []string
		for k := range m {
			ks = append(ks, k)
		}
		sort.Strings(ks)
		for _, k := range ks {
			out = append(out, coqStr(k))
		}
		return out
	}
	var steps []string
	for i, o := range r.Ver {
		q := c.Vreqs[i]
		asSent := func(a string) string {
			// the address book holds the parsed form; show the text of this request when it parses to it
			for _, t := range []string{q.From, q.Recv} {
				if m, err := ma.NewMultiaddr(t); err == nil && m.String() == a {
					return t
				}
			}
			return a
		}
		var effs []string
		for _, e := range o.Effs {
			switch e.K {
			case "black":
				effs = append(effs, "EBlack")
			case "addremote":
				effs = append(effs, "EAddRemote "+coqStr(asSent(e.A)))
			case "addself":
				effs = append(effs, "EAddSelf (Some "+coqStr(asSent(e.A))+")")
			case "addself-nil":
				effs = append(effs, "EAddSelf None")
			default:
				effs = append(effs, "EAddRemote "+coqStr("?"+e.K))
			}
		}
		steps = append(steps, hlib.Pair(coqVreq(q), hlib.App("VO", fmt.Sprint(o.Class), coqStr(o.From), hlib.List(effs))))
	}
	_ = canon
	return hlib.App("CaseVer", fmt.Sprint(netChannel), hlib.List(keys(pubs)), hlib.List(keys(maddrs)), hlib.List(steps), hlib.Bool(!r.Dead))
}

func coqLim(c netCase, r netResult) string {
	var steps []string
	for i, o := range r.Lim {
		k, p := i/nServers, i%nServers
		s := c.Info[p][k]
		rd := "RdErr"
		switch s.K {
		case "badhdr":
			rd = "RdZero"
		case "msg":
			rd = "(RdMsg " + coqStr(s.Ver) + ")"
		}
		steps = append(steps, hlib.Pair(rd, fmt.Sprint(o)))
	}
	return hlib.App("CaseLim", coqStr(c.Lim), hlib.List(steps), hlib.Bool(!r.Dead))
}

func emitNet(out *hlib.Out, c netCase, r netResult) {
	var term string
	nontrivial := true
	switch c.Net {
	case "dl":
		term = coqDl(c, r)
		nontrivial = r.Dead || len(r.Reqs) > 0
	case "srv":
		term = coqSrv(c, r)
	case "srvlive":
		term = coqSrvLive(c, r)
	case "ver":
		term = coqVer(c, r)
	case "lim":
		term = coqLim(c, r)
	case "store":
		term = coqStore(c, r)
	}
	kind := "net-" + c.Net
	if c.Name == "nonneg" {
		kind += "-nonneg"
	}
	out.Emit(kind, nontrivial, term, c, r)
}

// ---------------------------------------------------------------- the streams

type netJob struct {
	mode  string
	lim   string
	cases []netCase
	res   []netResult
	err   error
}

func netJobs(seed uint64, thorough bool) []*netJob {
	nDl, nSrv, nSrvG, nVer, limRounds := 110, 60, 30, 50, 5
	lims := []string{"6.8.9"}
	if thorough {
		nDl, nSrv, nSrvG, nVer, limRounds = 2500, 1200, 600, 1000, 12
		lims = []string{"6.8.9", "", "7", "6.8.9.1", "x.8"}
	}
	r := hlib.NewRng(seed*92821 + 33)
	var dl, srv, ver []netCase
	dl = append(dl, fixedDl(seed)...)
	for i := 0; i < nDl; i++ {
		dl = append(dl, genDl(r.Fork(), seed, i, thorough))
	}
	for i := 0; i < nSrvG; i++ {
		srv = append(srv, genSrv(r.Fork(), seed, i, true))
	}
	for i := 0; i < nSrv; i++ {
		srv = append(srv, genSrv(r.Fork(), seed, i, false))
	}
	for i := 0; i < nVer; i++ {
		ver = append(ver, genVer(r.Fork(), seed, i))
	}
	// two children in the quick tier, eight in the thorough one
	parts := 2
	if thorough {
		parts = 8
	}
	all := append(append(append([]netCase(nil), dl...), srv...), ver...)
	jobs := []*netJob{{mode: "srvlive", cases: []netCase{liveSrv(seed)}}, {mode: "store", cases: storeCases(r.Fork(), seed, thorough)}}
	for k := 0; k < parts; k++ {
		j := &netJob{mode: "net"}
		for i := k; i < len(all); i += parts {
			j.cases = append(j.cases, all[i])
		}
		jobs = append(jobs, j)
	}
	for i, lim := range lims {
		jobs = append(jobs, &netJob{mode: "lim", lim: lim, cases: []netCase{genLim(r.Fork(), seed, i, lim, limRounds)}})
	}
	return jobs
}
