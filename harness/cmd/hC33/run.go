package main

import (
	"bufio"
	"encoding/json"
	"errors"
	"fmt"
	"os"
	"os/exec"
	"strings"
	"syscall"
	"time"

	"github.com/33cn/chain33/system/p2p/dht/protocol/broadcast"
	"github.com/33cn/chain33/types"
	"verifharness/cmd/hC33/ltenv"
)

var (
	env       *ltenv.Env
	clockBase int64 // virtual time 0 in unix ns
)

var errSlip = errors.New("virtual clock slipped")

func setClock(nominal int64) {
	types.SetTimeDelta(clockBase + nominal - time.Now().UnixNano())
}

func clockOK(nominal int64) bool {
	d := types.Now().UnixNano() - (clockBase + nominal)
	return d >= 0 && d < 400*int64(time.Millisecond)
}

func restOf(blockTime int64) int {
	if blockTime >= 1000 && blockTime < 1200 {
		return int(blockTime - 1000)
	}
	return 255
}

func mainID(b *types.Block) int {
	if len(b.MainHash) == 0 && b.MainHeight == 0 {
		return 0
	}
	if len(b.MainHash) == 1 && int64(b.MainHash[0]) == b.MainHeight && b.MainHeight > 0 && b.MainHeight < 250 {
		return int(b.MainHeight)
	}
	return 255
}

// every header field SetHeader copies except Height/BlockTime must be empty in this harness
func restID(b *types.Block) int {
	if b.Version != 0 || len(b.ParentHash) != 0 || len(b.TxHash) != 0 || len(b.StateHash) != 0 || b.Difficulty != 0 || b.Signature != nil {
		return 255
	}
	return restOf(b.BlockTime)
}

func observe(n *ltenv.Node, o *obsT) error {
	posts, msgs, err := n.Drain()
	if err != nil {
		return err
	}
	for _, bp := range posts {
		po := postObs{Pub: env.PeerIndex(bp.Pid), Height: bp.Block.GetHeight(), Rest: restID(bp.Block), Main: mainID(bp.Block)}
		for _, tx := range bp.Block.Txs {
			po.Txs = append(po.Txs, txID(tx))
		}
		o.Posts = append(o.Posts, po)
	}
	for _, m := range msgs {
		mo := msgObs{Kind: "other", Peer: env.PeerIndex(strings.TrimPrefix(m.Topic, "peermsg/")), Height: m.Height}
		if !m.Other && m.MsgID == broadcast.VerifBlockReqID {
			mo.Kind = "req"
		} else if !m.Other && m.MsgID == broadcast.VerifBlockRespID {
			mo.Kind = "resp"
		}
		o.Msgs = append(o.Msgs, mo)
	}
	o.Pend, o.Reqs = n.V.PendLen(), n.V.ReqLen()
	return nil
}

func protect(f func()) (alive bool, what string) {
	defer func() {
		if r := recover(); r != nil {
			alive, what = false, fmt.Sprint(r)
		}
	}()
	f()
	return true, ""
}

// recvGuard: in the bulk stream a panic that escapes handleBroadcastReceive (it has a
// deferred recover, so this only happens when that recover is gone) is an observation,
// not a harness crash; in a live child it kills the child like it would kill the node.
func recvGuard(live bool, o *obsT, f func()) {
	if live {
		f()
		return
	}
	o.Alive, o.Panic = protect(f)
}

// liveTick waits until the real pendBlockLoop has certainly completed one full scan
// that started after the call: every pending block costs one mempool query per scan,
// so two more scans' worth of queries (or an empty list) is the signal; then a short
// pause for the statements that follow buildPendList in the loop body.
func liveTick(n *ltenv.Node) {
	p := n.V.PendLen()
	if p == 0 {
		time.Sleep(60 * time.Millisecond)
		return
	}
	q0 := n.QueryCount()
	deadline := time.Now().Add(20 * time.Second)
	for n.QueryCount() < q0+2*int64(p) && n.V.PendLen() > 0 && time.Now().Before(deadline) {
		time.Sleep(20 * time.Millisecond)
	}
	time.Sleep(80 * time.Millisecond)
}

const liveWait = 450 * time.Millisecond // > 2 periods of the 200 ms tickers (block-request loop)

// runCase drives one component through the events; emit is called after each event.
func runCase(c caseSpec, emit func(i int, o obsT)) error {
	n := env.NewNode(c.TimeoutMs, c.Live, poolFn(c.Pool0))
	defer n.Close()
	if c.NoVal {
		n.V.SetNoValidatorVerif()
	}
	for _, h := range c.NoChain {
		n.NoChain[h] = true
	}
	peerTopic := n.V.PeerTopic(env.Peers[0])
	for i, e := range c.Events {
		o := obsT{Alive: true}
		nominal := int64(-1)
		switch e.Op {
		case "recv":
			if !c.Live {
				nominal = e.T * int64(time.Second)
				setClock(nominal)
			}
			recvGuard(c.Live, &o, func() {
				n.V.Receive(broadcast.VerifLtBlockTopic, buildLt(e.Lt), env.Peers[e.From], env.Peers[e.Pub])
			})
		case "tick":
			if c.Live {
				liveTick(n)
			} else {
				nominal = e.T*int64(time.Second) + int64(time.Second)/2
				setClock(nominal)
				o.Alive, o.Panic = protect(n.V.TickPendVerif)
			}
		case "reqtick":
			if c.Live {
				time.Sleep(liveWait)
			} else {
				o.Alive, o.Panic = protect(n.V.TickReqVerif)
			}
		case "pool":
			if c.Live {
				// report first: a crash right after the swap belongs to the next event (the tick)
				if err := observe(n, &o); err != nil {
					return err
				}
				emit(i, o)
				n.SetPool(poolFn(e.Pool))
				continue
			}
			n.SetPool(poolFn(e.Pool))
		case "height":
			n.V.AddBlockEvent(e.Height)
		case "preq":
			raw := types.Encode(&types.ReqInt{Height: e.Height})
			if !e.Decodes {
				raw = []byte{0xff, 0xff, 0xff}
			}
			recvGuard(c.Live, &o, func() {
				n.V.Receive(peerTopic, &types.PeerPubSubMsg{MsgID: broadcast.VerifBlockReqID, ProtoMsg: raw}, env.Peers[e.From], env.Peers[e.From])
			})
		case "presp":
			var raw []byte
			if e.HasMsg {
				raw = types.Encode(buildBlk(e.Blk))
				if len(raw) == 0 {
					raw = []byte{} // an empty but non-nil ProtoMsg
				}
				if !e.Decodes {
					raw = []byte{0xff, 0xff, 0xff}
				}
			}
			recvGuard(c.Live, &o, func() {
				n.V.Receive(peerTopic, &types.PeerPubSubMsg{MsgID: broadcast.VerifBlockRespID, ProtoMsg: raw}, env.Peers[e.Pub], env.Peers[e.Pub])
			})
		case "pother":
			recvGuard(c.Live, &o, func() {
				n.V.Receive(peerTopic, &types.PeerPubSubMsg{MsgID: 77, ProtoMsg: []byte("x")}, env.Peers[1], env.Peers[1])
			})
		default:
			return fmt.Errorf("unknown op %q", e.Op)
		}
		if nominal >= 0 && !clockOK(nominal) {
			return errSlip
		}
		if o.Alive {
			if err := observe(n, &o); err != nil {
				return err
			}
		}
		emit(i, o)
		if !o.Alive {
			break
		}
	}
	return nil
}

// ---------------------------------------------------------------- child process (live cases)

const rlimitAS = 16 << 30

func childMain() {
	_ = syscall.Setrlimit(syscall.RLIMIT_AS, &syscall.Rlimit{Cur: rlimitAS, Max: rlimitAS})
	var c caseSpec
	if err := json.NewDecoder(os.Stdin).Decode(&c); err != nil {
		fmt.Fprintln(os.Stderr, "child: bad spec:", err)
		os.Exit(3)
	}
	w := bufio.NewWriter(os.Stdout)
	err := runCase(c, func(i int, o obsT) {
		b, _ := json.Marshal(o)
		w.Write(b)
		w.WriteByte('\n')
		w.Flush()
	})
	if err != nil {
		fmt.Fprintln(os.Stderr, "child: harness error:", err)
		os.Exit(3)
	}
	w.WriteString("done\n")
	w.Flush()
	os.Exit(0)
}

type liveResult struct {
	Obs      []obsT `json:"obs"`
	Done     bool   `json:"done"`
	ExitCode int    `json:"exit"`
	Stderr   string `json:"stderr,omitempty"`
}

func runLive(c caseSpec) (liveResult, error) {
	var res liveResult
	in, _ := json.Marshal(c)
	cmd := exec.Command(os.Args[0], "--extra", "child")
	cmd.Stdin = strings.NewReader(string(in))
	var stderr strings.Builder
	cmd.Stderr = &stderr
	stdout, err := cmd.StdoutPipe()
	if err != nil {
		return res, err
	}
	if err := cmd.Start(); err != nil {
		return res, err
	}
	timer := time.AfterFunc(120*time.Second, func() { _ = cmd.Process.Kill() })
	defer timer.Stop()
	sc := bufio.NewScanner(stdout)
	sc.Buffer(make([]byte, 1<<20), 1<<20)
	for sc.Scan() {
		line := sc.Text()
		if line == "done" {
			res.Done = true
			continue
		}
		var o obsT
		if err := json.Unmarshal([]byte(line), &o); err != nil {
			return res, fmt.Errorf("child output: %v", err)
		}
		res.Obs = append(res.Obs, o)
	}
	werr := cmd.Wait()
	if ee, ok := werr.(*exec.ExitError); ok {
		res.ExitCode = ee.ExitCode()
	} else if werr != nil {
		return res, werr
	}
	// keep the first lines of the crash report
	lines := strings.Split(stderr.String(), "\n")
	var keep []string
	for _, l := range lines {
		if strings.HasPrefix(l, "panic:") || strings.HasPrefix(l, "fatal error:") || strings.Contains(l, "out of memory") || strings.HasPrefix(l, "child:") {
			keep = append(keep, l)
		}
		if len(keep) >= 3 {
			break
		}
	}
	res.Stderr = strings.Join(keep, " | ")
	if res.ExitCode == 3 {
		return res, fmt.Errorf("child harness error: %s", res.Stderr)
	}
	if !res.Done && res.ExitCode == 0 {
		return res, errors.New("child ended without crash and without done")
	}
	if res.Done && res.ExitCode != 0 {
		return res, errors.New("child reported done but exited non-zero")
	}
	return res, nil
}
