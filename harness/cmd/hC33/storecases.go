// storecases.go: generators of the net-store stream and the Gallina rendering
// of its cases.
package main

import (
	"fmt"
	"math"
	"strings"

	"github.com/33cn/chain33/types"
	"verifharness/hlib"
)

// ---------------------------------------------------------------- Coq rendering

func coqP2PReq(q stReq) string {
	switch q.K {
	case "empty", "shorthdr":
		return "RdErr"
	case "garbage":
		mustFail([]byte{0xff, 0xff, 0xff, 0x07, 0x01}, &types.P2PRequest{})
		mustFail([]byte{0xff, 0xff, 0xff, 0x07, 0x01}, &types.MessageHeaderReq{})
		return "RdErr"
	case "badhdr":
		return "RdZero"
	}
	// the structure the model gets is what the decoder makes of the frame
	var back types.P2PRequest
	if err := types.Decode(q.payload(), &back); err != nil {
		panic(err)
	}
	mem := "MNone"
	switch v := back.Request.(type) {
	case *types.P2PRequest_ReqBlocks:
		mem = fmt.Sprintf("(MReqBlocks %s %s)", zlit(v.ReqBlocks.Start), zlit(v.ReqBlocks.End))
	case *types.P2PRequest_ReqChunkRecords:
		mem = fmt.Sprintf("(MRecords %s %s)", zlit(v.ReqChunkRecords.Start), zlit(v.ReqChunkRecords.End))
	case *types.P2PRequest_ChunkInfoMsg:
		mem = fmt.Sprintf("(MChunk %s %s)", zlit(v.ChunkInfoMsg.Start), zlit(v.ChunkInfoMsg.End))
	case *types.P2PRequest_ReqPeers:
		mem = fmt.Sprintf("(MPeers %s %s)", hlib.Bool(v.ReqPeers.ReferKey != nil), zlit(int64(v.ReqPeers.Count)))
	case nil:
	default:
		mem = "MOther"
	}
	return hlib.App("PR", hlib.Bool(back.Headers != nil), hlib.Bool(back.Headers != nil && q.Sig == "ok"), mem)
}

func coqStReq(q stReq) string {
	switch q.Q {
	case "dirhdr":
		return fmt.Sprintf("(QDirHdr %s %s)", zlit(q.S), zlit(q.E))
	case "dirseq":
		return fmt.Sprintf("(QDirSeq %s %s)", zlit(q.S), zlit(q.E))
	case "full":
		return "QFull"
	case "hdrold":
		switch q.K {
		case "empty", "shorthdr", "garbage":
			return "(QHdrOld RdErr)"
		case "badhdr":
			return "(QHdrOld RdZero)"
		}
		if q.NoMsg {
			return "(QHdrOld (RdMsg None))"
		}
		return fmt.Sprintf("(QHdrOld (RdMsg (Some (%s, %s))))", zlit(q.S), zlit(q.E))
	}
	con := map[string]string{"hdr": "QHdr", "rec": "QRec", "chunk": "QChunk", "shard": "QShard"}[q.Q]
	return "(" + con + " " + coqP2PReq(q) + ")"
}

func coqStObs(o stObs) string {
	b := hlib.Bool(o.Stuck)
	switch o.C {
	case "reset":
		return hlib.Pair("OReset", b)
	case "eof", "timeout":
		return hlib.Pair("OEof", b)
	case "err":
		return hlib.App("OR", "RError", b)
	case "headers":
		var hs []string
		for _, h := range o.Hs {
			hs = append(hs, zlit(h))
		}
		return hlib.App("OR", "(RHeaders "+hlib.List(hs)+")", b)
	case "records":
		return hlib.App("OR", fmt.Sprintf("(RRecords %d)", o.N), b)
	case "bodies":
		return hlib.App("OR", fmt.Sprintf("(RBodies %d)", o.N), b)
	case "node":
		return hlib.App("OR", "RNode", b)
	case "peers":
		return hlib.App("OR", fmt.Sprintf("(RPeers %d)", o.N), b)
	case "seqs":
		return hlib.App("OR", fmt.Sprintf("(RSeqs %d %d)", o.N, o.M), b)
	}
	panic("observation " + o.C)
}

func coqStore(c netCase, r netResult) string {
	e := r.Env
	if e == nil {
		// the child died before it could report: the environment is the fixed one
		e = &stEnv{Tip: storeBlocks, Last: storeBlocks, Nrec: storeRecs, DB: storeDB, NPeers: nServers}
	}
	var db, reqs, obs []string
	for _, h := range e.DB {
		db = append(db, zlit(h))
	}
	for _, q := range c.St {
		reqs = append(reqs, coqStReq(q))
	}
	for _, o := range r.St {
		obs = append(obs, coqStObs(o))
	}
	crash := "None"
	if r.Dead {
		crash = fmt.Sprintf("(Some %d%%nat)", len(r.St))
	}
	env := hlib.App("SE", zlit(e.Tip), zlit(e.Last), zlit(e.Nrec), hlib.List(db), fmt.Sprint(e.NPeers))
	return hlib.App("CaseStore", env, hlib.List(reqs), hlib.List(obs), crash)
}

// ---------------------------------------------------------------- generators

func signed(q, mem string, s, e int64) stReq {
	return stReq{Q: q, K: "msg", Mem: mem, Hdrs: true, Sig: "ok", S: s, E: e}
}

func hdrOld(s, e int64) stReq { return stReq{Q: "hdrold", K: "msg", S: s, E: e} }

// the fixed histories: the witnesses of the repaired findings 5-7 (the node must survive them)
// between requests that are served
func fixedStore(seed uint64) []netCase {
	mk := func(name string, st ...stReq) netCase { return netCase{Net: "store", Name: name, Seed: seed, St: st} }
	shard := func(count int32, key bool) stReq {
		return stReq{Q: "shard", K: "msg", Mem: "peers", Count: count, Key: key}
	}
	return []netCase{
		mk("header-range-wraps",
			hdrOld(0, 0),
			stReq{Q: "hdrold", K: "msg", NoMsg: true},
			hdrOld(-1, math.MaxInt64),
			signed("hdr", "blocks", 0, 3),
			signed("hdr", "blocks", -(1<<62), 1<<62),
			hdrOld(0, 20000),
			hdrOld(-(1<<40), math.MaxInt64),
			signed("hdr", "blocks", -(1<<40), math.MaxInt64),
			stReq{Q: "dirhdr", S: -(1 << 40), E: math.MaxInt64},
			stReq{Q: "dirhdr", S: math.MinInt64, E: 0},
			stReq{Q: "dirhdr", S: 0, E: 9999},
			stReq{Q: "dirhdr", S: 0, E: 10000},
			hdrOld(1, 2)),
		mk("sequence-range-wraps",
			stReq{Q: "dirseq", S: 0, E: 0},
			stReq{Q: "dirseq", S: -5, E: 0},
			stReq{Q: "dirseq", S: 0, E: 999},
			stReq{Q: "dirseq", S: 0, E: 1000},
			stReq{Q: "dirseq", S: -(1 << 16), E: math.MaxInt64},
			stReq{Q: "dirseq", S: -(1 << 18), E: math.MaxInt64 - 5},
			stReq{Q: "dirseq", S: 1, E: 2}),
		mk("shard-peer-counts",
			shard(0, false), shard(3, false), shard(100, true),
			shard(-1, false), shard(-20, true), shard(3, false),
			shard(-21, false), shard(2, true),
			shard(math.MinInt32, true), shard(1, false),
			shard(math.MaxInt32, false), shard(math.MaxInt32-19, true), shard(1<<29, false), shard(6, false)),
		mk("handlers",
			stReq{Q: "full", K: "empty"}, stReq{Q: "full", K: "garbage"},
			signed("rec", "records", 0, 2), signed("rec", "records", 1, 3), signed("rec", "records", 2, 1),
			signed("rec", "records", -1, 1), signed("rec", "records", 0, math.MaxInt64), signed("rec", "blocks", 0, 1),
			signed("chunk", "chunk", 0, 4), signed("chunk", "chunk", 0, 5), signed("chunk", "chunk", 10, 12),
			signed("chunk", "chunk", 99, 100), signed("chunk", "chunk", 999999999999, 999999999999),
			signed("chunk", "chunk", 12, 99), signed("chunk", "chunk", -5, -6), signed("chunk", "chunk", math.MaxInt64, math.MaxInt64),
			signed("chunk", "chunk", math.MinInt64, math.MaxInt64), signed("chunk", "records", 0, 1),
			stReq{Q: "hdr", K: "msg", Mem: "blocks", S: 0, E: 1},
			stReq{Q: "hdr", K: "msg", Mem: "blocks", Hdrs: true, Sig: "bad", S: 0, E: 1},
			stReq{Q: "hdr", K: "msg", Mem: "blocks", Hdrs: true, S: 0, E: 1},
			stReq{Q: "hdr", K: "badhdr"}, stReq{Q: "chunk", K: "badhdr"}, stReq{Q: "shard", K: "badhdr"},
			signed("hdr", "none", 0, 0), signed("hdr", "pid", 0, 0), stReq{Q: "shard", K: "msg", Mem: "blocks"},
			signed("hdr", "blocks", 2, 9)),
	}
}

var storeEdges = []int64{math.MinInt64, math.MinInt64 + 1, -(1 << 62), -(1 << 40), -10001, -1001, -257, -2, -1, 0, 1, 2, 3, 4, 5, 12, 100,
	999, 1000, 1001, 9999, 10000, 10001, 999999999999, 1000000000000, 1 << 40, 1 << 62, math.MaxInt64 - 9999, math.MaxInt64 - 1, math.MaxInt64}

var countEdges = []int32{math.MinInt32, math.MinInt32 + 19, -1000, -21, -20, -19, -1, 0, 1, 2, 5, 6, 7, 20, 1000, 1 << 20, 1 << 29, math.MaxInt32 - 20,
	math.MaxInt32 - 19, math.MaxInt32}

func genStoreRange(r *hlib.Rng) (int64, int64) {
	switch r.Intn(7) {
	case 6: // Start <= End with an int64 difference that wraps
		return hlib.Pick(r, []int64{-1, -2, -257, -1001, -10001, -(1 << 17), -(1 << 40), -(1 << 62), math.MinInt64}), math.MaxInt64 - int64(r.Intn(3))
	case 0, 1: // ordinary
		s := int64(r.Range(0, 5))
		return s, s + int64(r.Range(-1, 4))
	case 2: // around a limit
		s := int64(r.Range(-2, 3))
		return s, s + hlib.Pick(r, []int64{998, 999, 1000, 9998, 9999, 10000})
	case 3:
		s := hlib.Pick(r, storeEdges)
		return s, s + int64(r.Range(-2, 12)) // may overflow: fine
	}
	return hlib.Pick(r, storeEdges), hlib.Pick(r, storeEdges)
}

func genStReq(r *hlib.Rng) stReq {
	q := stReq{Q: hlib.Pick(r, []string{"hdrold", "hdrold", "hdr", "hdr", "rec", "chunk", "chunk", "shard", "shard", "full", "dirhdr", "dirseq"}), K: "msg"}
	q.S, q.E = genStoreRange(r)
	switch q.Q {
	case "dirseq":
		// a start far below zero is served entry by entry (repaired: rejected); keep it payable either way
		if q.S < -(1<<18) && q.E-q.S < 0 {
			q.S = -int64(r.Range(1, 1<<16))
		}
		return q
	case "dirhdr":
		return q
	case "full":
		q.K = hlib.Pick(r, []string{"empty", "garbage", "msg", "badhdr"})
		q.Mem = "pid"
		return q
	case "hdrold":
		switch r.Intn(10) {
		case 0:
			q.K = hlib.Pick(r, []string{"empty", "shorthdr", "badhdr", "garbage"})
		case 1:
			q.NoMsg = true
		}
		return q
	}
	q.Mem = map[string]string{"hdr": "blocks", "rec": "records", "chunk": "chunk", "shard": "peers"}[q.Q]
	q.Hdrs, q.Sig = true, "ok"
	q.Count, q.Key = hlib.Pick(r, countEdges), r.Chance(1, 2)
	switch r.Intn(12) {
	case 0:
		q.K = hlib.Pick(r, []string{"empty", "shorthdr", "badhdr", "garbage"})
	case 1:
		q.Mem = hlib.Pick(r, []string{"blocks", "records", "chunk", "peers", "pid", "none"})
	case 2:
		q.Hdrs, q.Sig = false, ""
	case 3:
		q.Sig = hlib.Pick(r, []string{"bad", ""})
	}
	return q
}

func storeCases(r *hlib.Rng, seed uint64, thorough bool) []netCase {
	n := 24
	if thorough {
		n = 500
	}
	out := fixedStore(seed)
	for i := 0; i < n; i++ {
		c := netCase{Net: "store", Seed: seed, Index: i}
		rr := r.Fork()
		for k := rr.Range(3, 7); k > 0; k-- {
			c.St = append(c.St, genStReq(rr))
		}
		out = append(out, c)
	}
	return out
}

var _ = strings.TrimSpace
