package main

import (
	"errors"
	"fmt"
	"strings"
	"time"

	"github.com/33cn/chain33/queue"
	"github.com/33cn/chain33/system/mempool"
	"github.com/33cn/chain33/system/p2p/dht/protocol/broadcast"
	"github.com/33cn/chain33/types"
	"verifharness/cmd/hC33/ltenv"
	"verifharness/hlib"
)

var (
	env       *ltenv.Env
	clockBase int64
)

var errSlip = errors.New("virtual clock slipped")

func setClock(nominal int64) { types.SetTimeDelta(clockBase + nominal - time.Now().UnixNano()) }

func clockOK(nominal int64) bool {
	d := types.Now().UnixNano() - (clockBase + nominal)
	return d >= 0 && d < 400*int64(time.Millisecond)
}

// ---------------------------------------------------------------- materialised case

type unit struct {
	Pool    *types.Transaction   // what enters the mempool
	Members []*types.Transaction // what is in the block
}

type world struct {
	spec    caseSpec
	units   []unit
	blocks  []*types.Block
	txs     []*types.Transaction // id-1 -> transaction
	txID    map[string]int       // encoding -> id
	hashID  map[string]int       // tx hash -> id (from 1)
	shortID map[string]int       // short hash -> id (from 1)
	blkHash map[string]int       // block hash -> id (from 1)
	restID  map[string]int
	mainID  map[string]int
}

func (w *world) addTx(tx *types.Transaction) int {
	k := string(types.Encode(tx))
	if id, ok := w.txID[k]; ok {
		return id
	}
	w.txs = append(w.txs, tx)
	w.txID[k] = len(w.txs)
	h := tx.Hash()
	if _, ok := w.hashID[string(h)]; !ok {
		w.hashID[string(h)] = len(w.hashID) + 1
	}
	s := types.CalcTxShortHash(h)
	if _, ok := w.shortID[s]; !ok {
		w.shortID[s] = len(w.shortID) + 1
	}
	return len(w.txs)
}

func (w *world) idOf(tx *types.Transaction) int {
	if tx == nil {
		return 0
	}
	if id, ok := w.txID[string(types.Encode(tx))]; ok {
		return id
	}
	return 255
}

func restKey(b *types.Block) string {
	return string(types.Encode(&types.Header{Version: b.Version, ParentHash: b.ParentHash, TxHash: b.TxHash,
		StateHash: b.StateHash, BlockTime: b.BlockTime, Difficulty: b.Difficulty, Signature: b.Signature}))
}

func hdrRestKey(h *types.Header) string {
	return string(types.Encode(&types.Header{Version: h.Version, ParentHash: h.ParentHash, TxHash: h.TxHash,
		StateHash: h.StateHash, BlockTime: h.BlockTime, Difficulty: h.Difficulty, Signature: h.Signature}))
}

func mainKey(b *types.Block) string {
	if len(b.MainHash) == 0 && b.MainHeight == 0 {
		return ""
	}
	return fmt.Sprintf("%x/%d", b.MainHash, b.MainHeight)
}

func lookup(m map[string]int, k string) int {
	if id, ok := m[k]; ok {
		return id
	}
	return 255
}

func build(c caseSpec) *world {
	w := &world{spec: c, txID: map[string]int{}, hashID: map[string]int{}, shortID: map[string]int{},
		blkHash: map[string]int{}, restID: map[string]int{}, mainID: map[string]int{"": 0}}
	for _, us := range c.Units {
		var u unit
		switch us.Kind {
		case "plain":
			tx := plainTx(us.Payload)
			u.Pool, u.Members = tx, []*types.Transaction{tx}
		case "collideA", "collideB":
			k := 0
			if us.Kind == "collideB" {
				k = 1
			}
			tx := types.CloneTx(collide[us.Pair][k])
			u.Pool, u.Members = tx, []*types.Transaction{tx}
		case "group":
			var ms []*types.Transaction
			for m := 0; m < us.Members; m++ {
				ms = append(ms, plainTx(us.Payload+uint64(m)+1))
			}
			g, err := types.CreateTxGroup(ms, 0)
			if err != nil {
				panic(err)
			}
			u.Pool, u.Members = g.Tx(), g.Txs
		default:
			panic("unit kind " + us.Kind)
		}
		w.units = append(w.units, u)
	}
	for _, u := range w.units {
		for _, m := range u.Members {
			w.addTx(m)
		}
	}
	for _, u := range w.units {
		w.addTx(u.Pool)
	}
	for k, bs := range c.Blocks {
		miner := &types.Transaction{Execer: []byte("none"), Payload: append([]byte(fmt.Sprintf("miner-%d-", k)), make([]byte, bs.Pad)...), Nonce: int64(k), To: "1"}
		w.addTx(miner)
		b := &types.Block{Height: bs.Height, BlockTime: 1000 + int64(bs.Rest), ParentHash: []byte{byte(bs.Rest)},
			TxHash: []byte("txhash"), StateHash: []byte("state"), Difficulty: 7, Version: 1,
			Signature: &types.Signature{Ty: 1, Pubkey: []byte("pk"), Signature: []byte{byte(k)}}}
		if bs.Main != 0 {
			b.MainHash, b.MainHeight = []byte{byte(bs.Main)}, int64(bs.Main)*10
		}
		b.Txs = append(b.Txs, miner)
		for _, ui := range bs.Units {
			b.Txs = append(b.Txs, w.units[ui].Members...)
		}
		w.blocks = append(w.blocks, b)
		h := string(b.Hash(env.Cfg))
		if _, ok := w.blkHash[h]; !ok {
			w.blkHash[h] = len(w.blkHash) + 1
		}
		if _, ok := w.restID[restKey(b)]; !ok {
			w.restID[restKey(b)] = len(w.restID) + 1
		}
		if _, ok := w.mainID[mainKey(b)]; !ok {
			w.mainID[mainKey(b)] = len(w.mainID)
		}
	}
	if len(w.txs) > 250 {
		panic("too many transactions for the wire format")
	}
	return w
}

// ---------------------------------------------------------------- observations

type postObs struct {
	Pub    int   `json:"pub"`
	Height int64 `json:"height"`
	Rest   int   `json:"rest"`
	Main   int   `json:"main"`
	Txs    []int `json:"txs"`
}

type msgObs struct {
	Kind   string `json:"kind"`
	Peer   int    `json:"peer"`
	Height int64  `json:"height"`
}

type ltObs struct {
	NilHdr  bool  `json:"nilhdr,omitempty"`
	TxCount int64 `json:"txcount"`
	Height  int64 `json:"height"`
	Hash    int   `json:"hash"`
	Rest    int   `json:"rest"`
	Miner   int   `json:"miner"`
	Sh      []int `json:"sh"`
}

type obsT struct {
	Alive  bool      `json:"alive"`
	Sent   string    `json:"sent"` // lt full none na
	Lt     *ltObs    `json:"lt,omitempty"`
	Posts  []postObs `json:"posts,omitempty"`
	Msgs   []msgObs  `json:"msgs,omitempty"`
	Pend   int       `json:"pend"`
	Pushed bool      `json:"pushed"`
	Panic  string    `json:"panic,omitempty"`
}

func (w *world) observe(n *ltenv.Node, o *obsT) error {
	posts, msgs, err := n.Drain()
	if err != nil {
		return err
	}
	for _, bp := range posts {
		po := postObs{Pub: env.PeerIndex(bp.Pid), Height: bp.Block.GetHeight(), Rest: lookup(w.restID, restKey(bp.Block)),
			Main: lookup(w.mainID, mainKey(bp.Block))}
		for _, tx := range bp.Block.Txs {
			po.Txs = append(po.Txs, w.idOf(tx))
		}
		o.Posts = append(o.Posts, po)
	}
	for _, m := range msgs {
		mo := msgObs{Kind: "other", Peer: env.PeerIndex(strings.TrimPrefix(m.Topic, "peermsg/")), Height: m.Height}
		if !m.Other && m.MsgID == broadcast.VerifBlockReqID {
			mo.Kind = "req"
		} else if !m.Other && m.MsgID == broadcast.VerifBlockRespID {
			mo.Kind = "resp"
		}
		o.Msgs = append(o.Msgs, mo)
	}
	o.Pend = n.V.PendLen()
	return nil
}

func protect(f func()) (alive bool, what string) {
	defer func() {
		if r := recover(); r != nil {
			alive, what = false, fmt.Sprint(r)
		}
	}()
	f()
	return true, ""
}

// runCase: one sender, one receiver with a real mempool
func runCase(w *world) ([]obsT, error) {
	c := w.spec
	snd := env.NewNode(c.TimeoutMs, false, func(*types.ReqTxHashList) *types.ReplyTxList { return &types.ReplyTxList{} })
	defer snd.Close()
	snd.V.SetMinLtBlockSize(c.MinSize)
	snd.V.SetDisableLtBlock(c.Disabled)

	mq := queue.New("channel")
	mq.SetConfig(env.Cfg)
	defer mq.Close()
	mem := mempool.NewMempool(&types.Mempool{PoolCacheSize: 10240, MaxTxNumPerAccount: 100000, MaxTxLast: 10, MinTxFeeRate: 0})
	mem.SetQueueCache(mempool.NewSimpleQueue(mempool.SubConfig{PoolCacheSize: 10240}))
	if err := mem.VerifSetClient(mq.Client()); err != nil {
		return nil, err
	}
	defer func() {
		mem.VerifSetClientNil()
		mem.Close()
	}()
	rcv := env.NewNode(c.TimeoutMs, false, func(req *types.ReqTxHashList) *types.ReplyTxList { return mem.VerifTxListByHash(req) })
	defer rcv.Close()

	var out []obsT
	for _, e := range c.Events {
		o := obsT{Alive: true, Sent: "na", Pushed: true}
		nominal := int64(-1)
		switch e.Op {
		case "send":
			nominal = e.T * int64(time.Second)
			setClock(nominal)
			blk := types.Clone(w.blocks[e.Block]).(*types.Block)
			snd.V.Send(&queue.Message{Ty: types.EventBlockBroadcast, Data: blk})
			if _, _, err := snd.Drain(); err != nil {
				return nil, err
			}
			switch len(snd.Raw) {
			case 0:
				o.Sent = "none"
			case 1:
				raw := snd.Raw[0]
				wire := types.Encode(raw.Msg)
				switch raw.Topic {
				case broadcast.VerifLtBlockTopic:
					o.Sent = "lt"
					lb := &types.LightBlock{}
					if err := types.Decode(wire, lb); err != nil {
						return nil, err
					}
					o.Lt = w.ltObs(lb)
					o.Alive, o.Panic = protect(func() { rcv.V.Receive(raw.Topic, lb, env.Peers[e.From], env.Peers[e.Pub]) })
				case broadcast.VerifBlockTopic:
					o.Sent = "full"
					b := &types.Block{}
					if err := types.Decode(wire, b); err != nil {
						return nil, err
					}
					o.Alive, o.Panic = protect(func() { rcv.V.Receive(raw.Topic, b, env.Peers[e.From], env.Peers[e.Pub]) })
				default:
					return nil, fmt.Errorf("unexpected topic %q", raw.Topic)
				}
			default:
				return nil, fmt.Errorf("sender published %d messages", len(snd.Raw))
			}
		case "arrive":
			o.Pushed = mem.PushTx(types.CloneTx(w.units[e.Unit].Pool)) == nil
		case "remove":
			_ = mem.RemoveTxs(&types.TxHashList{Hashes: [][]byte{w.units[e.Unit].Pool.Hash()}})
		case "tick":
			nominal = e.T*int64(time.Second) + int64(time.Second)/2
			setClock(nominal)
			o.Alive, o.Panic = protect(rcv.V.TickPendVerif)
		case "height":
			rcv.V.AddBlockEvent(e.Height)
		default:
			return nil, fmt.Errorf("unknown op %q", e.Op)
		}
		if nominal >= 0 && !clockOK(nominal) {
			return nil, errSlip
		}
		if o.Alive {
			if err := w.observe(rcv, &o); err != nil {
				return nil, err
			}
		}
		out = append(out, o)
		if !o.Alive {
			break
		}
	}
	return out, nil
}

func (w *world) ltObs(lb *types.LightBlock) *ltObs {
	if lb.Header == nil {
		return &ltObs{NilHdr: true}
	}
	h := lb.Header
	o := &ltObs{TxCount: h.TxCount, Height: h.Height, Hash: lookup(w.blkHash, string(h.Hash)), Rest: lookup(w.restID, hdrRestKey(h)),
		Miner: w.idOf(lb.MinerTx)}
	for _, s := range lb.STxHashes {
		o.Sh = append(o.Sh, lookup(w.shortID, s))
	}
	return o
}

var _ = hlib.HexS
