package main

import (
	"fmt"
	"os"
	"time"

	log "github.com/33cn/chain33/common/log/log15"
	"github.com/33cn/chain33/types"
	"verifharness/cmd/hC33/ltenv"
	"verifharness/hlib"
)

func hexS(xs []int) string {
	b := make([]byte, len(xs))
	for i, x := range xs {
		if x < 0 || x >= 255 {
			x = 255
		}
		b[i] = byte(x)
	}
	return `"` + hlib.HexS(b) + `"`
}

func zlit(v int64) string {
	if v < 0 {
		return fmt.Sprintf("(%d)", v)
	}
	return fmt.Sprintf("%d", v)
}

func nlit(v int) string {
	if v < 0 {
		v = 255
	}
	return fmt.Sprintf("%d%%N", v)
}

func (w *world) coqPtx(tx *types.Transaction) string {
	var hdr []int
	var txs types.Transactions
	if len(tx.Header) > 0 && types.Decode(tx.Header, &txs) == nil {
		for _, m := range txs.Txs {
			hdr = append(hdr, w.idOf(m))
		}
	}
	return hlib.App("PT", nlit(w.idOf(tx)), zlit(int64(tx.GroupCount)), hexS(hdr))
}

func (w *world) coqBlock(k int) string {
	b := w.blocks[k]
	var ids []int
	for _, tx := range b.Txs {
		ids = append(ids, w.idOf(tx))
	}
	return hlib.App("OB", zlit(b.Height), nlit(w.restID[restKey(b)]), nlit(w.mainID[mainKey(b)]),
		nlit(w.blkHash[string(b.Hash(env.Cfg))]), zlit(int64(b.Size())), hexS(ids))
}

func (w *world) coqEvent(e evSpec) string {
	switch e.Op {
	case "send":
		return hlib.App("SD", zlit(e.T), nlit(e.From), nlit(e.Pub), w.coqBlock(e.Block))
	case "arrive":
		return hlib.App("XArrive", w.coqPtx(w.units[e.Unit].Pool))
	case "remove":
		return hlib.App("XRemove", nlit(w.hashID[string(w.units[e.Unit].Pool.Hash())]))
	case "tick":
		return hlib.App("TK", zlit(e.T))
	case "height":
		return hlib.App("XHeight", zlit(e.Height))
	}
	panic("op " + e.Op)
}

func coqObs(o obsT) string {
	kind := "KNA"
	switch o.Sent {
	case "lt":
		if o.Lt.NilHdr {
			kind = hlib.App("KLt", hlib.App("L0", nlit(0), `""`))
		} else {
			kind = hlib.App("KLt", hlib.App("L", zlit(o.Lt.TxCount), zlit(o.Lt.Height), nlit(o.Lt.Hash), nlit(o.Lt.Rest), nlit(o.Lt.Miner), hexS(o.Lt.Sh)))
		}
	case "full":
		kind = "KFull"
	case "none":
		kind = "KNone"
	}
	var posts, msgs []string
	for _, p := range o.Posts {
		posts = append(posts, hlib.App("B", nlit(p.Pub), zlit(p.Height), nlit(p.Rest), nlit(p.Main), hexS(p.Txs)))
	}
	for _, m := range o.Msgs {
		switch m.Kind {
		case "req":
			msgs = append(msgs, hlib.App("Req", nlit(m.Peer), zlit(m.Height)))
		case "resp":
			msgs = append(msgs, hlib.App("Resp", nlit(m.Peer), zlit(m.Height)))
		default:
			msgs = append(msgs, hlib.App("Req", nlit(254), zlit(-999)))
		}
	}
	return hlib.App("OA", hlib.Bool(o.Alive), kind, hlib.List(posts), hlib.List(msgs), zlit(int64(o.Pend)), hlib.Bool(o.Pushed))
}

func (w *world) coqCfg() string {
	hs := make([]int, len(w.txs)+1)
	for i, tx := range w.txs {
		hs[i+1] = w.hashID[string(tx.Hash())]
	}
	sh := make([]int, len(w.hashID)+1)
	for h, id := range w.hashID {
		sh[id] = w.shortID[types.CalcTxShortHash([]byte(h))]
	}
	return hlib.App("XC", hexS(hs), hexS(sh), zlit(w.spec.TimeoutMs), "10240", hlib.Bool(w.spec.Disabled), zlit(int64(w.spec.MinSize)))
}

func injective(w *world) bool { return len(w.shortID) == len(w.hashID) }

func runAndEmit(out *hlib.Out, c caseSpec) error {
	w := build(c)
	if c.Stream != "collide" && !injective(w) {
		return fmt.Errorf("accidental short-hash collision in stream %s", c.Stream)
	}
	var obs []obsT
	var err error
	for attempt := 0; ; attempt++ {
		obs, err = runCase(w)
		if err == errSlip && attempt < 5 {
			continue
		}
		break
	}
	if err != nil {
		return err
	}
	var steps []string
	nontrivial := false
	for i, o := range obs {
		steps = append(steps, hlib.Pair(w.coqEvent(c.Events[i]), coqObs(o)))
		if len(o.Posts) > 0 || len(o.Msgs) > 0 || o.Pend > 0 || !o.Alive {
			nontrivial = true
		}
	}
	out.Emit(c.Stream, nontrivial, hlib.App("CaseA", w.coqCfg(), hlib.List(steps)), c, obs)
	return nil
}

func needCollisions(c caseSpec) bool {
	for _, u := range c.Units {
		if u.Kind == "collideA" || u.Kind == "collideB" {
			return true
		}
	}
	return false
}

func main() {
	opts := hlib.ParseFlags()
	log.Root().SetHandler(log.DiscardHandler())
	env = ltenv.NewEnv(3)
	clockBase = time.Now().UnixNano() - 250*int64(time.Second)
	out := hlib.NewOut(opts.OutDir)
	defer out.Close()

	if opts.Replay != "" {
		var c caseSpec
		if err := hlib.ReplayInput(opts.Replay, &c); err != nil {
			panic(err)
		}
		if needCollisions(c) {
			collide = findCollisions(3000000)
		}
		if err := runAndEmit(out, c); err != nil {
			fmt.Println("case failed:", err)
			os.Exit(2)
		}
		return
	}

	t0 := time.Now()
	collide = findCollisions(3000000)
	fmt.Printf("short-hash collisions found: %d pairs in %.1fs\n", len(collide), time.Since(t0).Seconds())
	if len(collide) == 0 {
		fmt.Println("no 40-bit collision found")
		os.Exit(2)
	}
	nGuard, nPara, nColl := 400, 60, 60
	if opts.Thorough() {
		nGuard, nPara, nColl = 8000, 1000, 1500
	}
	run := func(stream string, n int) {
		for i := 0; i < n; i++ {
			if err := runAndEmit(out, genCase(stream, opts.Seed, i, opts.Thorough())); err != nil {
				fmt.Println("case failed:", stream, i, err)
				os.Exit(2)
			}
		}
	}
	run("guarded", nGuard)
	run("para", nPara)
	run("collide", nColl)
	fmt.Printf("cases: %d\n", out.Count())
}
