// hC34: a sending node (real handleBroadcastSend / buildLtBlock) and a
// receiving node (real handleBroadcastReceive / addLtBlock / buildPendBlock /
// buildPendList, pending loop driven one iteration at a time through the hook)
// whose mempool is the real system/mempool bookkeeping (short-hash index
// included).  Generated blocks with transaction groups at every position,
// every kind of partial availability, arrivals before and after the timeout.
//
// Hook files used: /repo/system/p2p/dht/protocol/broadcast/lt_verif.go and
// /repo/system/mempool/access_verif.go (build tag verif).
package main

import (
	"bytes"
	"crypto/sha256"
	"encoding/binary"
	"sort"
	"sync"

	"github.com/33cn/chain33/types"
	"verifharness/hlib"
)

// ---------------------------------------------------------------- case description (replayable)

// a unit is what the mempool holds as one entry: a single transaction or a group
type unitSpec struct {
	Kind    string `json:"kind"`    // plain group collideA collideB
	Members int    `json:"members"` // group size
	Payload uint64 `json:"payload"`
	Pair    int    `json:"pair,omitempty"`
}

type blockSpec struct {
	Height int64 `json:"height"`
	Rest   int   `json:"rest"`  // BlockTime = 1000+rest, ParentHash = {rest}
	Main   int   `json:"main"`  // 0 = no MainHash/MainHeight
	Units  []int `json:"units"` // indices into Units, in block order (after the miner tx)
	Pad    int   `json:"pad"`   // extra payload bytes of the miner tx (block size)
}

type evSpec struct {
	Op     string `json:"op"` // send arrive remove tick height
	T      int64  `json:"t,omitempty"`
	From   int    `json:"from,omitempty"`
	Pub    int    `json:"pub,omitempty"`
	Block  int    `json:"block,omitempty"`
	Unit   int    `json:"unit,omitempty"`
	Height int64  `json:"height,omitempty"`
}

type caseSpec struct {
	Stream    string      `json:"stream"`
	Seed      uint64      `json:"seed"`
	Index     int         `json:"index"`
	TimeoutMs int64       `json:"timeout_ms"`
	MinSize   int         `json:"minsize"`
	Disabled  bool        `json:"disabled,omitempty"`
	Units     []unitSpec  `json:"units"`
	Blocks    []blockSpec `json:"blocks"`
	Events    []evSpec    `json:"events"`
}

// ---------------------------------------------------------------- transactions

func plainTx(payload uint64) *types.Transaction {
	p := make([]byte, 8)
	binary.LittleEndian.PutUint64(p, payload)
	return &types.Transaction{Execer: []byte("none"), Payload: p, Fee: 1000, Nonce: 7, To: "1"}
}

var collide [][2]*types.Transaction

// findCollisions: birthday search over the 8-byte payload of plainTx for pairs of
// transactions whose hashes agree on the first 5 bytes (as in hC21).
func findCollisions(n int) [][2]*types.Transaction {
	marker := uint64(0x1122334455667788)
	enc := types.Encode(plainTx(marker))
	mb := make([]byte, 8)
	binary.LittleEndian.PutUint64(mb, marker)
	idx := bytes.Index(enc, mb)
	if idx < 0 || bytes.LastIndex(enc, mb) != idx {
		panic("payload offset not found")
	}
	keys := make([]uint64, n)
	var wg sync.WaitGroup
	workers := 4
	for w := 0; w < workers; w++ {
		wg.Add(1)
		go func(w int) {
			defer wg.Done()
			buf := append([]byte(nil), enc...)
			for i := w; i < n; i += workers {
				binary.LittleEndian.PutUint64(buf[idx:], uint64(i))
				s := sha256.Sum256(buf)
				k := uint64(s[0])<<32 | uint64(s[1])<<24 | uint64(s[2])<<16 | uint64(s[3])<<8 | uint64(s[4])
				keys[i] = k<<22 | uint64(i)
			}
		}(w)
	}
	wg.Wait()
	sort.Slice(keys, func(a, b int) bool { return keys[a] < keys[b] })
	var out [][2]*types.Transaction
	for i := 1; i < n; i++ {
		if keys[i]>>22 == keys[i-1]>>22 {
			a := plainTx(keys[i-1] & (1<<22 - 1))
			b := plainTx(keys[i] & (1<<22 - 1))
			ha, hb := a.Hash(), b.Hash()
			if bytes.Equal(ha, hb) || types.CalcTxShortHash(ha) != types.CalcTxShortHash(hb) {
				panic("collision search disagrees with Transaction.Hash")
			}
			out = append(out, [2]*types.Transaction{a, b})
		}
	}
	return out
}

// ---------------------------------------------------------------- generator

func genCase(stream string, seed uint64, index int, thorough bool) caseSpec {
	r := hlib.NewRng(seed*1000003 + uint64(index)*7919 + uint64(len(stream))*104729)
	c := caseSpec{Stream: stream, Seed: seed, Index: index}
	c.TimeoutMs = int64(r.Range(1, 4)) * 1000
	c.MinSize = 0
	if r.Chance(1, 6) {
		c.MinSize = 600 // some blocks stay below: sent in full
	}
	c.Disabled = r.Chance(1, 25)
	nu := r.Range(3, 8)
	base := uint64(index)*4096 + 1<<32
	for i := 0; i < nu; i++ {
		u := unitSpec{Kind: "plain", Members: 1, Payload: base + uint64(i)*32}
		if r.Chance(1, 3) {
			u.Kind = "group"
			u.Members = r.Range(2, 4)
		}
		c.Units = append(c.Units, u)
	}
	if stream == "collide" && len(collide) > 0 {
		pair := r.Intn(len(collide))
		c.Units = append(c.Units, unitSpec{Kind: "collideA", Members: 1, Pair: pair}, unitSpec{Kind: "collideB", Members: 1, Pair: pair})
	}
	nb := r.Range(1, 3)
	for k := 0; k < nb; k++ {
		b := blockSpec{Height: int64(r.Range(1, 6)), Rest: k + 1, Pad: r.Intn(3) * 300}
		if stream == "para" && r.Chance(2, 3) {
			b.Main = r.Range(1, 3)
		}
		perm := make([]int, len(c.Units))
		for i := range perm {
			perm[i] = i
		}
		hlib.Shuffle(r, perm)
		n := r.Range(0, len(perm))
		if n > 5 {
			n = 5
		}
		b.Units = append(b.Units, perm[:n]...)
		if stream == "collide" {
			// the block carries one transaction of the colliding pair
			want := len(c.Units) - 1 - r.Intn(2)
			has := false
			for _, u := range b.Units {
				if u >= len(c.Units)-2 {
					has = true
				}
			}
			if !has {
				pos := r.Intn(len(b.Units) + 1)
				b.Units = append(b.Units[:pos], append([]int{want}, b.Units[pos:]...)...)
			}
			// never both in one block
			var keep []int
			seen := false
			for _, u := range b.Units {
				if u >= len(c.Units)-2 {
					if seen {
						continue
					}
					seen = true
				}
				keep = append(keep, u)
			}
			b.Units = keep
		}
		c.Blocks = append(c.Blocks, b)
	}
	// events
	var clock int64
	sent := make([]bool, nb)
	nev := r.Range(4, 16)
	if thorough {
		nev = r.Range(4, 30)
	}
	if index < 20 {
		nev = r.Range(2, 6)
	}
	// most of the transactions of the blocks arrive at some point
	pendingArr := map[int]bool{}
	for _, b := range c.Blocks {
		for _, u := range b.Units {
			if !r.Chance(1, 6) {
				pendingArr[u] = true
			}
		}
	}
	if stream == "collide" {
		pendingArr[len(c.Units)-2] = true
		if r.Chance(1, 2) {
			pendingArr[len(c.Units)-1] = true
		}
	}
	for i := 0; i < nev; i++ {
		var e evSpec
		x := r.Intn(100)
		switch {
		case x < 40 && len(pendingArr) > 0:
			e.Op = "arrive"
			var ks []int
			for k := range pendingArr {
				ks = append(ks, k)
			}
			sort.Ints(ks)
			e.Unit = hlib.Pick(r, ks)
			delete(pendingArr, e.Unit)
		case x < 62:
			e.Op = "send"
			e.Block = r.Intn(nb)
			if sent[e.Block] && r.Chance(3, 4) {
				for k := range sent {
					if !sent[k] {
						e.Block = k
					}
				}
			}
			sent[e.Block] = true
			e.T = clock
			e.From, e.Pub = r.Range(1, 2), r.Range(1, 2)
		case x < 88:
			e.Op = "tick"
			clock += int64(r.Range(0, 2))
			e.T = clock
		case x < 93:
			e.Op = "remove"
			e.Unit = r.Intn(len(c.Units))
		default:
			e.Op = "height"
			e.Height = int64(r.Range(0, 6))
		}
		c.Events = append(c.Events, e)
	}
	return c
}
