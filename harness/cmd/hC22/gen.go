package main

import (
	"verifharness/hlib"
)

// ---------------------------------------------------------------- generators

func baseHist(stream string, seed uint64, index int) histSpec {
	return histSpec{Stream: stream, Seed: seed, Index: index, MaxTxNum: 10000, MinFee: 100000, MaxRate: 10000000,
		PerSender: 3, Cap: 8, Synced: true, Height: 10, BtBack: 20, Nonces: [2]int64{0, 3}}
}

type gen struct {
	r    *hlib.Rng
	h    *histSpec
	uniq uint64
	next [2]int64 // next unused nonce per eth sender
}

func newGen(r *hlib.Rng, h *histSpec) *gen {
	return &gen{r: r, h: h, uniq: uint64(h.Index%1000)*100000 + 1, next: h.Nonces}
}

func (g *gen) tx(sender int) txSpec {
	g.uniq++
	t := txSpec{Uniq: g.uniq, Sender: sender, FeeK: 1, Nonce: int64(g.uniq % 1000)}
	if sender == kEth0 || sender == kEth1 {
		t.Nonce = g.next[sender-kEth0]
		g.next[sender-kEth0]++
	}
	return t
}

func (g *gen) plain(sender int) subSpec { return subSpec{Kind: "plain", Txs: []txSpec{g.tx(sender)}} }

func (g *gen) group(n int, senders ...int) subSpec {
	s := subSpec{Kind: "group"}
	for i := 0; i < n; i++ {
		s.Txs = append(s.Txs, g.tx(senders[i%len(senders)]))
	}
	return s
}

var txViolations = []string{"sigflip", "sigother", "signil", "tobad", "toblocked", "evmcontract", "evmpara", "fromblocked", "onchain",
	"expheight", "expheight-1", "expbt", "expbt-3", "soon", "txheightlow", "txheighthigh", "feelow", "feehigh",
	"chainbad", "toobig", "execbad", "noncelow", "noncepend"}

// applyTx makes transaction t of s violate one clause.  Returns false if the
// violation does not apply to this shape.
func (g *gen) applyTx(s *subSpec, k int, v string) bool {
	t := &s.Txs[k]
	head := k == 0
	switch v {
	case "sigflip":
		t.SigMode = "flip"
	case "sigother":
		t.SigMode, t.Other = "other", (t.Sender+1)%3
	case "signil":
		t.SigMode = "nil"
	case "tobad":
		t.To = "bad"
	case "toblocked":
		t.To = "blocked"
	case "evmcontract", "evmpara":
		t.To = v
	case "fromblocked":
		t.Sender = kBlocked
	case "onchain":
		t.OnChain = true
	case "expheight":
		t.ExpMode, t.ExpOff = "height", 0
	case "expheight-1":
		t.ExpMode, t.ExpOff = "height", -1
	case "expbt":
		t.ExpMode, t.ExpOff = "bt", 0
	case "expbt-3":
		t.ExpMode, t.ExpOff = "bt", -3
	case "soon":
		t.ExpMode, t.ExpOff = "now", int64(g.r.Range(1, 59))
	case "txheightlow":
		t.ExpMode, t.ExpOff = "txheight", 201
	case "txheighthigh":
		t.ExpMode, t.ExpOff = "txheight", -601
	case "feelow":
		if !head || g.h.MinFee == 0 {
			return false
		}
		t.FeeDelta = -1
	case "feehigh":
		if !head {
			return false
		}
		v := int64(1000000000 + 1)
		t.FeeAbs = &v
	case "chainbad":
		t.ChainBad = true
	case "toobig":
		t.Pad = 100100
	case "execbad":
		if !head {
			return false
		}
		t.ExecBad = true
	case "noncelow":
		if !head || g.h.Nonces[0] == 0 {
			return false
		}
		t.Sender, t.Nonce = kEth0, g.h.Nonces[0]-1
	case "noncepend":
		if !head || g.next[1] == g.h.Nonces[1] {
			return false
		}
		t.Sender, t.Nonce = kEth1, g.h.Nonces[1]
	default:
		panic(v)
	}
	s.Viol = append(s.Viol, v)
	return true
}

// boundary values that are still acceptable
func (g *gen) benign(t *txSpec) {
	switch g.r.Intn(8) {
	case 0:
		t.ExpMode, t.ExpOff = "height", 1
	case 1:
		t.ExpMode, t.ExpOff = "now", 60
	case 2:
		t.ExpMode, t.ExpOff = "now", int64(g.r.Range(61, 500))
	case 3:
		t.ExpMode, t.ExpOff = "txheight", int64(hlib.Pick(g.r, []int{-600, 0, 200}))
	case 4:
		t.Pad = g.r.Range(900, 2100)
	case 5:
		t.To = "evmok"
	}
}

func (g *gen) feeChoice(t *txSpec) {
	switch g.r.Intn(6) {
	case 0:
		t.FeeK = 10
	case 1:
		t.FeeK = 100
	case 2:
		t.FeeK, t.FeeDelta = 10, -1
	case 3:
		t.FeeK, t.FeeDelta = 100, -1
	}
}

func (g *gen) randSender() int {
	if g.r.Chance(1, 4) {
		return kEth0 + g.r.Intn(2)
	}
	return g.r.Intn(3)
}

func (g *gen) randSub(unrestricted bool) subSpec {
	r := g.r
	x := r.Intn(100)
	var s subSpec
	switch {
	case x < 3:
		return subSpec{Kind: "nil"}
	case x < 10:
		s = g.plain(g.randSender())
		s.Kind = hlib.Pick(r, []string{"badcount", "strayhdr", "undecodable", "group1"})
		s.BadCount = hlib.Pick(r, []int32{1, -1, 21, 100})
		if s.Kind == "group1" {
			s.Txs[0].Sender = r.Intn(3)
		}
		return s
	case x < 65:
		s = g.plain(g.randSender())
	default:
		n := r.Range(2, 4)
		if r.Chance(1, 5) {
			n = r.Range(5, 8)
		}
		a := g.randSender()
		s = g.group(n, a, r.Intn(3), r.Intn(3))
	}
	for i := range s.Txs {
		if r.Chance(1, 3) {
			g.benign(&s.Txs[i])
		}
	}
	if g.h.Level || r.Chance(1, 4) {
		g.feeChoice(&s.Txs[0])
	}
	nv := 0
	switch y := r.Intn(100); {
	case y < 45:
	case y < 80:
		nv = 1
	default:
		nv = 2
	}
	for i := 0; i < nv; i++ {
		if s.Kind == "group" && r.Chance(1, 4) {
			switch r.Intn(3) {
			case 0:
				s.MemberFee = r.Range(1, len(s.Txs)-1)
				s.Viol = append(s.Viol, "memberfee")
			default:
				s.Struct = hlib.Pick(r, []string{"next", "count", "header"})
				s.Viol = append(s.Viol, "struct")
			}
			continue
		}
		g.applyTx(&s, r.Intn(len(s.Txs)), hlib.Pick(r, txViolations))
	}
	// a wrapper that is not the group's first transaction (every stream: the pool must refuse it)
	if s.Kind == "group" && r.Chance(1, 10) {
		g.foreignWrap(&s)
	}
	if unrestricted {
		switch z := r.Intn(12); {
		case z == 0 && g.h.Para:
			s.Forward = true
			s.Viol = append(s.Viol, "forward")
		case z == 2 && s.Kind == "plain" && g.h.MinFee == 0:
			v := -int64(r.Range(1, 5000))
			s.Txs[0].FeeAbs = &v
			s.Viol = append(s.Viol, "negfee")
		case z == 3 && s.Kind == "group":
			s.HdrEmpty = true
			s.Viol = append(s.Viol, "hdrempty")
		}
		if g.h.Para && r.Chance(1, 5) && !s.Forward {
			s.Forward = true
			s.Viol = append(s.Viol, "forward")
		}
	}
	return s
}

var wrapKinds = []string{"sig", "fee", "eth", "sigbytes", "nosig"}

func (g *gen) foreignWrap(s *subSpec) {
	r := g.r
	s.Wrap, s.WrapSender = hlib.Pick(r, wrapKinds), r.Intn(3)
	if s.Wrap == "eth" {
		s.WrapSender, s.WrapNonce = kEth0+r.Intn(2), int64(r.Range(0, 6))
	}
	s.Viol = append(s.Viol, "wrap-"+s.Wrap)
}

func genHist(stream string, seed uint64, index int, thorough bool) histSpec {
	r := hlib.NewRng(seed*1000003 + uint64(index)*7919 + uint64(len(stream)))
	h := baseHist(stream, seed, index)
	un := stream == "unrestricted"
	h.Para = r.Chance(1, 6) || (un && r.Chance(1, 3))
	h.MaxTxNum = hlib.Pick(r, []int{10, 12, 20, 40, 10000})
	h.MinFee = hlib.Pick(r, []int64{0, 1000, 100000, 100000})
	if un && r.Chance(1, 4) {
		h.MinFee = 0
	}
	h.Level = r.Chance(1, 2)
	h.MaxRate = hlib.Pick(r, []int64{10000000, h.MinFee * 10, h.MinFee * 100, h.MinFee * 50})
	h.PerSender = int64(r.Range(1, 3))
	h.Cap = int64(r.Range(2, 6))
	h.DisableExec = r.Chance(1, 6)
	h.Synced = !r.Chance(1, 20)
	h.Height = int64(r.Range(1, 30))
	h.BtBack = int64(r.Range(0, 100))
	h.Nonces = [2]int64{int64(r.Range(0, 3)), int64(r.Range(0, 5))}
	g := newGen(r, &h)
	n := r.Range(6, 14)
	if thorough {
		n = r.Range(6, 24)
	}
	for i := 0; i < n; i++ {
		if i > 0 && r.Chance(1, 9) {
			j := r.Intn(i)
			if h.Subs[j].Kind != "ref" {
				h.Subs = append(h.Subs, subSpec{Kind: "ref", Ref: j})
				continue
			}
		}
		h.Subs = append(h.Subs, g.randSub(un))
	}
	return h
}

// clauseMatrix: every single-clause violation x every transaction shape (plain,
// group head, group member k), each against a pool in which an acceptable
// transaction of the same shape is admitted right before (so that a rejection
// is due to the one violated clause), on the main chain and on the parachain.
func clauseMatrix(seed uint64) []histSpec {
	var out []histSpec
	idx := 0
	for _, para := range []bool{false, true} {
		for _, shape := range []string{"plain", "head", "member1", "memberlast"} {
			h := baseHist("matrix", seed, idx)
			idx++
			h.Para = para
			h.PerSender, h.Cap = 100, 100
			h.Nonces = [2]int64{2, 0}
			r := hlib.NewRng(seed + uint64(idx))
			g := newGen(r, &h)
			mk := func() (subSpec, int) {
				switch shape {
				case "plain":
					return g.plain(r.Intn(3)), 0
				case "head":
					return g.group(3, r.Intn(3), 1, 2), 0
				case "member1":
					return g.group(3, r.Intn(3), 1, 2), 1
				}
				return g.group(4, r.Intn(3), 1, 2), 3
			}
			// an eth transaction of sender kEth1 is pending for the nonce clause
			e := g.plain(kEth1)
			h.Subs = append(h.Subs, e)
			for _, v := range txViolations {
				ok, _ := mk()
				h.Subs = append(h.Subs, ok)
				bad, k := mk()
				if g.applyTx(&bad, k, v) {
					h.Subs = append(h.Subs, bad)
				}
			}
			if shape != "plain" {
				for _, st := range []string{"next", "count", "header"} {
					bad, _ := mk()
					bad.Struct = st
					bad.Viol = []string{"struct"}
					h.Subs = append(h.Subs, bad)
				}
				bad, k := mk()
				if k > 0 {
					bad.MemberFee = k
					bad.Viol = []string{"memberfee"}
					h.Subs = append(h.Subs, bad)
				}
				// the wrapper is not the group's first transaction: other signer, other fee (other hash), eth
				// signer with a chosen nonce, other signature bytes, no signature; each next to an accepted twin
				if shape == "head" {
					for _, wk := range wrapKinds {
						ok, _ := mk()
						h.Subs = append(h.Subs, ok)
						bad, _ := mk()
						bad.Wrap, bad.WrapSender = wk, (bad.Txs[0].Sender+1)%3
						if wk == "eth" {
							bad.WrapSender, bad.WrapNonce = kEth0, 5
						}
						bad.Viol = []string{"wrap-" + wk}
						h.Subs = append(h.Subs, bad)
					}
				}
			}
			out = append(out, h)
		}
	}
	// pairs of violations on a plain transaction and on a group (first error decides the reply class)
	h := baseHist("matrix-pairs", seed, idx)
	h.PerSender, h.Cap = 100, 100
	h.Nonces = [2]int64{2, 0}
	r := hlib.NewRng(seed + 77)
	g := newGen(r, &h)
	h.Subs = append(h.Subs, g.plain(kEth1))
	for i, v1 := range txViolations {
		for j, v2 := range txViolations {
			if i >= j || (i+j)%3 != int(seed%3) {
				continue
			}
			var s subSpec
			k1, k2 := 0, 0
			if (i+j)%2 == 0 {
				s = g.plain(r.Intn(3))
			} else {
				s = g.group(3, r.Intn(3), 1, 2)
				k1, k2 = r.Intn(3), r.Intn(3)
			}
			g.applyTx(&s, k1, v1)
			g.applyTx(&s, k2, v2)
			h.Subs = append(h.Subs, s)
		}
	}
	out = append(out, h)
	// fee tiers: pools at and around the tier boundaries
	for _, mt := range []int{10, 20} {
		h := baseHist("matrix-tiers", seed, idx)
		idx++
		h.Level, h.MaxTxNum, h.PerSender, h.Cap, h.MinFee = true, mt, 100, 100, 1000
		r := hlib.NewRng(seed + 99 + uint64(mt))
		g := newGen(r, &h)
		for i := 0; i < mt/2+2; i++ {
			for _, fk := range [][2]int64{{1, -1}, {1, 0}, {10, -1}, {10, 0}, {100, -1}} {
				s := g.plain(r.Intn(3))
				s.Txs[0].FeeK, s.Txs[0].FeeDelta = fk[0], fk[1]
				s.Txs[0].OnChain = true // probes: rejected later as duplicates unless the fee check stops them first
				h.Subs = append(h.Subs, s)
			}
			s := g.plain(r.Intn(3))
			s.Txs[0].FeeK = 100
			h.Subs = append(h.Subs, s)
		}
		out = append(out, h)
	}
	// per-sender limit and capacity
	h2 := baseHist("matrix-limits", seed, idx)
	h2.PerSender, h2.Cap = 2, 4
	g2 := newGen(hlib.NewRng(seed+5), &h2)
	for _, sd := range []int{0, 0, 0, 1, 1, 2, 2} {
		h2.Subs = append(h2.Subs, g2.plain(sd))
	}
	h2.Subs = append(h2.Subs, g2.group(2, 2, 0), g2.group(2, 1, 1), subSpec{Kind: "ref", Ref: 0})
	out = append(out, h2)
	return out
}

// witnesses of the refutation theorems (and the former witness of the fixed finding 2), on the real code
func witnesses(seed uint64) []histSpec {
	var out []histSpec
	// 1. forwarded transaction on a parachain node: expired, blacklisted recipient, no fee
	h := baseHist("witness-forward", seed, 0)
	h.Para = true
	g := newGen(hlib.NewRng(1), &h)
	s := g.plain(0)
	s.Forward = true
	s.Txs[0].To, s.Txs[0].ExpMode, s.Txs[0].ExpOff = "blocked", "height", -1
	z := int64(0)
	s.Txs[0].FeeAbs = &z
	h.Subs = []subSpec{s}
	out = append(out, h)
	// 2. (finding 2, fixed) group wrapper carrying another account's public key: refused; that account's own
	// transaction is admitted afterwards, and so is an honestly wrapped group of the first account
	h = baseHist("witness-wrapper", seed, 1)
	h.PerSender = 1
	g = newGen(hlib.NewRng(2), &h)
	w := g.group(2, 0, 0)
	w.Wrap, w.WrapSender = "sig", 1
	h.Subs = []subSpec{w, g.plain(1), g.group(2, 0, 0)}
	out = append(out, h)
	// 3. negative fee with a zero minimum rate
	h = baseHist("witness-negfee", seed, 2)
	h.MinFee = 0
	g = newGen(hlib.NewRng(3), &h)
	s = g.plain(0)
	neg := int64(-1000000)
	s.Txs[0].FeeAbs = &neg
	h.Subs = []subSpec{s}
	out = append(out, h)
	// 4. group whose header hash parses as an empty Transactions message: height expiry of its members is not looked at
	h = baseHist("witness-hdrempty", seed, 3)
	g = newGen(hlib.NewRng(4), &h)
	s = g.group(2, 0, 1)
	s.HdrEmpty = true
	s.Txs[1].ExpMode, s.Txs[1].ExpOff = "height", -5
	c := g.group(2, 0, 1) // control: same, header not parseable
	c.Txs[1].ExpMode, c.Txs[1].ExpOff = "height", -5
	h.Subs = []subSpec{c, s}
	out = append(out, h)
	return out
}

// ---------------------------------------------------------------- histories with blocks and delayed transactions

// hgen: a generator that also tracks the header it has scripted so far
type hgen struct {
	*gen
	h, bt, now int64 // offsets of the scripted header: height (absolute), block time and clock (relative)
	inBlock    map[int]bool
	delayed    map[int]bool
}

func newHGen(r *hlib.Rng, h *histSpec) *hgen {
	return &hgen{gen: newGen(r, h), h: h.Height, inBlock: map[int]bool{}, delayed: map[int]bool{}}
}

func (g *hgen) add(s subSpec) int {
	g.gen.h.Subs = append(g.gen.h.Subs, s)
	return len(g.gen.h.Subs) - 1
}

// block: the header moves to height bh, block time +dbt, clock +dnow
func (g *hgen) block(bh, dbt, dnow int64, btxs []int, commits ...subSpec) int {
	g.bt += dbt
	g.now += dnow
	if bh > g.h {
		g.h = bh
	}
	for _, i := range btxs {
		g.inBlock[i] = true
	}
	return g.add(subSpec{Kind: "block", BH: bh, BBT: g.bt, BNow: g.now, BTxs: btxs, Commits: commits})
}

func delayed(s subSpec, mode string, off int64) subSpec {
	s.Op, s.EndMode, s.EndOff = "delay", mode, off
	return s
}

func commit(s subSpec, rt, rh int64) subSpec {
	s.RelTime, s.RelH = rt, rh
	return s
}

func withExec(s subSpec, execs ...string) subSpec {
	for i := range s.Txs {
		s.Txs[i].Exec = execs[i%len(execs)]
	}
	return s
}

func withTo(s subSpec, k int, to string) subSpec {
	s.Txs[k].To = to
	return s
}

func withExp(s subSpec, k int, mode string, off int64) subSpec {
	s.Txs[k].ExpMode, s.Txs[k].ExpOff = mode, off
	return s
}

// paraTitles: groups whose members name parachain titles, on a main-chain node and on the node of
// user.p.test., with ForkTxGroupPara active from the start or reached by a block in the middle
func paraTitles(seed uint64) []histSpec {
	var out []histSpec
	idx := 0
	for _, para := range []bool{false, true} {
		for _, fork := range []int64{0, 13} {
			h := baseHist("para-titles", seed, idx)
			idx++
			h.Para, h.PerSender, h.Cap = para, 100, 100
			h.Forks.ParaFork = fork
			r := hlib.NewRng(seed*31 + uint64(idx))
			g := newHGen(r, &h)
			own := "paraA"
			if !para {
				own = "main"
			}
			shapes := [][]string{{own, own}, {"paraA", "paraA"}, {"paraA", "paraB"}, {"paraA", "main"}, {"paraA", "notitle"},
				{"paraA", "paraA", "paraB"}, {"paraA", "main", "paraA"}, {"paraA", "notitle", "paraA", "main"}}
			if !para {
				shapes = append(shapes, []string{"main", "paraA"}, []string{"notitle", "main"}, []string{"paraB", "paraB"},
					[]string{"notitle", "notitle"}, []string{"main", "paraB", "paraA"})
			}
			round := func() {
				for _, sh := range shapes {
					g.add(withExec(g.group(len(sh), r.Intn(3), 1, 2), sh...))
				}
				g.add(withExec(g.plain(r.Intn(3)), own))
				if !para {
					g.add(withExec(g.plain(r.Intn(3)), "paraB"))
					g.add(withExec(g.plain(r.Intn(3)), "notitle"))
				}
			}
			round()
			if fork > 0 {
				g.block(fork-2, 3, 2, nil) // next height = fork-1: still before the fork
				g.add(withExec(g.group(2, 0, 1), "paraA", "main"))
				g.block(fork-1, 3, 2, nil) // next height = fork
				round()
			}
			if para {
				// the first member is not this parachain's: the whole group is forwarded (finding 1)
				g.add(withExec(g.group(2, 0, 1), "paraB", "paraA"))
				g.add(withExec(g.group(2, 0, 1), "main", "paraA"))
			}
			out = append(out, h)
		}
	}
	return out
}

// realTo: coins transfers whose payload names the recipient, as plain transactions and as group members, on a
// parachain node (GetRealToAddr reads the payload) and on a main-chain node (it does not)
func realTo(seed uint64) []histSpec {
	var out []histSpec
	for i, para := range []bool{true, false} {
		h := baseHist("realto", seed, i)
		h.Para, h.PerSender, h.Cap = para, 100, 100
		r := hlib.NewRng(seed*37 + uint64(i))
		g := newHGen(r, &h)
		for _, to := range []string{"realok", "realblocked", "realsame", "realsameblocked", "blocked", "evmok", "evmpara"} {
			g.add(withTo(g.plain(r.Intn(3)), 0, to))
			for _, k := range []int{0, 1, 2} {
				g.add(withTo(g.group(3, r.Intn(3), 1, 2), k, to))
			}
			// the same transactions as delayed ones: refused at the door only for what the wrapper itself shows
			g.add(delayed(withTo(g.plain(r.Intn(3)), 0, to), "bt", 5))
			g.add(delayed(withTo(g.group(2, r.Intn(3), 1), 1, to), "bt", 6))
		}
		g.add(delayed(g.plain(kBlocked), "bt", 5))
		g.block(h.Height+1, 10, 3, nil)
		out = append(out, h)
	}
	return out
}

// headerScenario: transactions at the edges of every header-dependent rule, submitted before and after the
// block that moves the header across the edge (both directions), with the fork gates inside the history
func headerScenario(seed uint64) []histSpec {
	var out []histSpec
	for i, minfee := range []int64{100000, 0} {
		h := baseHist("header", seed, i)
		h.MinFee, h.PerSender, h.Cap = minfee, 100, 100
		h.Height = 610
		h.Forks = forkSpec{Strict: 614, BlockCheck: 614, TxHeight: 614 * int64(i), ParaFork: 614}
		r := hlib.NewRng(seed*41 + uint64(i))
		g := newHGen(r, &h)
		probes := func() []int {
			var ids []int
			p := func(s subSpec) { ids = append(ids, g.add(s)) }
			p(withExp(g.plain(0), 0, "height", 1)) // Expire = 612
			p(withExp(g.plain(1), 0, "height", 2)) // 613
			p(withExp(g.group(2, 2, 0), 1, "height", 2))
			p(withExp(g.plain(0), 0, "bt", 4))
			p(withExp(g.plain(1), 0, "bt", 9))
			p(withExp(g.plain(2), 0, "now", 63))
			p(withExp(g.plain(0), 0, "txheight", 203))  // window opens at height 614 = 611 + 203 - 200
			p(withExp(g.plain(1), 0, "txheight", -598)) // window closes after height 613 = 611 - 598 + 600
			s := g.group(2, 0, 1)
			s.Txs[1].ChainBad = true
			p(s)
			s = g.plain(2)
			s.Txs[0].ChainBad = true
			p(s)
			s = g.plain(0)
			g.applyTx(&s, 0, "feehigh")
			p(s)
			p(withExec(g.group(2, 1, 2), "paraA", "main"))
			return ids
		}
		first := probes()
		g.block(611, 4, 2, nil) // next 612: Expire = 612 is swept
		g.block(609, 1, 0, nil) // stale: the header stays, the clock and the release window move
		probes()
		g.block(612, 5, 2, first[:2]) // block time +10 in total; carries two pooled transactions
		for _, j := range first {
			g.add(subSpec{Kind: "ref", Ref: j})
		}
		g.block(613, 1, 1, nil) // next 614: every fork gate opens, the TxHeight window of probe 7 opens, probe 8's closes
		probes()
		for _, j := range first[6:] {
			g.add(subSpec{Kind: "ref", Ref: j})
		}
		out = append(out, h)
	}
	return out
}

// delayScenario: the delay cache (capacity = half the pool's) filled through EventAddDelayTx and through blocks,
// released by block time and by height, in the cache's order, against per-sender limit and capacity
func delayScenario(seed uint64) []histSpec {
	var out []histSpec
	for i := 0; i < 2; i++ {
		h := baseHist("delay", seed, i)
		h.PerSender, h.Cap = 2, 8
		h.Height = 20
		r := hlib.NewRng(seed*43 + uint64(i))
		g := newHGen(r, &h)
		a := g.add(delayed(g.plain(0), "bt", 7))
		g.add(delayed(g.plain(0), "bt", 3))
		g.add(delayed(g.plain(0), "height", 22)) // third of sender 0: over the limit when its turn comes
		g.add(delayed(g.group(2, 1, 2), "bt", 7))
		g.add(delayed(g.plain(2), "bt", 30)) // cache full (4)
		g.add(subSpec{Kind: "ref", Ref: a, Op: "delay", EndMode: "bt", EndOff: 9})
		g.add(subSpec{Kind: "nil", Op: "delay", EndOff: 5})
		g.add(subSpec{Kind: "baddata", Op: "delay"})
		g.add(delayed(g.plain(kBlocked), "bt", 3))
		g.add(delayed(withTo(g.plain(1), 0, "blocked"), "bt", 3))
		x := g.add(g.plain(1))
		g.block(21, 5, 1, nil) // releases block time +3
		g.block(22, 5, 1, []int{x}, commit(g.plain(1), 0, 0), commit(g.plain(2), 4, 0), commit(withTo(g.plain(2), 0, "blocked"), 0, 1),
			commit(withExp(g.plain(1), 0, "height", 3), 0, 2)) // releases +7 (two entries), height 22, and its own first commit
		g.add(delayed(withExp(g.plain(2), 0, "bt", 12), "bt", 13)) // expired when released
		bad := g.plain(2)
		bad.Txs[0].SigMode = "flip"
		g.add(delayed(bad, "bt", 13))
		low := g.plain(2)
		low.Txs[0].FeeDelta = -1
		g.add(delayed(low, "height", 23))
		g.block(22, 2, 1, nil) // not higher: the header stays, block time +12 releases nothing new but +11..+12
		g.block(23, 3, 1, nil)
		g.block(24, 3, 1, nil)
		if i == 1 {
			g.block(0, 3, 1, nil)
			g.block(30, 40, 5, nil)
		}
		out = append(out, h)
	}
	// a delayed transaction with a negative fee under a zero minimum rate enters through the release (finding 3)
	h := baseHist("witness-delayed-negfee", seed, 0)
	h.MinFee = 0
	g := newHGen(hlib.NewRng(9), &h)
	s := g.plain(0)
	neg := int64(-5000)
	s.Txs[0].FeeAbs = &neg
	g.add(delayed(s, "bt", 2))
	g.add(g.plain(1))
	g.block(h.Height+1, 4, 1, nil)
	out = append(out, h)
	return out
}

// movingHist: random histories of EventTx, EventAddDelayTx and EventAddBlock messages with fork gates inside the
// range of heights; every submission satisfies the three guards
func movingHist(stream string, seed uint64, index int, thorough bool) histSpec {
	r := hlib.NewRng(seed*1000033 + uint64(index)*7927 + 5)
	h := baseHist(stream, seed, index)
	h.Para = r.Chance(1, 5)
	h.MaxTxNum = hlib.Pick(r, []int{10, 20, 10000})
	h.MinFee = hlib.Pick(r, []int64{0, 1000, 100000})
	h.Level = r.Chance(1, 3)
	h.MaxRate = hlib.Pick(r, []int64{10000000, h.MinFee * 10, h.MinFee * 100})
	h.PerSender = int64(r.Range(1, 3))
	h.Cap = int64(r.Range(4, 12))
	h.DisableExec = r.Chance(1, 6)
	h.Height = int64(hlib.Pick(r, []int{1, 5, 30, 605}))
	h.BtBack = int64(r.Range(0, 50))
	h.Nonces = [2]int64{int64(r.Range(0, 3)), int64(r.Range(0, 5))}
	fk := func() int64 { return hlib.Pick(r, []int64{0, 0, h.Height + 2, h.Height + 3, h.Height + 5, 1 << 40}) }
	h.Forks = forkSpec{Strict: fk(), BlockCheck: fk(), TxHeight: fk(), ParaFork: fk()}
	g := newHGen(r, &h)
	n := r.Range(10, 18)
	if thorough {
		n = r.Range(10, 30)
	}
	edge := func(t *txSpec) { // expiry near where the header is going
		switch r.Intn(7) {
		case 0:
			t.ExpMode, t.ExpOff = "height", int64(r.Range(0, 5))
		case 1:
			t.ExpMode, t.ExpOff = "bt", int64(r.Range(1, 40))
		case 2:
			t.ExpMode, t.ExpOff = "now", int64(r.Range(55, 100))
		case 3:
			t.ExpMode, t.ExpOff = "txheight", int64(hlib.Pick(r, []int{200, 201, 202, 204, -600, -599, -598}))
		}
	}
	mk := func() subSpec {
		s := g.randSub(false)
		for s.Kind == "nil" {
			s = g.randSub(false)
		}
		if s.Kind == "plain" || s.Kind == "group" {
			for i := range s.Txs {
				if s.Txs[i].ExpMode == "" && r.Chance(1, 2) {
					edge(&s.Txs[i])
				}
				if r.Chance(1, 12) {
					s.Txs[i].To = hlib.Pick(r, []string{"realok", "realblocked", "realsame"})
				}
			}
			if s.Kind == "group" && r.Chance(1, 5) {
				ex := []string{"paraA", "main", "paraB", "notitle"}
				for i := 1; i < len(s.Txs); i++ {
					s.Txs[i].Exec = hlib.Pick(r, ex)
				}
				if !h.Para {
					s.Txs[0].Exec = hlib.Pick(r, ex)
				}
			}
		}
		return s
	}
	for i := 0; i < n; i++ {
		switch x := r.Intn(100); {
		case x < 50:
			g.add(mk())
		case x < 58 && i > 0:
			j := r.Intn(len(h.Subs))
			if k := h.Subs[j].Kind; k != "ref" && k != "block" && h.Subs[j].Op == "" && !g.delayed[j] {
				g.add(subSpec{Kind: "ref", Ref: j})
			}
		case x < 74:
			s := mk()
			if s.Kind != "plain" && s.Kind != "group" {
				s = g.plain(r.Intn(3))
			}
			if r.Chance(1, 2) {
				g.add(delayed(s, "bt", g.bt+int64(r.Range(0, 25))))
			} else {
				g.add(delayed(s, "height", g.h+int64(r.Range(0, 3))))
			}
		case x < 78 && i > 0:
			j := r.Intn(len(h.Subs))
			if k := h.Subs[j].Kind; (k == "plain" || k == "group") && !g.inBlock[j] {
				g.delayed[j] = true
				g.add(subSpec{Kind: "ref", Ref: j, Op: "delay", EndMode: "bt", EndOff: g.bt + int64(r.Range(0, 20))})
			}
		case x < 80:
			g.add(subSpec{Kind: hlib.Pick(r, []string{"nil", "baddata"}), Op: "delay", EndOff: 3})
		default:
			bh := g.h + int64(hlib.Pick(r, []int{1, 1, 1, 2, 3, 0}))
			if r.Chance(1, 8) && g.h > 2 {
				bh = g.h - int64(r.Range(1, 2))
			}
			var btxs []int
			for j, sj := range h.Subs {
				if (sj.Kind == "plain" || sj.Kind == "group") && sj.Op == "" && !g.delayed[j] && r.Chance(1, 4) {
					btxs = append(btxs, j)
				}
			}
			var cs []subSpec
			for k := r.Intn(3); k > 0; k-- {
				s := g.plain(r.Intn(3))
				if r.Chance(1, 2) {
					cs = append(cs, commit(s, 0, int64(r.Range(0, 2))))
				} else {
					cs = append(cs, commit(s, int64(r.Range(1, 15)), 0))
				}
			}
			g.block(bh, int64(r.Range(0, 12)), int64(r.Range(0, 12)), btxs, cs...)
		}
	}
	return h
}
