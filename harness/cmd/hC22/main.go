// hC22: drives the real mempool admission pipeline (system/mempool: eventTx ->
// checkTxs -> checkSign -> checkTxRemote -> txCache.Push, running in the
// module's own goroutines) through EventTx messages on a message queue whose
// other modules (blockchain, execs, rpc, p2p) are scripted, and records for
// every submission the reply class and the pool membership of every hash of
// the history (EventTxListByHash / EventGetMempoolSize).
//
// Every elementary fact about a generated transaction (signature valid, to
// valid, blacklisted, on chain, ...) is known by construction: the generator
// chooses it and the builder makes a real transaction that has it.
// No hook file is needed.
package main

import (
	"bytes"
	"encoding/binary"
	"fmt"
	"os"
	"runtime"
	"strings"
	"sync"
	"time"

	"github.com/33cn/chain33/common"
	"github.com/33cn/chain33/common/address"
	"github.com/33cn/chain33/common/crypto"
	log "github.com/33cn/chain33/common/log/log15"
	"github.com/33cn/chain33/queue"
	_ "github.com/33cn/chain33/system"
	cty "github.com/33cn/chain33/system/dapp/coins/types"
	nty "github.com/33cn/chain33/system/dapp/none/types"
	"github.com/33cn/chain33/system/mempool"
	"github.com/33cn/chain33/types"
	"verifharness/hlib"
)

// ---------------------------------------------------------------- keys, addresses, configurations

const (
	kBlocked   = 3 // sender key whose address is on the blacklist
	kEth0      = 4
	kEth1      = 5
	kBlockedTo = 6 // never a sender; its address is a blacklisted recipient
	nKeys      = 7
	noSigID    = 9 // sender id of a transaction without Signature
	execReject = "verif-exec-reject"
)

var (
	privs      []crypto.PrivKey
	sigTy      []int32
	keyAddr    []string
	blockedRaw []byte
	cfgs       = map[string]*types.Chain33Config{}
	errCls     = map[string]int{}
	closers    sync.WaitGroup
	nSub       int
	nSlip      int
)

func initKeys() {
	c1, err := crypto.Load(types.GetSignName("", types.SECP256K1), -1)
	if err != nil {
		panic(err)
	}
	ce, err := crypto.Load("secp256k1eth", -1)
	if err != nil {
		panic(err)
	}
	ethTy := types.EncodeSignID(types.SECP256K1ETH, 2)
	if !types.IsEthSignID(ethTy) {
		panic("eth sign id")
	}
	for i := 0; i < nKeys; i++ {
		b := make([]byte, 32)
		for j := range b {
			b[j] = byte(0x11*(i+1) + j)
		}
		drv, ty := c1, int32(types.SECP256K1)
		if i == kEth0 || i == kEth1 {
			drv, ty = ce, ethTy
		}
		p, err := drv.PrivKeyFromBytes(b)
		if err != nil {
			panic(err)
		}
		privs = append(privs, p)
		sigTy = append(sigTy, ty)
		keyAddr = append(keyAddr, address.PubKeyToAddr(types.ExtractAddressID(ty), p.PubKey().Bytes()))
	}
}

// fork heights of one history (0 = active from the start, as in the "local" configuration)
type forkSpec struct {
	Strict     int64 `json:"strict,omitempty"`     // ForkTxChainIDStrict
	BlockCheck int64 `json:"blockcheck,omitempty"` // ForkBlockCheck
	TxHeight   int64 `json:"txheight,omitempty"`   // ForkTxHeight
	ParaFork   int64 `json:"parafork,omitempty"`   // ForkTxGroupPara
}

const paraTitle = "user.p.test."

func getCfg(para bool, maxTxNum int, f forkSpec) *types.Chain33Config {
	k := fmt.Sprintf("%v/%d/%v", para, maxTxNum, f)
	if c, ok := cfgs[k]; ok {
		return c
	}
	s := types.GetDefaultCfgstring()
	if para {
		s = strings.Replace(s, `Title="local"`, `Title="`+paraTitle+`"`, 1)
	}
	s = strings.Replace(s, "maxTxNumber = 10000", fmt.Sprintf("maxTxNumber = %d", maxTxNum), -1)
	c := types.NewChain33Config(s)
	c.SetFork(types.ForkTxChainIDStrict, f.Strict)
	c.SetFork("ForkBlockCheck", f.BlockCheck)
	c.SetFork("ForkTxHeight", f.TxHeight)
	c.SetFork("ForkTxGroupPara", f.ParaFork)
	if c.IsPara() != para || len(c.GetModuleConfig().RPC.ParaChain.ForwardExecs) != 0 {
		panic("configuration variant not effective")
	}
	for _, h := range []int64{1, 50, 400} {
		if c.GetMaxTxFee(h) != c.GetMaxTxFee(1) || c.GetP(h).MaxTxNumber != int64(maxTxNum) {
			panic("fee limit / MaxTxNumber vary with the height")
		}
	}
	cfgs[k] = c
	return c
}

func initErrClasses() {
	for e, c := range map[error]int{
		types.ErrNotSync: 1, types.ErrEmptyTx: 2,
		types.ErrTxGroupCount: 3, types.ErrNomalTx: 3, types.ErrTxGroupHeader: 3, types.ErrTxGroupNext: 3,
		types.ErrTxGroupCountBigThanMaxSize: 3, types.ErrTxGroupCountLessThanTwo: 3, types.ErrTxGroupEmpty: 3,
		types.ErrTxChainID: 4, types.ErrTxFeeTooLow: 5, types.ErrTxFeeTooHigh: 6, types.ErrTxMsgSizeTooBig: 7,
		types.ErrTxGroupFeeNotZero: 8, types.ErrInvalidAddress: 9, types.ErrManyTx: 11, types.ErrTxExpire: 12,
		types.ErrSign: 13, types.ErrDupTx: 14, types.ErrLowNonce: 16, types.ErrTxExist: 18, types.ErrMemFull: 19,
		types.ErrTxGroupParaCount: 20, types.ErrTxGroupParaMainMixed: 21,
		types.ErrNilTransaction: 26, types.ErrCacheOverFlow: 27, types.ErrInvalidParam: 28,
	} {
		errCls[e.Error()] = c
	}
	errCls[execReject] = 15
	errCls["disable transaction acceleration"] = 17
}

func classify(msg string) int {
	if c, ok := errCls[msg]; ok {
		return c
	}
	if pre := types.ErrBlockedAccount.Error() + ": "; strings.HasPrefix(msg, pre) {
		// the position is part of the error text
		for _, pc := range []struct {
			p string
			c int
		}{{"from ", 10}, {"to ", 22}, {"real to ", 23}, {"evm contract addr ", 24}, {"evm transfer to ", 25}} {
			if strings.HasPrefix(msg[len(pre):], pc.p) {
				return pc.c
			}
		}
		return 97
	}
	if strings.Contains(msg, "proto") || strings.Contains(msg, "EOF") || strings.Contains(msg, "unmarshal") {
		return 3 // undecodable group header
	}
	return 99
}

// ---------------------------------------------------------------- history description (replayable)

type txSpec struct {
	Uniq    uint64 `json:"uniq"`
	Sender  int    `json:"sender"`
	SigMode string `json:"sig,omitempty"`   // "" ok | flip | nil | other
	Other   int    `json:"other,omitempty"` // "other": public key of this account, signature of Sender
	To      string `json:"to,omitempty"`    // "" valid | bad | blocked | evmcontract | evmpara | evmok |
	// coins transfers whose payload names the recipient: realblocked (To = exec address, payload To listed) |
	// realok (To = exec address, payload To not listed) | realsame (To = payload To) | realsameblocked (both listed)
	Exec     string `json:"exec,omitempty"` // "" this chain's none | main | paraA (user.p.test.) | paraB (user.p.other.) | notitle (user.p.foo)
	ExpMode  string `json:"exp,omitempty"`  // "" none | height | bt | now | txheight | abs
	ExpOff   int64  `json:"expoff,omitempty"`
	FeeK     int64  `json:"feek"` // fee = owed(rate MinFee*FeeK) + FeeDelta (head of a group: sum over members)
	FeeDelta int64  `json:"feed,omitempty"`
	FeeAbs   *int64 `json:"feeabs,omitempty"` // overrides
	Pad      int    `json:"pad,omitempty"`    // extra payload bytes
	ChainBad bool   `json:"chainbad,omitempty"`
	Nonce    int64  `json:"nonce"`
	OnChain  bool   `json:"onchain,omitempty"`
	ExecBad  bool   `json:"execbad,omitempty"`
}

type subSpec struct {
	Kind       string   `json:"kind"` // nil plain group group1 badcount strayhdr undecodable ref
	Ref        int      `json:"ref,omitempty"`
	Forward    bool     `json:"forward,omitempty"` // main-chain execer on the parachain node
	Txs        []txSpec `json:"txs,omitempty"`
	MemberFee  int      `json:"memberfee,omitempty"` // index (>=1) of a member given a non-zero fee
	Struct     string   `json:"struct,omitempty"`    // next count header
	HdrEmpty   bool     `json:"hdrempty,omitempty"`  // grind until the group header hash decodes as an empty Transactions
	Wrap       string   `json:"wrap,omitempty"`      // sig fee eth sigbytes nosig
	WrapSender int      `json:"wrapsender,omitempty"`
	WrapNonce  int64    `json:"wrapnonce,omitempty"`
	BadCount   int32    `json:"badcount,omitempty"`
	Viol       []string `json:"viol,omitempty"` // labels only (histogram)
	// Op "" = EventTx; "delay" = EventAddDelayTx carrying this transaction (Kind nil: a DelayTx without Tx,
	// Kind baddata: a message that is not a DelayTx) with EndDelayTime = EndMode(bt|height|abs) + EndOff
	Op      string `json:"op,omitempty"`
	EndMode string `json:"endmode,omitempty"`
	EndOff  int64  `json:"endoff,omitempty"`
	// Kind "block": EventAddBlock with Height = BH, BlockTime = initial block time + BBT, delivered when the
	// clock shows initial now + BNow; its transactions are those of the earlier submissions BTxs (marked
	// on-chain from then on) and one none/CommitDelayTx transaction per entry of Commits
	BH      int64     `json:"bh,omitempty"`
	BBT     int64     `json:"bbt,omitempty"`
	BNow    int64     `json:"bnow,omitempty"`
	BTxs    []int     `json:"btxs,omitempty"`
	Commits []subSpec `json:"commits,omitempty"`
	RelTime int64     `json:"reltime,omitempty"` // of a commit
	RelH    int64     `json:"relh,omitempty"`
}

type histSpec struct {
	Stream      string    `json:"stream"`
	Seed        uint64    `json:"seed"`
	Index       int       `json:"index"`
	Para        bool      `json:"para"`
	MaxTxNum    int       `json:"maxtxnum"`
	MinFee      int64     `json:"minfee"`
	Level       bool      `json:"level"`
	MaxRate     int64     `json:"maxrate"`
	PerSender   int64     `json:"persender"`
	Cap         int64     `json:"cap"`
	DisableExec bool      `json:"disableexec"`
	Synced      bool      `json:"synced"`
	Height      int64     `json:"height"`
	BtBack      int64     `json:"btback"` // block time = now - BtBack
	Nonces      [2]int64  `json:"nonces"` // current evm nonce of the two eth senders
	Forks       forkSpec  `json:"forks"`
	Subs        []subSpec `json:"subs"`
}

// ---------------------------------------------------------------- building real transactions

type facts struct {
	ID      int
	Sender  int
	HasSig  bool
	SigOK   bool
	ToValid bool
	Bl      int // blacklist facts, bits as in Model.v t_bl
	OnChain bool
	Expire  int64
	HdrEmp  bool
	Fee     int64
	Size    int64
	ChainOK bool
	Eth     bool
	Nonce   int64
	ExecOK  bool
	SigID   int // identity of the Signature message (type, public key, signature bytes); 0 = none/empty
	Para    int // 0 no user.p. prefix, 1 prefix without title, 2.. title identity
	HasG    bool
	GExp    []int64
}

type built struct {
	nilMsg  bool
	tx      *types.Transaction
	outer   facts
	shape   string // plain bad group
	members []facts
	memTxs  []*types.Transaction
	struOK  bool
	forward bool
	end     int64 // EndDelayTime of a delayed submission
	rt, rh  int64 // of a commit
}

type run struct {
	spec    histSpec
	cfg     *types.Chain33Config
	now     int64
	bt      int64
	q       queue.Queue
	cli     queue.Client
	mem     *mempool.Mempool
	mu      sync.Mutex
	onCh    map[string]bool
	exBad   map[string]bool
	idOf    map[string]int
	sigOf   map[string]int
	hashes  [][]byte
	subs    []*built
	slipped bool  // a step took so long that the pinned second rolled over: the history is run again
	clock   int64 // the virtual clock (moved by block steps)
	height  int64 // the pool's header as the harness knows it (labels only)
}

func (ru *run) id(h []byte) int {
	if v, ok := ru.idOf[string(h)]; ok {
		return v
	}
	ru.hashes = append(ru.hashes, h)
	ru.idOf[string(h)] = len(ru.hashes)
	return len(ru.hashes)
}

// sigID numbers the distinct Signature messages of a history the way mempool's isGroupHead compares
// them (nil-safe getters: an absent Signature equals an empty one).
func (ru *run) sigID(sg *types.Signature) int {
	if sg.GetTy() == 0 && len(sg.GetPubkey()) == 0 && len(sg.GetSignature()) == 0 {
		return 0
	}
	k := fmt.Sprintf("%d|%x|%x", sg.GetTy(), sg.GetPubkey(), sg.GetSignature())
	if v, ok := ru.sigOf[k]; ok {
		return v
	}
	ru.sigOf[k] = len(ru.sigOf) + 1
	return ru.sigOf[k]
}

func (ru *run) expire(t txSpec) int64 {
	switch t.ExpMode {
	case "height":
		return ru.spec.Height + 1 + t.ExpOff
	case "bt":
		return ru.bt + t.ExpOff
	case "now":
		return ru.now + t.ExpOff
	case "txheight":
		return types.TxHeightFlag + ru.spec.Height + 1 + t.ExpOff
	case "abs":
		return t.ExpOff
	}
	return 0
}

func (ru *run) title() string {
	if ru.spec.Para {
		return paraTitle
	}
	return ""
}

// execerOf: the execer a transaction spec asks for; a transaction that is to be forwarded carries a
// main-chain execer
func (ru *run) execerOf(t txSpec, forward bool, base string) []byte {
	switch t.Exec {
	case "main":
		return []byte(base)
	case "paraA":
		return []byte(paraTitle + base)
	case "paraB":
		return []byte("user.p.other." + base)
	case "notitle":
		return []byte("user.p.foo")
	}
	if forward {
		return []byte(base)
	}
	return []byte(ru.title() + base)
}

// paraID: the harness's own reading of an execer (0 no "user.p." prefix, 1 prefix but no further dot,
// 2.. identity of the title up to and including that dot)
func paraID(execer []byte) int {
	e := string(execer)
	if !strings.HasPrefix(e, "user.p.") {
		return 0
	}
	i := strings.Index(e[len("user.p."):], ".")
	if i < 0 {
		return 1
	}
	switch e[:len("user.p.")+i+1] {
	case paraTitle:
		return 2
	case "user.p.other.":
		return 3
	}
	return 4
}

func (ru *run) body(t txSpec, forward bool) *types.Transaction {
	p := make([]byte, 8+t.Pad)
	binary.LittleEndian.PutUint64(p, t.Uniq)
	tx := &types.Transaction{Execer: ru.execerOf(t, forward, "none"), Payload: p, Expire: ru.expire(t), Nonce: t.Nonce, ChainID: ru.cfg.GetChainID()}
	switch t.To {
	case "bad":
		tx.To = "1VerifNotAnAddressAtAll"
	case "blocked":
		tx.To = keyAddr[kBlockedTo]
	case "evmcontract", "evmpara", "evmok":
		// evm payload: the real target is inside the action (contract address / 20 raw bytes of a transfer)
		tx.To = keyAddr[int(t.Uniq%3)]
		act := &types.EVMContractAction4Chain33{Amount: t.Uniq, Note: "verif", Code: make([]byte, t.Pad)}
		switch t.To {
		case "evmcontract":
			act.ContractAddr = keyAddr[kBlockedTo]
		case "evmpara":
			act.Para = blockedRaw
		default:
			act.ContractAddr, act.Para = keyAddr[int((t.Uniq+1)%3)], rawOf(keyAddr[int((t.Uniq+2)%3)])
		}
		tx.Payload = types.Encode(act)
		tx.Execer = ru.execerOf(t, forward, "evm")
	case "realblocked", "realok", "realsame", "realsameblocked":
		// coins transfer: the payload names the recipient (GetRealToAddr reads it on a parachain node)
		tx.Execer = ru.execerOf(t, forward, "coins")
		pto := keyAddr[int((t.Uniq+1)%3)]
		tx.To = address.ExecAddress(string(tx.Execer))
		switch t.To {
		case "realblocked":
			pto = keyAddr[kBlockedTo]
		case "realsame":
			tx.To = pto
		case "realsameblocked":
			pto = keyAddr[kBlockedTo]
			tx.To = pto
		}
		// the secp256k1eth verifier reads a non-empty Note of a coins transfer as the original eth transaction:
		// an eth-signed transfer carries no padding
		var note []byte
		if t.Sender != kEth0 && t.Sender != kEth1 {
			note = make([]byte, t.Pad)
		}
		act := &cty.CoinsAction{Ty: cty.CoinsActionTransfer, Value: &cty.CoinsAction_Transfer{
			Transfer: &types.AssetsTransfer{Amount: int64(t.Uniq), To: pto, Note: note}}}
		tx.Payload = types.Encode(act)
	default:
		tx.To = keyAddr[int(t.Uniq%3)]
	}
	if t.ChainBad {
		tx.ChainID = ru.cfg.GetChainID() + 1
	}
	return tx
}

// blFacts: the blacklist facts of a transaction by construction (bits of Model.v t_bl)
func (ru *run) blFacts(t txSpec, sender int, tx *types.Transaction) int {
	bl := 0
	if sender == kBlocked {
		bl |= 1
	}
	toListed := t.To == "blocked" || t.To == "realsameblocked"
	if toListed {
		bl |= 2
	}
	diff, realListed := false, toListed
	if ru.spec.Para && (t.To == "realblocked" || t.To == "realok") && t.Exec != "notitle" {
		// the coins executor type is bound to this history's parachain configuration (whatever the title;
		// "user.p.foo" names no executor type)
		diff, realListed = true, t.To == "realblocked"
	}
	if diff {
		bl |= 4
	}
	if realListed {
		bl |= 8
	}
	if t.Exec != "notitle" { // "user.p.foo" is not an evm execer whatever the payload
		switch t.To {
		case "evmcontract":
			bl |= 16 | 32
		case "evmpara":
			bl |= 16 | 64
		case "evmok":
			bl |= 16
		}
	}
	if (tx.GetRealToAddr() != tx.To) != diff {
		panic(fmt.Sprintf("real recipient label: %q %q %q", tx.Execer, tx.To, tx.GetRealToAddr()))
	}
	return bl
}

func sign(tx *types.Transaction, t txSpec) {
	tx.Signature = nil
	if t.SigMode == "nil" {
		return
	}
	tx.Sign(sigTy[t.Sender], privs[t.Sender])
	switch t.SigMode {
	case "flip":
		s := tx.Signature.Signature
		s[len(s)-3] ^= 0x55
	case "other":
		tx.Signature.Ty = sigTy[t.Other]
		tx.Signature.Pubkey = privs[t.Other].PubKey().Bytes()
	}
}

func owed(tx *types.Transaction, rate int64) int64 {
	sz := types.Size(tx)
	if tx.Signature == nil {
		sz += 300
	}
	return int64(sz/1000+1) * rate
}

func (ru *run) factsOf(tx *types.Transaction, t txSpec) facts {
	f := facts{ID: ru.id(tx.Hash()), Sender: t.Sender, HasSig: true, SigOK: t.SigMode == "", ToValid: t.To != "bad",
		OnChain: t.OnChain, Expire: tx.Expire, Fee: tx.Fee, Size: int64(types.Size(tx)), ChainOK: !t.ChainBad,
		Nonce: tx.Nonce, ExecOK: !t.ExecBad, SigID: ru.sigID(tx.Signature)}
	switch t.SigMode {
	case "nil":
		f.HasSig, f.Sender = false, noSigID
	case "other":
		f.Sender = t.Other
	}
	f.Eth = f.HasSig && (f.Sender == kEth0 || f.Sender == kEth1)
	f.Bl = ru.blFacts(t, f.Sender, tx)
	f.Para = paraID(tx.Execer)
	// sanity of the labels that are cheap to cross-check without running the code under test
	if tx.Signature != nil && tx.From() != keyAddr[f.Sender] {
		panic("sender label")
	}
	if t.OnChain {
		ru.onCh[string(tx.Hash())] = true
	}
	if t.ExecBad {
		ru.exBad[string(tx.Hash())] = true
	}
	return f
}

func rawOf(addr string) []byte {
	a, err := address.NewBtcAddress(addr)
	if err != nil {
		panic(err)
	}
	return append([]byte{}, a.Hash160[:]...)
}

func decodesAsGroup(h []byte) (bool, int) {
	var g types.Transactions
	if types.Decode(h, &g) != nil {
		return false, 0
	}
	return true, len(g.Txs)
}

func (ru *run) build(s subSpec) *built {
	b := &built{struOK: true}
	rate := ru.spec.MinFee
	switch s.Kind {
	case "nil", "baddata":
		b.nilMsg = true
		return b
	case "ref":
		c := *ru.subs[s.Ref]
		return &c
	case "plain", "badcount", "strayhdr", "undecodable":
		t := s.Txs[0]
		tx := ru.body(t, s.Forward)
		switch s.Kind {
		case "badcount":
			tx.GroupCount = s.BadCount
		case "strayhdr":
			if t.Uniq%2 == 0 {
				tx.Header = []byte{1, 2, 3}
			} else {
				tx.Next = []byte{4, 5, 6}
			}
		case "undecodable":
			tx.GroupCount = 2
			tx.Header = []byte{0xff, 0xff, 0xff, 0x07}
		}
		for i := 0; i < 3; i++ {
			sign(tx, t)
			fee := owed(tx, rate*t.FeeK) + t.FeeDelta
			if t.FeeAbs != nil {
				fee = *t.FeeAbs
			}
			if tx.Fee == fee {
				break
			}
			tx.Fee = fee
		}
		sign(tx, t)
		b.tx, b.outer = tx, ru.factsOf(tx, t)
		b.shape = "plain"
		if s.Kind != "plain" {
			b.shape = "bad"
		}
		ru.checkForward(b)
		return b
	}
	// groups
	var ms []*types.Transaction
	for _, t := range s.Txs {
		ms = append(ms, ru.body(t, s.Forward))
	}
	g := &types.Transactions{Txs: ms}
	n := int32(len(ms))
	finish := func() {
		for i := range ms {
			ms[i].GroupCount = n
			if s.Kind == "group1" {
				ms[i].GroupCount = 2
			}
			ms[i].Fee = 0
		}
		if s.MemberFee > 0 && s.MemberFee < len(ms) {
			ms[s.MemberFee].Fee = 1000
		}
		for round := 0; round < 3; round++ {
			g.RebuiltGroup()
			for i := range ms {
				sign(ms[i], s.Txs[i])
			}
			var tot int64
			for i := range ms {
				tot += owed(ms[i], rate*s.Txs[0].FeeK)
			}
			fee := tot + s.Txs[0].FeeDelta
			if s.Txs[0].FeeAbs != nil {
				fee = *s.Txs[0].FeeAbs
			}
			if ms[0].Fee == fee {
				break
			}
			ms[0].Fee = fee
		}
		g.RebuiltGroup()
		for i := range ms {
			sign(ms[i], s.Txs[i])
		}
	}
	cond := func() bool {
		ok, cnt := decodesAsGroup(ms[0].Header)
		if s.HdrEmpty {
			return ok && cnt == 0
		}
		return !ok
	}
	// the group header hash must (not) decode as an empty Transactions message
	last := len(ms) - 1
	ctr := uint64(0)
	for round := 0; ; round++ {
		finish()
		if cond() {
			break
		}
		if round > 20 {
			panic("header grinding does not settle")
		}
		for !cond() {
			ctr++
			if ctr > 400000 {
				panic("header grinding failed")
			}
			ms[last].Nonce = s.Txs[last].Nonce + int64(ctr)<<24
			g.RebuiltGroup() // hashes only; finish() redoes the signatures
		}
	}
	switch s.Struct {
	case "next":
		ms[len(ms)-1].Next = []byte{9, 9, 9}
	case "count":
		for i := range ms {
			ms[i].GroupCount = n + 1
		}
	case "header":
		ms[len(ms)-1].Header = append([]byte{}, ms[0].Header[1:]...)
	}
	if s.Struct != "" {
		b.struOK = false
		for i := range ms {
			sign(ms[i], s.Txs[i])
		}
	}
	var outer *types.Transaction
	if s.Kind == "group1" {
		outer = types.CloneTx(ms[0])
		outer.Header = types.Encode(g)
	} else {
		outer = g.Tx()
	}
	b.shape = "group"
	hdrEmp := false
	if ok, cnt := decodesAsGroup(ms[0].Header); ok && cnt == 0 && s.Struct == "" {
		hdrEmp = true
	}
	for i, t := range s.Txs {
		f := ru.factsOf(ms[i], t)
		f.HdrEmp = hdrEmp
		b.members = append(b.members, f)
	}
	b.memTxs = ms
	of := b.members[0]
	of.HdrEmp = false
	switch s.Wrap {
	case "sig": // another account's public key on the wrapper (refused by mempool isGroupHead since the fix of finding 2)
		outer.Signature = &types.Signature{Ty: sigTy[s.WrapSender], Pubkey: privs[s.WrapSender].PubKey().Bytes(), Signature: []byte{1}}
		of.Sender, of.SigOK = s.WrapSender, false
	case "fee":
		outer.Fee += 1000
		of.SigOK = false
	case "eth":
		outer.Signature = &types.Signature{Ty: sigTy[s.WrapSender], Pubkey: privs[s.WrapSender].PubKey().Bytes(), Signature: []byte{1}}
		outer.Nonce = s.WrapNonce
		of.Sender, of.SigOK = s.WrapSender, false
	case "sigbytes": // the first member's sign type and public key, other signature bytes
		if hs := ms[0].Signature; hs != nil {
			sb := append([]byte{}, hs.Signature...)
			sb[len(sb)/2] ^= 0x21
			outer.Signature = &types.Signature{Ty: hs.Ty, Pubkey: hs.Pubkey, Signature: sb}
			of.SigOK = false
		}
	case "nosig": // wrapper without Signature (as if cloned before the members were signed)
		if ms[0].Signature != nil {
			outer.Signature = nil
			of.HasSig, of.Sender, of.SigOK = false, noSigID, false
		}
	}
	of.SigID = ru.sigID(outer.Signature)
	of.ID = ru.id(outer.Hash())
	of.Fee, of.Nonce, of.Size = outer.Fee, outer.Nonce, int64(types.Size(outer))
	of.Eth = of.HasSig && (of.Sender == kEth0 || of.Sender == kEth1)
	of.Bl = b.members[0].Bl &^ 1 // recipient, payload: the first member's; sender: the wrapper's own signature
	if of.Sender == kBlocked {
		of.Bl |= 1
	}
	of.HasG, of.GExp = true, nil
	for _, m := range ms {
		of.GExp = append(of.GExp, m.Expire)
	}
	if s.Txs[0].ExecBad {
		ru.exBad[string(outer.Hash())] = true
	}
	if outer.Signature != nil && outer.From() != keyAddr[of.Sender] {
		panic("wrapper sender label")
	}
	b.tx, b.outer = outer, of
	ru.checkForward(b)
	return b
}

// checkForward: the forwarding label by construction (parachain node, execer of the submitted transaction is
// not this parachain's) against types.IsForward2MainChainTx
func (ru *run) checkForward(b *built) {
	b.forward = ru.spec.Para && paraID(b.tx.Execer) != 2
	if types.IsForward2MainChainTx(ru.cfg, b.tx) != b.forward {
		panic("forward label")
	}
}

// ---------------------------------------------------------------- scripted neighbour modules

func (ru *run) serve(topic string, h func(c queue.Client, m *queue.Message)) {
	c := ru.q.Client()
	c.Sub(topic)
	go func() {
		for m := range c.Recv() {
			h(c, m)
		}
	}()
}

func newRun(spec histSpec) *run {
	ru := &run{spec: spec, onCh: map[string]bool{}, exBad: map[string]bool{}, idOf: map[string]int{}, sigOf: map[string]int{}}
	ru.cfg = getCfg(spec.Para, spec.MaxTxNum, spec.Forks)
	// GetRealToAddr of the coins executor type reads the configuration the type is bound to
	types.LoadExecutorType("coins").SetConfig(ru.cfg)
	ru.now = time.Now().Unix() - 100
	ru.bt = ru.now - spec.BtBack
	ru.clock, ru.height = ru.now, spec.Height
	setNow(ru.now)
	ru.q = queue.New("channel")
	ru.q.SetConfig(ru.cfg)
	ru.serve("blockchain", func(c queue.Client, m *queue.Message) {
		switch m.Ty {
		case types.EventGetLastHeader:
			m.Reply(c.NewMessage("", types.EventHeader, &types.Header{Height: spec.Height, BlockTime: ru.bt}))
		case types.EventIsSync:
			m.Reply(c.NewMessage("", types.EventReplyIsSync, &types.IsCaughtUp{Iscaughtup: spec.Synced}))
		case types.EventTxHashList:
			var dup [][]byte
			ru.mu.Lock()
			for _, h := range m.Data.(*types.TxHashList).Hashes {
				if ru.onCh[string(h)] {
					dup = append(dup, h)
				}
			}
			ru.mu.Unlock()
			m.Reply(c.NewMessage("", types.EventTxHashListReply, &types.TxHashList{Hashes: dup}))
		}
	})
	ru.serve("execs", func(c queue.Client, m *queue.Message) {
		if m.Ty == types.EventCheckTx {
			res := &types.ReceiptCheckTxList{}
			ru.mu.Lock()
			for _, tx := range m.GetData().(*types.ExecTxList).Txs {
				if ru.exBad[string(tx.Hash())] {
					res.Errs = append(res.Errs, execReject)
				} else {
					res.Errs = append(res.Errs, "")
				}
			}
			ru.mu.Unlock()
			m.Reply(c.NewMessage("", types.EventReceiptCheckTx, res))
		}
	})
	ru.serve("rpc", func(c queue.Client, m *queue.Message) {
		if m.Ty == types.EventGetEvmNonce {
			var n int64
			switch m.GetData().(*types.ReqEvmAccountNonce).Addr {
			case keyAddr[kEth0]:
				n = spec.Nonces[0]
			case keyAddr[kEth1]:
				n = spec.Nonces[1]
			}
			m.Reply(c.NewMessage("", types.EventGetEvmNonce, &types.EvmAccountNonce{Nonce: n}))
		}
	})
	ru.serve("p2p", func(c queue.Client, m *queue.Message) {})
	mcfg := &types.Mempool{Name: "timeline", PoolCacheSize: spec.Cap, MaxTxNumPerAccount: spec.PerSender, MaxTxLast: 10,
		MinTxFeeRate: spec.MinFee, MaxTxFeeRate: spec.MaxRate, IsLevelFee: spec.Level, DisableExecCheck: spec.DisableExec}
	ru.mem = mempool.NewMempool(mcfg)
	ru.mem.SetQueueCache(mempool.NewSimpleQueue(mempool.SubConfig{PoolCacheSize: spec.Cap, ProperFee: spec.MinFee}))
	ru.mem.SetQueueClient(ru.q.Client())
	if spec.Synced {
		ru.mem.Wait()
	} else {
		time.Sleep(30 * time.Millisecond) // pollLastHeader has long answered; checkSync keeps polling
	}
	for i := 0; ru.mem.GetHeader() == nil; i++ {
		if i > 500 {
			panic("header not set")
		}
		time.Sleep(10 * time.Millisecond)
	}
	ru.cli = ru.q.Client()
	return ru
}

func (ru *run) close() {
	closers.Add(1)
	go func() { // an unsynced pool's checkSync goroutine sleeps up to 1 s before it notices the close
		defer closers.Done()
		ru.mem.Close()
		ru.q.Close()
	}()
}

// setNow pins types.Now() to second v (50 ms into it: the step has 0.95 s of real time before the second rolls)
func setNow(v int64) {
	types.SetTimeDelta(v*int64(time.Second) + int64(time.Second)/20 - time.Now().UnixNano())
}

func (ru *run) ask(topic string, ty int64, data interface{}) *queue.Message {
	m := ru.cli.NewMessage(topic, ty, data)
	if err := ru.cli.Send(m, true); err != nil {
		panic(err)
	}
	r, err := ru.cli.WaitTimeout(m, 20*time.Second)
	if err != nil {
		panic(fmt.Sprintf("no reply to %d: %v", ty, err))
	}
	return r
}

type obsT struct {
	Reply   int    `json:"reply"`
	Msg     string `json:"msg,omitempty"`
	Present []int  `json:"present"`
	Size    int64  `json:"size"`
}

func (ru *run) submit(b *built) obsT {
	var data interface{}
	if !b.nilMsg {
		data = types.CloneTx(b.tx)
	}
	return ru.send(types.EventTx, data)
}

// delay: EventAddDelayTx
func (ru *run) delay(s subSpec, b *built) obsT {
	switch s.Kind {
	case "baddata":
		return ru.send(types.EventAddDelayTx, &types.ReqNil{})
	case "nil":
		return ru.send(types.EventAddDelayTx, &types.DelayTx{EndDelayTime: b.end})
	}
	return ru.send(types.EventAddDelayTx, &types.DelayTx{Tx: types.CloneTx(b.tx), EndDelayTime: b.end})
}

func (ru *run) endOf(s subSpec) int64 {
	switch s.EndMode {
	case "bt":
		return ru.bt + s.EndOff
	case "height":
		return s.EndOff
	}
	return s.EndOff
}

// blockOf: the block of an EventAddBlock step
func (ru *run) blockOf(s subSpec, commits []*built) *types.Block {
	blk := &types.Block{Height: s.BH, BlockTime: ru.bt + s.BBT}
	for _, i := range s.BTxs {
		b := ru.subs[i]
		if b == nil || b.nilMsg || b.tx == nil {
			continue
		}
		txs := []*types.Transaction{b.tx}
		if b.shape == "group" {
			txs = b.memTxs
		}
		for _, tx := range txs {
			blk.Txs = append(blk.Txs, types.CloneTx(tx))
		}
	}
	for k, c := range commits {
		act := &nty.NoneAction{Ty: nty.TyCommitDelayTxAction, Value: &nty.NoneAction_CommitDelayTx{CommitDelayTx: &nty.CommitDelayTx{
			DelayTx: common.ToHex(types.Encode(c.tx)), RelativeDelayTime: c.rt, RelativeDelayHeight: c.rh}}}
		tx := &types.Transaction{Execer: []byte(ru.title() + "none"), Payload: types.Encode(act), To: keyAddr[0],
			Nonce: int64(len(ru.hashes)*100 + k), ChainID: ru.cfg.GetChainID()}
		tx.Sign(sigTy[0], privs[0])
		blk.Txs = append(blk.Txs, tx)
	}
	return blk
}

// block: EventAddBlock (not answered), then wait until the event loop has handled it and the goroutine that
// re-submits released delayed transactions is at rest
func (ru *run) block(s subSpec, commits []*built) obsT {
	ru.clock = ru.now + s.BNow
	setNow(ru.clock)
	blk := ru.blockOf(s, commits)
	ru.mu.Lock()
	for _, tx := range blk.Txs {
		ru.onCh[string(tx.Hash())] = true
	}
	ru.mu.Unlock()
	m := ru.cli.NewMessage("mempool", types.EventAddBlock, &types.BlockDetail{Block: blk})
	if err := ru.cli.Send(m, true); err != nil {
		panic(err)
	}
	ru.ask("mempool", types.EventGetMempoolSize, nil)
	quiesce()
	if types.Now().Unix() != ru.clock {
		ru.slipped = true
	}
	return obsT{}
}

// quiesce: every pushDelayTxRoutine goroutine of the process is parked in its own select (a goroutine that has
// been handed a list is runnable or deeper in SendTx), seen twice in a row
func quiesce() {
	idle := 0
	buf := make([]byte, 1<<20)
	for i := 0; idle < 2; i++ {
		if i > 200000 {
			panic("the delayed-transaction goroutine does not come to rest")
		}
		n := runtime.Stack(buf, true)
		for n == len(buf) {
			buf = make([]byte, 2*len(buf))
			n = runtime.Stack(buf, true)
		}
		ok := true
		for _, g := range strings.Split(string(buf[:n]), "\n\n") {
			if !strings.Contains(g, ").pushDelayTxRoutine") {
				continue
			}
			ls := strings.SplitN(g, "\n", 3)
			if len(ls) < 2 || !strings.Contains(ls[0], "[select") || !strings.Contains(ls[1], ").pushDelayTxRoutine(") {
				ok = false
			}
		}
		if ok {
			idle++
		} else {
			idle = 0
			time.Sleep(300 * time.Microsecond)
		}
	}
}

func (ru *run) send(ty int64, data interface{}) obsT {
	setNow(ru.clock)
	r := ru.ask("mempool", ty, data)
	rep, ok := r.GetData().(*types.Reply)
	var o obsT
	switch {
	case !ok:
		o.Reply, o.Msg = 98, fmt.Sprintf("%T", r.GetData())
	case rep.IsOk:
		o.Reply = 0
	default:
		o.Reply, o.Msg = classify(string(rep.Msg)), string(rep.Msg)
	}
	if types.Now().Unix() != ru.clock {
		ru.slipped = true
	}
	return o
}

func (ru *run) membership(o *obsT) {
	o.Present = []int{}
	var req types.ReqTxHashList
	for _, h := range ru.hashes {
		req.Hashes = append(req.Hashes, string(h))
	}
	if len(req.Hashes) > 0 {
		l := ru.ask("mempool", types.EventTxListByHash, &req).GetData().(*types.ReplyTxList)
		for i, tx := range l.Txs {
			if tx != nil && bytes.Equal(tx.Hash(), ru.hashes[i]) {
				o.Present = append(o.Present, i+1)
			}
		}
	}
	o.Size = ru.ask("mempool", types.EventGetMempoolSize, nil).GetData().(*types.MempoolSize).Size
}

// ---------------------------------------------------------------- Coq rendering

func zl(v int64) string {
	if v < 0 {
		return fmt.Sprintf("(%d)", v)
	}
	return fmt.Sprintf("%d", v)
}

func zlist(xs []int64) string {
	var s []string
	for _, x := range xs {
		s = append(s, zl(x))
	}
	return hlib.List(s)
}

// coqTx: the facts of a transaction when it is handed over (on-chain: what the scripted blockchain module
// answers from now on)
func (ru *run) coqTx(f facts) string {
	ru.mu.Lock()
	onch := f.OnChain || ru.onCh[string(ru.hashes[f.ID-1])]
	ru.mu.Unlock()
	g := "None"
	if f.HasG {
		g = "(Some " + zlist(f.GExp) + ")"
	}
	return hlib.App("mkTx", hlib.N(uint64(f.ID)), hlib.N(uint64(f.Sender)), hlib.Bool(f.HasSig), hlib.Bool(f.SigOK),
		hlib.Bool(f.ToValid), hlib.N(uint64(f.Bl)), hlib.Bool(onch), zl(f.Expire), hlib.Bool(f.HdrEmp), zl(f.Fee),
		zl(f.Size), hlib.Bool(f.ChainOK), hlib.Bool(f.Eth), zl(f.Nonce), hlib.Bool(f.ExecOK), hlib.N(uint64(f.SigID)),
		hlib.N(uint64(f.Para)), g)
}

func (ru *run) coqSubOnly(b *built) string {
	sh := "Plain"
	switch b.shape {
	case "bad":
		sh = "BadShape"
	case "group":
		var ms []string
		for _, m := range b.members {
			ms = append(ms, ru.coqTx(m))
		}
		sh = hlib.App("Group", hlib.List(ms), hlib.Bool(b.struOK))
	}
	return hlib.App("mkSub", ru.coqTx(b.outer), sh, hlib.Bool(b.forward))
}

func (ru *run) coqSub(b *built) string {
	if b.nilMsg {
		return "SNil"
	}
	return hlib.App("STx", ru.coqSubOnly(b))
}

func (ru *run) coqDelay(s subSpec, b *built) string {
	switch s.Kind {
	case "baddata":
		return "DBad"
	case "nil":
		return hlib.App("DNil", zl(b.end))
	}
	return hlib.App("DTx", ru.coqSubOnly(b), zl(b.end))
}

func (ru *run) coqBlock(s subSpec, commits []*built) string {
	var ids, cs []string
	for _, i := range s.BTxs {
		b := ru.subs[i]
		if b == nil || b.nilMsg || b.tx == nil {
			continue
		}
		if b.shape == "group" {
			for _, m := range b.members {
				ids = append(ids, hlib.N(uint64(m.ID)))
			}
		} else {
			ids = append(ids, hlib.N(uint64(b.outer.ID)))
		}
	}
	for _, c := range commits {
		cs = append(cs, "("+ru.coqSubOnly(c)+", "+zl(c.rt)+", "+zl(c.rh)+")")
	}
	return hlib.App("mkB", zl(s.BH), zl(ru.bt+s.BBT), zl(ru.now+s.BNow), hlib.List(ids), hlib.List(cs))
}

func nlist(xs []int) string {
	var s []string
	for _, x := range xs {
		s = append(s, hlib.N(uint64(x)))
	}
	return hlib.List(s)
}

func (ru *run) coqCfg() string {
	s := ru.spec
	f := s.Forks
	for _, x := range []struct {
		n string
		h int64
	}{{types.ForkTxChainIDStrict, f.Strict}, {"ForkBlockCheck", f.BlockCheck}, {"ForkTxHeight", f.TxHeight}, {"ForkTxGroupPara", f.ParaFork}} {
		if ru.cfg.GetFork(x.n) != x.h {
			panic("fork height not effective: " + x.n)
		}
	}
	return hlib.App("mkS", hlib.Bool(s.Synced), hlib.Bool(s.Para), zl(f.Strict), zl(f.BlockCheck), zl(f.TxHeight), zl(f.ParaFork),
		hlib.Bool(ru.cfg.IsEnable("TxHeight")),
		zl(s.MinFee), zl(ru.cfg.GetMaxTxFee(s.Height+1)), hlib.Bool(s.Level), zl(s.MaxRate), zl(int64(s.MaxTxNum)),
		zl(s.PerSender), zl(s.Cap), hlib.Bool(!s.DisableExec),
		hlib.List([]string{hlib.Pair(hlib.N(kEth0), zl(s.Nonces[0])), hlib.Pair(hlib.N(kEth1), zl(s.Nonces[1]))})) +
		" " + hlib.App("mkH", zl(s.Height), zl(ru.bt), zl(ru.now))
}

func runHist(o *hlib.Out, spec histSpec) {
	for try := 0; ; try++ {
		if runHistOnce(o, spec) {
			return
		}
		if try >= 6 {
			fmt.Println("virtual clock slipped in 7 runs of one history")
			os.Exit(3)
		}
		nSlip++
	}
}

func runHistOnce(o *hlib.Out, spec histSpec) bool {
	ru := newRun(spec)
	defer ru.close()
	var commits [][]*built
	for _, s := range spec.Subs {
		var b *built
		var cs []*built
		if s.Kind == "block" {
			for _, c := range s.Commits {
				cb := ru.build(c)
				cb.rt, cb.rh = c.RelTime, c.RelH
				cs = append(cs, cb)
			}
			b = &built{nilMsg: true}
		} else {
			b = ru.build(s)
			if s.Op == "delay" {
				b.end = ru.endOf(s)
			}
		}
		ru.subs = append(ru.subs, b)
		commits = append(commits, cs)
	}
	var steps []string
	var impl []obsT
	admitted, rejected := 0, 0
	for i, s := range spec.Subs {
		b := ru.subs[i]
		var term string
		var ob obsT
		switch {
		case s.Kind == "block":
			term = hlib.App("OBlock", ru.coqBlock(s, commits[i]))
			ob = ru.block(s, commits[i])
		case s.Op == "delay":
			term = hlib.App("ODelay", ru.coqDelay(s, b))
			ob = ru.delay(s, b)
			if ob.Reply == 0 {
				admitted++
			} else {
				rejected++
			}
		default:
			term = hlib.App("OTx", ru.coqSub(b))
			ob = ru.submit(b)
			if ob.Reply == 0 {
				admitted++
			} else {
				rejected++
			}
		}
		ru.membership(&ob)
		impl = append(impl, ob)
		steps = append(steps, "("+term+", "+hlib.N(uint64(ob.Reply))+", "+nlist(ob.Present)+", "+zl(ob.Size)+")")
	}
	if ru.slipped {
		return false
	}
	nSub += len(spec.Subs)
	o.Emit(spec.Stream, admitted > 0 && rejected > 0, hlib.App("CHist", ru.coqCfg(), hlib.List(steps)), spec, impl)
	return true
}

func main() {
	opts := hlib.ParseFlags()
	log.Root().SetHandler(log.DiscardHandler())
	initKeys()
	initErrClasses()
	blockedRaw = rawOf(keyAddr[kBlockedTo])
	restore := types.SetBlockedAccountsForTest([]string{keyAddr[kBlocked], keyAddr[kBlockedTo]})
	defer restore()
	o := hlib.NewOut(opts.OutDir)
	defer o.Close()
	defer closers.Wait()

	if opts.Replay != "" {
		var in histSpec
		if err := hlib.ReplayInput(opts.Replay, &in); err != nil {
			panic(err)
		}
		runHist(o, in)
		return
	}
	for _, h := range witnesses(opts.Seed) {
		runHist(o, h)
	}
	for _, h := range clauseMatrix(opts.Seed) {
		runHist(o, h)
	}
	for _, gen := range []func(uint64) []histSpec{paraTitles, realTo, headerScenario, delayScenario} {
		for _, h := range gen(opts.Seed) {
			runHist(o, h)
		}
	}
	nG, nU, nM := 18, 10, 16
	if opts.Thorough() {
		nG, nU, nM = 600, 300, 500
	}
	for i := 0; i < nM; i++ {
		runHist(o, movingHist("moving", opts.Seed, i, opts.Thorough()))
	}
	for i := 0; i < nG; i++ {
		runHist(o, genHist("guarded", opts.Seed, i, opts.Thorough()))
	}
	for i := 0; i < nU; i++ {
		runHist(o, genHist("unrestricted", opts.Seed, i, opts.Thorough()))
	}
	types.SetTimeDelta(0)
	fmt.Printf("cases: %d submissions: %d clock slips: %d\n", o.Count(), nSub, nSlip)
}
