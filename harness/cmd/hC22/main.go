// hC22: drives the real mempool admission pipeline (system/mempool: eventTx ->
// checkTxs -> checkSign -> checkTxRemote -> txCache.Push, running in the
// module's own goroutines) through EventTx messages on a message queue whose
// other modules (blockchain, execs, rpc, p2p) are scripted, and records for
// every submission the reply class and the pool membership of every hash of
// the history (EventTxListByHash / EventGetMempoolSize).
//
// Every elementary fact about a generated transaction (signature valid, to
// valid, blacklisted, on chain, ...) is known by construction: the generator
// chooses it and the builder makes a real transaction that has it.
// No hook file is needed.
package main

import (
	"bytes"
	"encoding/binary"
	"fmt"
	"os"
	"strings"
	"sync"
	"time"

	"github.com/33cn/chain33/common/address"
	"github.com/33cn/chain33/common/crypto"
	log "github.com/33cn/chain33/common/log/log15"
	"github.com/33cn/chain33/queue"
	_ "github.com/33cn/chain33/system"
	"github.com/33cn/chain33/system/mempool"
	"github.com/33cn/chain33/types"
	"verifharness/hlib"
)

// ---------------------------------------------------------------- keys, addresses, configurations

const (
	kBlocked   = 3 // sender key whose address is on the blacklist
	kEth0      = 4
	kEth1      = 5
	kBlockedTo = 6 // never a sender; its address is a blacklisted recipient
	nKeys      = 7
	noSigID    = 9 // sender id of a transaction without Signature
	execReject = "verif-exec-reject"
)

var (
	privs      []crypto.PrivKey
	sigTy      []int32
	keyAddr    []string
	blockedRaw []byte
	cfgs       = map[string]*types.Chain33Config{}
	errCls     = map[string]int{}
	closers    sync.WaitGroup
	nSub       int
)

func initKeys() {
	c1, err := crypto.Load(types.GetSignName("", types.SECP256K1), -1)
	if err != nil {
		panic(err)
	}
	ce, err := crypto.Load("secp256k1eth", -1)
	if err != nil {
		panic(err)
	}
	ethTy := types.EncodeSignID(types.SECP256K1ETH, 2)
	if !types.IsEthSignID(ethTy) {
		panic("eth sign id")
	}
	for i := 0; i < nKeys; i++ {
		b := make([]byte, 32)
		for j := range b {
			b[j] = byte(0x11*(i+1) + j)
		}
		drv, ty := c1, int32(types.SECP256K1)
		if i == kEth0 || i == kEth1 {
			drv, ty = ce, ethTy
		}
		p, err := drv.PrivKeyFromBytes(b)
		if err != nil {
			panic(err)
		}
		privs = append(privs, p)
		sigTy = append(sigTy, ty)
		keyAddr = append(keyAddr, address.PubKeyToAddr(types.ExtractAddressID(ty), p.PubKey().Bytes()))
	}
}

func getCfg(para bool, maxTxNum int) *types.Chain33Config {
	k := fmt.Sprintf("%v/%d", para, maxTxNum)
	if c, ok := cfgs[k]; ok {
		return c
	}
	s := types.GetDefaultCfgstring()
	if para {
		s = strings.Replace(s, `Title="local"`, `Title="user.p.test."`, 1)
	}
	s = strings.Replace(s, "maxTxNumber = 10000", fmt.Sprintf("maxTxNumber = %d", maxTxNum), -1)
	c := types.NewChain33Config(s)
	if c.IsPara() != para || c.GetP(1).MaxTxNumber != int64(maxTxNum) || c.GetP(50).MaxTxNumber != int64(maxTxNum) {
		panic("configuration variant not effective")
	}
	cfgs[k] = c
	return c
}

func initErrClasses() {
	for e, c := range map[error]int{
		types.ErrNotSync: 1, types.ErrEmptyTx: 2,
		types.ErrTxGroupCount: 3, types.ErrNomalTx: 3, types.ErrTxGroupHeader: 3, types.ErrTxGroupNext: 3,
		types.ErrTxGroupCountBigThanMaxSize: 3, types.ErrTxGroupCountLessThanTwo: 3, types.ErrTxGroupEmpty: 3,
		types.ErrTxChainID: 4, types.ErrTxFeeTooLow: 5, types.ErrTxFeeTooHigh: 6, types.ErrTxMsgSizeTooBig: 7,
		types.ErrTxGroupFeeNotZero: 8, types.ErrInvalidAddress: 9, types.ErrManyTx: 11, types.ErrTxExpire: 12,
		types.ErrSign: 13, types.ErrDupTx: 14, types.ErrLowNonce: 16, types.ErrTxExist: 18, types.ErrMemFull: 19,
	} {
		errCls[e.Error()] = c
	}
	errCls[execReject] = 15
	errCls["disable transaction acceleration"] = 17
}

func classify(msg string) int {
	if c, ok := errCls[msg]; ok {
		return c
	}
	if strings.HasPrefix(msg, types.ErrBlockedAccount.Error()) {
		return 10
	}
	if strings.Contains(msg, "proto") || strings.Contains(msg, "EOF") || strings.Contains(msg, "unmarshal") {
		return 3 // undecodable group header
	}
	return 99
}

// ---------------------------------------------------------------- history description (replayable)

type txSpec struct {
	Uniq     uint64 `json:"uniq"`
	Sender   int    `json:"sender"`
	SigMode  string `json:"sig,omitempty"`   // "" ok | flip | nil | other
	Other    int    `json:"other,omitempty"` // "other": public key of this account, signature of Sender
	To       string `json:"to,omitempty"`    // "" valid | bad | blocked | evmcontract | evmpara | evmok
	ExpMode  string `json:"exp,omitempty"`   // "" none | height | bt | now | txheight | abs
	ExpOff   int64  `json:"expoff,omitempty"`
	FeeK     int64  `json:"feek"` // fee = owed(rate MinFee*FeeK) + FeeDelta (head of a group: sum over members)
	FeeDelta int64  `json:"feed,omitempty"`
	FeeAbs   *int64 `json:"feeabs,omitempty"` // overrides
	Pad      int    `json:"pad,omitempty"`    // extra payload bytes
	ChainBad bool   `json:"chainbad,omitempty"`
	Nonce    int64  `json:"nonce"`
	OnChain  bool   `json:"onchain,omitempty"`
	ExecBad  bool   `json:"execbad,omitempty"`
}

type subSpec struct {
	Kind       string   `json:"kind"` // nil plain group group1 badcount strayhdr undecodable ref
	Ref        int      `json:"ref,omitempty"`
	Forward    bool     `json:"forward,omitempty"` // main-chain execer on the parachain node
	Txs        []txSpec `json:"txs,omitempty"`
	MemberFee  int      `json:"memberfee,omitempty"` // index (>=1) of a member given a non-zero fee
	Struct     string   `json:"struct,omitempty"`    // next count header
	HdrEmpty   bool     `json:"hdrempty,omitempty"`  // grind until the group header hash decodes as an empty Transactions
	Wrap       string   `json:"wrap,omitempty"`      // sig fee eth sigbytes nosig
	WrapSender int      `json:"wrapsender,omitempty"`
	WrapNonce  int64    `json:"wrapnonce,omitempty"`
	BadCount   int32    `json:"badcount,omitempty"`
	Viol       []string `json:"viol,omitempty"` // labels only (histogram)
}

type histSpec struct {
	Stream      string    `json:"stream"`
	Seed        uint64    `json:"seed"`
	Index       int       `json:"index"`
	Para        bool      `json:"para"`
	MaxTxNum    int       `json:"maxtxnum"`
	MinFee      int64     `json:"minfee"`
	Level       bool      `json:"level"`
	MaxRate     int64     `json:"maxrate"`
	PerSender   int64     `json:"persender"`
	Cap         int64     `json:"cap"`
	DisableExec bool      `json:"disableexec"`
	Synced      bool      `json:"synced"`
	Height      int64     `json:"height"`
	BtBack      int64     `json:"btback"` // block time = now - BtBack
	Nonces      [2]int64  `json:"nonces"` // current evm nonce of the two eth senders
	Subs        []subSpec `json:"subs"`
}

// ---------------------------------------------------------------- building real transactions

type facts struct {
	ID      int
	Sender  int
	HasSig  bool
	SigOK   bool
	ToValid bool
	Blocked bool
	OnChain bool
	Expire  int64
	HdrEmp  bool
	Fee     int64
	Size    int64
	ChainOK bool
	Eth     bool
	Nonce   int64
	ExecOK  bool
	SigID   int // identity of the Signature message (type, public key, signature bytes); 0 = none/empty
}

type built struct {
	nilMsg  bool
	tx      *types.Transaction
	outer   facts
	shape   string // plain bad group
	members []facts
	memTxs  []*types.Transaction
	struOK  bool
	forward bool
}

type run struct {
	spec   histSpec
	cfg    *types.Chain33Config
	now    int64
	bt     int64
	q      queue.Queue
	cli    queue.Client
	mem    *mempool.Mempool
	mu     sync.Mutex
	onCh   map[string]bool
	exBad  map[string]bool
	idOf   map[string]int
	sigOf  map[string]int
	hashes [][]byte
	subs   []*built
}

func (ru *run) id(h []byte) int {
	if v, ok := ru.idOf[string(h)]; ok {
		return v
	}
	ru.hashes = append(ru.hashes, h)
	ru.idOf[string(h)] = len(ru.hashes)
	return len(ru.hashes)
}

// sigID numbers the distinct Signature messages of a history the way mempool's isGroupHead compares
// them (nil-safe getters: an absent Signature equals an empty one).
func (ru *run) sigID(sg *types.Signature) int {
	if sg.GetTy() == 0 && len(sg.GetPubkey()) == 0 && len(sg.GetSignature()) == 0 {
		return 0
	}
	k := fmt.Sprintf("%d|%x|%x", sg.GetTy(), sg.GetPubkey(), sg.GetSignature())
	if v, ok := ru.sigOf[k]; ok {
		return v
	}
	ru.sigOf[k] = len(ru.sigOf) + 1
	return ru.sigOf[k]
}

func (ru *run) expire(t txSpec) int64 {
	switch t.ExpMode {
	case "height":
		return ru.spec.Height + 1 + t.ExpOff
	case "bt":
		return ru.bt + t.ExpOff
	case "now":
		return ru.now + t.ExpOff
	case "txheight":
		return types.TxHeightFlag + ru.spec.Height + 1 + t.ExpOff
	case "abs":
		return t.ExpOff
	}
	return 0
}

func (ru *run) execer() []byte {
	if ru.spec.Para {
		return []byte("user.p.test.none")
	}
	return []byte("none")
}

func (ru *run) body(t txSpec, forward bool) *types.Transaction {
	p := make([]byte, 8+t.Pad)
	binary.LittleEndian.PutUint64(p, t.Uniq)
	tx := &types.Transaction{Execer: ru.execer(), Payload: p, Expire: ru.expire(t), Nonce: t.Nonce, ChainID: ru.cfg.GetChainID()}
	if forward {
		tx.Execer = []byte("none")
	}
	switch t.To {
	case "bad":
		tx.To = "1VerifNotAnAddressAtAll"
	case "blocked":
		tx.To = keyAddr[kBlockedTo]
	case "evmcontract", "evmpara", "evmok":
		// evm payload: the real target is inside the action (contract address / 20 raw bytes of a transfer)
		tx.To = keyAddr[int(t.Uniq%3)]
		act := &types.EVMContractAction4Chain33{Amount: t.Uniq, Note: "verif", Code: make([]byte, t.Pad)}
		switch t.To {
		case "evmcontract":
			act.ContractAddr = keyAddr[kBlockedTo]
		case "evmpara":
			act.Para = blockedRaw
		default:
			act.ContractAddr, act.Para = keyAddr[int((t.Uniq+1)%3)], rawOf(keyAddr[int((t.Uniq+2)%3)])
		}
		tx.Payload = types.Encode(act)
		tx.Execer = append(bytes.TrimSuffix(tx.Execer, []byte("none")), []byte("evm")...)
	default:
		tx.To = keyAddr[int(t.Uniq%3)]
	}
	if t.ChainBad {
		tx.ChainID = ru.cfg.GetChainID() + 1
	}
	return tx
}

func sign(tx *types.Transaction, t txSpec) {
	tx.Signature = nil
	if t.SigMode == "nil" {
		return
	}
	tx.Sign(sigTy[t.Sender], privs[t.Sender])
	switch t.SigMode {
	case "flip":
		s := tx.Signature.Signature
		s[len(s)-3] ^= 0x55
	case "other":
		tx.Signature.Ty = sigTy[t.Other]
		tx.Signature.Pubkey = privs[t.Other].PubKey().Bytes()
	}
}

func owed(tx *types.Transaction, rate int64) int64 {
	sz := types.Size(tx)
	if tx.Signature == nil {
		sz += 300
	}
	return int64(sz/1000+1) * rate
}

func (ru *run) factsOf(tx *types.Transaction, t txSpec) facts {
	f := facts{ID: ru.id(tx.Hash()), Sender: t.Sender, HasSig: true, SigOK: t.SigMode == "", ToValid: t.To != "bad",
		OnChain: t.OnChain, Expire: tx.Expire, Fee: tx.Fee, Size: int64(types.Size(tx)), ChainOK: !t.ChainBad,
		Nonce: tx.Nonce, ExecOK: !t.ExecBad, SigID: ru.sigID(tx.Signature)}
	switch t.SigMode {
	case "nil":
		f.HasSig, f.Sender = false, noSigID
	case "other":
		f.Sender = t.Other
	}
	f.Eth = f.HasSig && (f.Sender == kEth0 || f.Sender == kEth1)
	f.Blocked = f.Sender == kBlocked || t.To == "blocked" || t.To == "evmcontract" || t.To == "evmpara"
	// sanity of the labels that are cheap to cross-check without running the code under test
	if tx.Signature != nil && tx.From() != keyAddr[f.Sender] {
		panic("sender label")
	}
	if t.OnChain {
		ru.onCh[string(tx.Hash())] = true
	}
	if t.ExecBad {
		ru.exBad[string(tx.Hash())] = true
	}
	return f
}

func rawOf(addr string) []byte {
	a, err := address.NewBtcAddress(addr)
	if err != nil {
		panic(err)
	}
	return append([]byte{}, a.Hash160[:]...)
}

func decodesAsGroup(h []byte) (bool, int) {
	var g types.Transactions
	if types.Decode(h, &g) != nil {
		return false, 0
	}
	return true, len(g.Txs)
}

func (ru *run) build(s subSpec) *built {
	b := &built{struOK: true, forward: s.Forward}
	rate := ru.spec.MinFee
	switch s.Kind {
	case "nil":
		b.nilMsg = true
		return b
	case "ref":
		return ru.subs[s.Ref]
	case "plain", "badcount", "strayhdr", "undecodable":
		t := s.Txs[0]
		tx := ru.body(t, s.Forward)
		switch s.Kind {
		case "badcount":
			tx.GroupCount = s.BadCount
		case "strayhdr":
			if t.Uniq%2 == 0 {
				tx.Header = []byte{1, 2, 3}
			} else {
				tx.Next = []byte{4, 5, 6}
			}
		case "undecodable":
			tx.GroupCount = 2
			tx.Header = []byte{0xff, 0xff, 0xff, 0x07}
		}
		for i := 0; i < 3; i++ {
			sign(tx, t)
			fee := owed(tx, rate*t.FeeK) + t.FeeDelta
			if t.FeeAbs != nil {
				fee = *t.FeeAbs
			}
			if tx.Fee == fee {
				break
			}
			tx.Fee = fee
		}
		sign(tx, t)
		b.tx, b.outer = tx, ru.factsOf(tx, t)
		b.shape = "plain"
		if s.Kind != "plain" {
			b.shape = "bad"
		}
		return b
	}
	// groups
	var ms []*types.Transaction
	for _, t := range s.Txs {
		ms = append(ms, ru.body(t, s.Forward))
	}
	g := &types.Transactions{Txs: ms}
	n := int32(len(ms))
	finish := func() {
		for i := range ms {
			ms[i].GroupCount = n
			if s.Kind == "group1" {
				ms[i].GroupCount = 2
			}
			ms[i].Fee = 0
		}
		if s.MemberFee > 0 && s.MemberFee < len(ms) {
			ms[s.MemberFee].Fee = 1000
		}
		for round := 0; round < 3; round++ {
			g.RebuiltGroup()
			for i := range ms {
				sign(ms[i], s.Txs[i])
			}
			var tot int64
			for i := range ms {
				tot += owed(ms[i], rate*s.Txs[0].FeeK)
			}
			fee := tot + s.Txs[0].FeeDelta
			if s.Txs[0].FeeAbs != nil {
				fee = *s.Txs[0].FeeAbs
			}
			if ms[0].Fee == fee {
				break
			}
			ms[0].Fee = fee
		}
		g.RebuiltGroup()
		for i := range ms {
			sign(ms[i], s.Txs[i])
		}
	}
	cond := func() bool {
		ok, cnt := decodesAsGroup(ms[0].Header)
		if s.HdrEmpty {
			return ok && cnt == 0
		}
		return !ok
	}
	// the group header hash must (not) decode as an empty Transactions message
	last := len(ms) - 1
	ctr := uint64(0)
	for round := 0; ; round++ {
		finish()
		if cond() {
			break
		}
		if round > 20 {
			panic("header grinding does not settle")
		}
		for !cond() {
			ctr++
			if ctr > 400000 {
				panic("header grinding failed")
			}
			ms[last].Nonce = s.Txs[last].Nonce + int64(ctr)<<24
			g.RebuiltGroup() // hashes only; finish() redoes the signatures
		}
	}
	switch s.Struct {
	case "next":
		ms[len(ms)-1].Next = []byte{9, 9, 9}
	case "count":
		for i := range ms {
			ms[i].GroupCount = n + 1
		}
	case "header":
		ms[len(ms)-1].Header = append([]byte{}, ms[0].Header[1:]...)
	}
	if s.Struct != "" {
		b.struOK = false
		for i := range ms {
			sign(ms[i], s.Txs[i])
		}
	}
	var outer *types.Transaction
	if s.Kind == "group1" {
		outer = types.CloneTx(ms[0])
		outer.Header = types.Encode(g)
	} else {
		outer = g.Tx()
	}
	b.shape = "group"
	hdrEmp := false
	if ok, cnt := decodesAsGroup(ms[0].Header); ok && cnt == 0 && s.Struct == "" {
		hdrEmp = true
	}
	for i, t := range s.Txs {
		f := ru.factsOf(ms[i], t)
		f.HdrEmp = hdrEmp
		b.members = append(b.members, f)
	}
	b.memTxs = ms
	of := b.members[0]
	of.HdrEmp = false
	switch s.Wrap {
	case "sig": // another account's public key on the wrapper (refused by mempool isGroupHead since the fix of finding 2)
		outer.Signature = &types.Signature{Ty: sigTy[s.WrapSender], Pubkey: privs[s.WrapSender].PubKey().Bytes(), Signature: []byte{1}}
		of.Sender, of.SigOK = s.WrapSender, false
	case "fee":
		outer.Fee += 1000
		of.SigOK = false
	case "eth":
		outer.Signature = &types.Signature{Ty: sigTy[s.WrapSender], Pubkey: privs[s.WrapSender].PubKey().Bytes(), Signature: []byte{1}}
		outer.Nonce = s.WrapNonce
		of.Sender, of.SigOK = s.WrapSender, false
	case "sigbytes": // the first member's sign type and public key, other signature bytes
		if hs := ms[0].Signature; hs != nil {
			sb := append([]byte{}, hs.Signature...)
			sb[len(sb)/2] ^= 0x21
			outer.Signature = &types.Signature{Ty: hs.Ty, Pubkey: hs.Pubkey, Signature: sb}
			of.SigOK = false
		}
	case "nosig": // wrapper without Signature (as if cloned before the members were signed)
		if ms[0].Signature != nil {
			outer.Signature = nil
			of.HasSig, of.Sender, of.SigOK = false, noSigID, false
		}
	}
	of.SigID = ru.sigID(outer.Signature)
	of.ID = ru.id(outer.Hash())
	of.Fee, of.Nonce, of.Size = outer.Fee, outer.Nonce, int64(types.Size(outer))
	of.Eth = of.HasSig && (of.Sender == kEth0 || of.Sender == kEth1)
	of.Blocked = of.Sender == kBlocked || b.members[0].Blocked
	if s.Txs[0].ExecBad {
		ru.exBad[string(outer.Hash())] = true
	}
	if outer.Signature != nil && outer.From() != keyAddr[of.Sender] {
		panic("wrapper sender label")
	}
	b.tx, b.outer = outer, of
	return b
}

// ---------------------------------------------------------------- scripted neighbour modules

func (ru *run) serve(topic string, h func(c queue.Client, m *queue.Message)) {
	c := ru.q.Client()
	c.Sub(topic)
	go func() {
		for m := range c.Recv() {
			h(c, m)
		}
	}()
}

func newRun(spec histSpec) *run {
	ru := &run{spec: spec, onCh: map[string]bool{}, exBad: map[string]bool{}, idOf: map[string]int{}, sigOf: map[string]int{}}
	ru.cfg = getCfg(spec.Para, spec.MaxTxNum)
	ru.now = time.Now().Unix() - 100
	ru.bt = ru.now - spec.BtBack
	setNow(ru.now)
	ru.q = queue.New("channel")
	ru.q.SetConfig(ru.cfg)
	ru.serve("blockchain", func(c queue.Client, m *queue.Message) {
		switch m.Ty {
		case types.EventGetLastHeader:
			m.Reply(c.NewMessage("", types.EventHeader, &types.Header{Height: spec.Height, BlockTime: ru.bt}))
		case types.EventIsSync:
			m.Reply(c.NewMessage("", types.EventReplyIsSync, &types.IsCaughtUp{Iscaughtup: spec.Synced}))
		case types.EventTxHashList:
			var dup [][]byte
			ru.mu.Lock()
			for _, h := range m.Data.(*types.TxHashList).Hashes {
				if ru.onCh[string(h)] {
					dup = append(dup, h)
				}
			}
			ru.mu.Unlock()
			m.Reply(c.NewMessage("", types.EventTxHashListReply, &types.TxHashList{Hashes: dup}))
		}
	})
	ru.serve("execs", func(c queue.Client, m *queue.Message) {
		if m.Ty == types.EventCheckTx {
			res := &types.ReceiptCheckTxList{}
			ru.mu.Lock()
			for _, tx := range m.GetData().(*types.ExecTxList).Txs {
				if ru.exBad[string(tx.Hash())] {
					res.Errs = append(res.Errs, execReject)
				} else {
					res.Errs = append(res.Errs, "")
				}
			}
			ru.mu.Unlock()
			m.Reply(c.NewMessage("", types.EventReceiptCheckTx, res))
		}
	})
	ru.serve("rpc", func(c queue.Client, m *queue.Message) {
		if m.Ty == types.EventGetEvmNonce {
			var n int64
			switch m.GetData().(*types.ReqEvmAccountNonce).Addr {
			case keyAddr[kEth0]:
				n = spec.Nonces[0]
			case keyAddr[kEth1]:
				n = spec.Nonces[1]
			}
			m.Reply(c.NewMessage("", types.EventGetEvmNonce, &types.EvmAccountNonce{Nonce: n}))
		}
	})
	ru.serve("p2p", func(c queue.Client, m *queue.Message) {})
	mcfg := &types.Mempool{Name: "timeline", PoolCacheSize: spec.Cap, MaxTxNumPerAccount: spec.PerSender, MaxTxLast: 10,
		MinTxFeeRate: spec.MinFee, MaxTxFeeRate: spec.MaxRate, IsLevelFee: spec.Level, DisableExecCheck: spec.DisableExec}
	ru.mem = mempool.NewMempool(mcfg)
	ru.mem.SetQueueCache(mempool.NewSimpleQueue(mempool.SubConfig{PoolCacheSize: spec.Cap, ProperFee: spec.MinFee}))
	ru.mem.SetQueueClient(ru.q.Client())
	if spec.Synced {
		ru.mem.Wait()
	} else {
		time.Sleep(30 * time.Millisecond) // pollLastHeader has long answered; checkSync keeps polling
	}
	for i := 0; ru.mem.GetHeader() == nil; i++ {
		if i > 500 {
			panic("header not set")
		}
		time.Sleep(10 * time.Millisecond)
	}
	ru.cli = ru.q.Client()
	return ru
}

func (ru *run) close() {
	closers.Add(1)
	go func() { // an unsynced pool's checkSync goroutine sleeps up to 1 s before it notices the close
		defer closers.Done()
		ru.mem.Close()
		ru.q.Close()
	}()
}

func setNow(v int64) {
	types.SetTimeDelta(v*int64(time.Second) + int64(time.Second)/2 - time.Now().UnixNano())
}

func (ru *run) ask(topic string, ty int64, data interface{}) *queue.Message {
	m := ru.cli.NewMessage(topic, ty, data)
	if err := ru.cli.Send(m, true); err != nil {
		panic(err)
	}
	r, err := ru.cli.WaitTimeout(m, 20*time.Second)
	if err != nil {
		panic(fmt.Sprintf("no reply to %d: %v", ty, err))
	}
	return r
}

type obsT struct {
	Reply   int    `json:"reply"`
	Msg     string `json:"msg,omitempty"`
	Present []int  `json:"present"`
	Size    int64  `json:"size"`
}

func (ru *run) submit(b *built) obsT {
	setNow(ru.now)
	var data interface{}
	if !b.nilMsg {
		data = types.CloneTx(b.tx)
	}
	r := ru.ask("mempool", types.EventTx, data)
	rep, ok := r.GetData().(*types.Reply)
	var o obsT
	switch {
	case !ok:
		o.Reply, o.Msg = 98, fmt.Sprintf("%T", r.GetData())
	case rep.IsOk:
		o.Reply = 0
	default:
		o.Reply, o.Msg = classify(string(rep.Msg)), string(rep.Msg)
	}
	if types.Now().Unix() != ru.now {
		fmt.Println("virtual clock slipped")
		os.Exit(3)
	}
	return o
}

func (ru *run) membership(o *obsT) {
	o.Present = []int{}
	var req types.ReqTxHashList
	for _, h := range ru.hashes {
		req.Hashes = append(req.Hashes, string(h))
	}
	if len(req.Hashes) > 0 {
		l := ru.ask("mempool", types.EventTxListByHash, &req).GetData().(*types.ReplyTxList)
		for i, tx := range l.Txs {
			if tx != nil && bytes.Equal(tx.Hash(), ru.hashes[i]) {
				o.Present = append(o.Present, i+1)
			}
		}
	}
	o.Size = ru.ask("mempool", types.EventGetMempoolSize, nil).GetData().(*types.MempoolSize).Size
}

// ---------------------------------------------------------------- Coq rendering

func zl(v int64) string {
	if v < 0 {
		return fmt.Sprintf("(%d)", v)
	}
	return fmt.Sprintf("%d", v)
}

func coqTx(f facts) string {
	return hlib.App("mkTx", hlib.N(uint64(f.ID)), hlib.N(uint64(f.Sender)), hlib.Bool(f.HasSig), hlib.Bool(f.SigOK),
		hlib.Bool(f.ToValid), hlib.Bool(f.Blocked), hlib.Bool(f.OnChain), zl(f.Expire), hlib.Bool(f.HdrEmp), zl(f.Fee),
		zl(f.Size), hlib.Bool(f.ChainOK), hlib.Bool(f.Eth), zl(f.Nonce), hlib.Bool(f.ExecOK), hlib.N(uint64(f.SigID)))
}

func coqSub(b *built) string {
	if b.nilMsg {
		return "SNil"
	}
	sh := "Plain"
	switch b.shape {
	case "bad":
		sh = "BadShape"
	case "group":
		var ms []string
		for _, m := range b.members {
			ms = append(ms, coqTx(m))
		}
		sh = hlib.App("Group", hlib.List(ms), hlib.Bool(b.struOK))
	}
	return hlib.App("STx", hlib.App("mkSub", coqTx(b.outer), sh, hlib.Bool(b.forward)))
}

func nlist(xs []int) string {
	var s []string
	for _, x := range xs {
		s = append(s, hlib.N(uint64(x)))
	}
	return hlib.List(s)
}

func (ru *run) coqCfg() string {
	s := ru.spec
	return hlib.App("mkCfg", hlib.Bool(s.Synced), hlib.Bool(s.Para),
		hlib.Bool(ru.cfg.IsFork(s.Height+1, types.ForkTxChainIDStrict)), hlib.Bool(ru.cfg.IsFork(s.Height+1, "ForkBlockCheck")),
		hlib.Bool(ru.cfg.IsEnableFork(s.Height+1, "ForkTxHeight", ru.cfg.IsEnable("TxHeight"))),
		zl(s.MinFee), zl(ru.cfg.GetMaxTxFee(s.Height+1)), hlib.Bool(s.Level), zl(s.MaxRate), zl(int64(s.MaxTxNum)),
		zl(s.PerSender), zl(s.Cap), hlib.Bool(!s.DisableExec), zl(s.Height), zl(ru.bt), zl(ru.now),
		hlib.List([]string{hlib.Pair(hlib.N(kEth0), zl(s.Nonces[0])), hlib.Pair(hlib.N(kEth1), zl(s.Nonces[1]))}))
}

func runHist(o *hlib.Out, spec histSpec) {
	ru := newRun(spec)
	defer ru.close()
	nSub += len(spec.Subs)
	for _, s := range spec.Subs {
		ru.subs = append(ru.subs, ru.build(s))
	}
	var steps []string
	var impl []obsT
	admitted, rejected := 0, 0
	for _, b := range ru.subs {
		ob := ru.submit(b)
		ru.membership(&ob)
		if ob.Reply == 0 {
			admitted++
		} else {
			rejected++
		}
		impl = append(impl, ob)
		steps = append(steps, "("+coqSub(b)+", "+hlib.N(uint64(ob.Reply))+", "+nlist(ob.Present)+", "+zl(ob.Size)+")")
	}
	kind := spec.Stream
	o.Emit(kind, admitted > 0 && rejected > 0, hlib.App("CHist", ru.coqCfg(), hlib.List(steps)), spec, impl)
}

func main() {
	opts := hlib.ParseFlags()
	log.Root().SetHandler(log.DiscardHandler())
	initKeys()
	initErrClasses()
	blockedRaw = rawOf(keyAddr[kBlockedTo])
	restore := types.SetBlockedAccountsForTest([]string{keyAddr[kBlocked], keyAddr[kBlockedTo]})
	defer restore()
	o := hlib.NewOut(opts.OutDir)
	defer o.Close()
	defer closers.Wait()

	if opts.Replay != "" {
		var in histSpec
		if err := hlib.ReplayInput(opts.Replay, &in); err != nil {
			panic(err)
		}
		runHist(o, in)
		return
	}
	for _, h := range witnesses(opts.Seed) {
		runHist(o, h)
	}
	for _, h := range clauseMatrix(opts.Seed) {
		runHist(o, h)
	}
	nG, nU := 28, 14
	if opts.Thorough() {
		nG, nU = 900, 400
	}
	for i := 0; i < nG; i++ {
		runHist(o, genHist("guarded", opts.Seed, i, opts.Thorough()))
	}
	for i := 0; i < nU; i++ {
		runHist(o, genHist("unrestricted", opts.Seed, i, opts.Thorough()))
	}
	types.SetTimeDelta(0)
	fmt.Printf("cases: %d submissions: %d\n", o.Count(), nSub)
}
