// hC26: the block sequence log, the hash->sequence index and the sequence queries of chain33
// nodes (C26).
//
// Stream "tree": the generator of hC25 — a factory test node builds real, executed blocks
// forming a tree rooted at the genesis block; for every delivery order a fresh node receives
// the blocks through BlockChain.ProcessBlock.  After every delivery the tip, its total
// difficulty, LoadBlockLastSequence and GetSequenceByHash(delivered block) are read back; at
// the end the hash at every height, the whole log, ProcGetSeqByHash / ProcGetMainSeqByHash
// for every block of the tree, GetBlockSequences for a list of ranges, and what
// ProcDelParaChainBlockMsg answers on this node.  Stream "flip": two branches extended in
// turns (X -> Y -> X reorganisations).  Stream "norec": isRecordBlockSequence = false.
// Stream "para": para-chain nodes (para.go).
package main

import (
	"bytes"
	"fmt"
	"os"
	"runtime"
	"sync"
	"syscall"
	"time"

	"github.com/33cn/chain33/blockchain"
	"github.com/33cn/chain33/common/log"
	_ "github.com/33cn/chain33/system"
	"github.com/33cn/chain33/types"
	"github.com/33cn/chain33/util"
	"github.com/33cn/chain33/util/testnode"
	"verifharness/hlib"
)

// ---------- tree description (the replay format) ----------

type treeSpec struct {
	Par   []int    `json:"par"`   // Par[i] = parent of block i (i >= 1), Par[0] = -1 (genesis)
	Dbits []uint32 `json:"dbits"` // Difficulty bits of block i (Dbits[0] unused: genesis as configured)
}

type runIn struct {
	Tree    treeSpec   `json:"tree"`
	Order   []int      `json:"order"`
	LevelDB bool       `json:"leveldb"`
	Kind    string     `json:"kind"`
	NoRec   bool       `json:"norec,omitempty"`
	Ranges  [][2]int64 `json:"ranges"`
	Para    *paraIn    `json:"para,omitempty"`
}

type stepOut struct {
	Main   bool   `json:"main"`
	Orphan bool   `json:"orphan"`
	Err    int    `json:"err"`
	ErrS   string `json:"errs,omitempty"`
	Tip    int    `json:"tip"`
	TipTd  string `json:"tiptd"`
	Last   int64  `json:"last"`
	Idx    int64  `json:"idx"`
}

type reply struct {
	V int64 `json:"v"`
	E int   `json:"e"`
}

type rangeOut struct {
	Start, End int64
	Err        int
	Items      [][2]int
}

type runOut struct {
	Steps    []stepOut  `json:"steps"`
	Main     []int      `json:"main"`
	Log      [][2]int   `json:"log"`
	LastSeq  int64      `json:"lastseq"`
	Idx      []reply    `json:"idx"`
	MIdx     []reply    `json:"midx"`
	NilQ     []reply    `json:"nilq"`
	LastMain int64      `json:"lastmain"`
	Ranges   []rangeOut `json:"ranges"`
	Dels     [][2]int   `json:"dels"`
	Panic    string     `json:"panic,omitempty"`
}

const unknownID = 999999
const noHashID = 999998

// ---------- nodes ----------

func quiet() { log.SetLogLevel("crit") }

// The nodes are configured with minerstart=false, so the solo miner never passes its IsMining
// test (a miner stopped after the start may already be past that test, and then turns the
// transactions of a block that is disconnected in the next milliseconds into a block of its
// own, written with sequence -1).  stopMiner is kept as a second line: it waits for the
// consensus module's answer (an unacknowledged stop can get lost on a loaded machine).
func stopMiner(m *testnode.Chain33Mock) {
	cl := m.GetClient()
	for try := 0; try < 5; try++ {
		msg := cl.NewMessage("consensus", types.EventMinerStop, nil)
		if err := cl.Send(msg, true); err != nil {
			time.Sleep(20 * time.Millisecond)
			continue
		}
		_, err := cl.WaitTimeout(msg, 10*time.Second)
		if err == nil || err == types.ErrMinerNotStared {
			return
		}
	}
	panic("miner not stopped")
}

// waitWalletRescan: importing the test keys starts one wallet goroutine per key
// (rescanReqTxDetailByAddr) that lists the address's transactions and then fetches their
// details; if a block holding one of them is disconnected in between, the wallet dereferences
// a nil transaction (wallet_proc.go GetTxDetailByHashs -> ActionName) and the process dies.
// That race is not this property's business: the run starts when those goroutines are gone.
func waitWalletRescan() {
	buf := make([]byte, 8<<20)
	deadline := time.Now().Add(20 * time.Second)
	for time.Now().Before(deadline) {
		n := runtime.Stack(buf, true)
		if !bytes.Contains(buf[:n], []byte("rescanReqTxDetailByAddr")) {
			return
		}
		time.Sleep(5 * time.Millisecond)
	}
}

var nodeMu sync.Mutex // testnode set-up is not re-entrant (wallet labels)

func startNode(cfg *types.Chain33Config) *testnode.Chain33Mock {
	nodeMu.Lock()
	m := testnode.NewWithConfig(cfg, nil)
	quiet()
	nodeMu.Unlock()
	stopMiner(m)
	deadline := time.Now().Add(30 * time.Second)
	for m.GetBlockChain().GetBlockHeight() < 0 {
		if time.Now().After(deadline) {
			panic("genesis block not created")
		}
		time.Sleep(2 * time.Millisecond)
	}
	waitWalletRescan()
	return m
}

func newNode(leveldb, record bool) *testnode.Chain33Mock {
	cfg := types.NewChain33Config(types.GetDefaultCfgstring())
	mc := cfg.GetModuleConfig()
	if !leveldb {
		mc.BlockChain.Driver = "memdb"
		mc.Store.Driver = "memdb"
		mc.Wallet.Driver = "memdb"
	}
	mc.BlockChain.IsRecordBlockSequence = record
	mc.Consensus.Minerstart = false // see stopMiner
	if !record {
		mc.BlockChain.EnablePushSubscribe = false
	}
	return startNode(cfg)
}

// ---------- factory ----------

type factory struct {
	node *testnode.Chain33Mock
	cfg  *types.Chain33Config
	gen  *types.Block
}

func newFactory() *factory {
	n := newNode(false, true)
	return &factory{node: n, cfg: n.GetClient().GetConfig(), gen: n.GetBlock(0)}
}

// build executes the tree on the factory node and returns the blocks (index 0 = genesis).
func (f *factory) build(t treeSpec) []*types.Block {
	blocks := make([]*types.Block, len(t.Par))
	blocks[0] = f.gen
	for i := 1; i < len(t.Par); i++ {
		parent := blocks[t.Par[i]]
		b := util.CreateNewBlock(f.cfg, parent, util.GenNoneTxs(f.cfg, f.node.GetGenesisKey(), 1))
		b.Difficulty = t.Dbits[i]
		d, _, err := util.ExecBlock(f.node.GetClient(), parent.StateHash, b, false, true, false)
		if err != nil {
			panic(fmt.Sprintf("factory: exec block %d: %v", i, err))
		}
		if len(d.Block.Txs) != 1 || d.Block.Difficulty != t.Dbits[i] {
			panic("factory: block changed by execution")
		}
		blocks[i] = d.Block
	}
	return blocks
}

// ---------- observables shared by all streams ----------

func errClass(err error) int {
	switch err {
	case nil:
		return 0
	case types.ErrBlockExist:
		return 1
	case types.ErrParentBlockNoExist:
		return 2
	case types.ErrBlockHeightNoMatch:
		return 3
	case types.ErrNotSupport:
		return 5
	case types.ErrBlockHashNoMatch:
		return 6
	case types.ErrInvalidParam:
		return 7
	}
	return 9
}

func hashErrClass(err error) int {
	switch err {
	case nil:
		return 0
	case types.ErrInvalidParam:
		return 1
	case types.ErrHashNotExist:
		return 2
	}
	return 9
}

func rangeErrClass(err error) int {
	switch err {
	case nil:
		return 0
	case types.ErrStartHeight:
		return 1
	case types.ErrEndLessThanStartHeight:
		return 2
	case types.ErrMaxCountPerTime:
		return 3
	}
	return 9
}

type idmap struct {
	ids map[string]int
}

func newIDs(cfg *types.Chain33Config, blocks []*types.Block) *idmap {
	m := &idmap{ids: map[string]int{}}
	for i, b := range blocks {
		m.ids[string(b.Hash(cfg))] = i
	}
	return m
}

func (m *idmap) of(h []byte) int {
	if i, ok := m.ids[string(h)]; ok {
		return i
	}
	return unknownID
}

var noHash = bytes.Repeat([]byte{0xc2, 0x6e}, 16)

// readLog: LoadBlockLastSequence and GetBlockSequence 0..last
func readLog(store *blockchain.BlockStore, ids *idmap) (int64, [][2]int) {
	last, err := store.LoadBlockLastSequence()
	if err != nil {
		last = -1
	}
	var lg [][2]int
	for k := int64(0); k <= last; k++ {
		seq, err := store.GetBlockSequence(k)
		if err != nil || seq == nil {
			lg = append(lg, [2]int{0, 0})
			continue
		}
		lg = append(lg, [2]int{ids.of(seq.Hash), int(seq.Type)})
	}
	return last, lg
}

// byHash: ProcGetSeqByHash / ProcGetMainSeqByHash for every block, then for a hash of no
// block; and both with the empty hash
func byHash(chain *blockchain.BlockChain, cfg *types.Chain33Config, blocks []*types.Block) (idx, midx, nilq []reply) {
	ask := func(h []byte) {
		v, err := chain.ProcGetSeqByHash(h)
		idx = append(idx, reply{v, hashErrClass(err)})
		v, err = chain.ProcGetMainSeqByHash(h)
		midx = append(midx, reply{v, hashErrClass(err)})
	}
	for _, b := range blocks {
		ask(b.Hash(cfg))
	}
	ask(noHash)
	v, err := chain.ProcGetSeqByHash(nil)
	nilq = append(nilq, reply{v, hashErrClass(err)})
	v, err = chain.ProcGetMainSeqByHash([]byte{})
	nilq = append(nilq, reply{v, hashErrClass(err)})
	return
}

func askRanges(chain *blockchain.BlockChain, ids *idmap, rs [][2]int64) []rangeOut {
	var out []rangeOut
	for _, r := range rs {
		ro := rangeOut{Start: r[0], End: r[1]}
		res, err := chain.GetBlockSequences(&types.ReqBlocks{Start: r[0], End: r[1]})
		ro.Err = rangeErrClass(err)
		if err == nil && res != nil {
			for _, it := range res.Items {
				if it == nil {
					ro.Items = append(ro.Items, [2]int{0, 0})
				} else {
					ro.Items = append(ro.Items, [2]int{ids.of(it.Hash), int(it.Type)})
				}
			}
		}
		out = append(out, ro)
	}
	return out
}

// genRanges: edge cases around 0, last, the 1000-item limit and int64 wrap, plus random pairs
func genRanges(r *hlib.Rng, expectLast int64, n int) [][2]int64 {
	l := expectLast
	fixed := [][2]int64{
		{0, l}, {0, 999}, {0, 1000}, {l, l + 5}, {l + 1, l + 2}, {3, 2}, {-2, 1}, {-5, -3},
		{-9223372036854775808, 9223372036854775807}, {-2, 9223372036854775807}, {l, l}, {1, 1000},
	}
	var rs [][2]int64
	// every case gets four of the fixed ones in rotation and n random ones
	k := r.Intn(len(fixed))
	for i := 0; i < 4; i++ {
		rs = append(rs, fixed[(k+i*5)%len(fixed)])
	}
	for i := 0; i < n; i++ {
		a := int64(r.Range(-2, int(l)+2))
		b := a + int64(r.Range(-1, 6))
		rs = append(rs, [2]int64{a, b})
	}
	return rs
}

// ---------- one run of the tree streams ----------

func runOrder(cfg *types.Chain33Config, blocks []*types.Block, in runIn) (out runOut) {
	ids := newIDs(cfg, blocks)
	r := newNode(in.LevelDB, !in.NoRec)
	defer r.Close()
	chain := r.GetBlockChain()
	store := chain.GetStore()
	if !bytes.Equal(r.GetBlock(0).Hash(cfg), blocks[0].Hash(cfg)) {
		panic("receiver has a different genesis block")
	}
	process := func(b *types.Block) (m, o bool, err error, pan string) {
		defer func() {
			if e := recover(); e != nil {
				pan = fmt.Sprint(e)
			}
		}()
		_, m, o, err = chain.ProcessBlock(false, &types.BlockDetail{Block: types.Clone(b).(*types.Block)}, "peer1", true, 0)
		return
	}
	for _, i := range in.Order {
		m, o, err, pan := process(blocks[i])
		if pan != "" {
			out.Panic = pan
			out.Main = []int{unknownID}
			return out
		}
		st := stepOut{Main: m, Orphan: o, Err: errClass(err)}
		if err != nil {
			st.ErrS = err.Error()
		}
		hdr := store.LastHeader()
		st.Tip = ids.of(hdr.Hash)
		st.TipTd = "-1"
		if td, e := store.GetTdByBlockHash(hdr.Hash); e == nil && td != nil {
			st.TipTd = td.String()
		}
		st.Last, err = store.LoadBlockLastSequence()
		if err != nil {
			st.Last = -1
		}
		st.Idx, err = store.GetSequenceByHash(blocks[i].Hash(cfg))
		if err != nil {
			st.Idx = -1
		}
		out.Steps = append(out.Steps, st)
	}
	// what a delete request gets on this node: the tip, a block below it, the genesis block
	h := store.Height()
	probe := func(id int) {
		if id < 0 || id >= len(blocks) {
			return
		}
		pd := &types.ParaChainBlockDetail{Blockdetail: &types.BlockDetail{Block: types.Clone(blocks[id]).(*types.Block)}, Sequence: 7}
		err := chain.ProcDelParaChainBlockMsg(false, pd, "self")
		out.Dels = append(out.Dels, [2]int{id, errClass(err)})
	}
	probe(ids.of(store.LastHeader().Hash))
	if h >= 2 {
		if hash, err := store.GetBlockHashByHeight(h - 1); err == nil {
			probe(ids.of(hash))
		}
	}
	probe(0)
	// final chain: hash at every height
	h = store.Height()
	for k := int64(0); k <= h; k++ {
		hash, err := store.GetBlockHashByHeight(k)
		id := unknownID
		if err == nil {
			id = ids.of(hash)
		}
		out.Main = append(out.Main, id)
	}
	if last := store.LastHeader(); len(out.Main) == 0 || ids.of(last.Hash) != out.Main[len(out.Main)-1] || last.Height != h {
		out.Main = append(out.Main, unknownID)
	}
	out.LastSeq, out.Log = readLog(store, ids)
	out.Idx, out.MIdx, out.NilQ = byHash(chain, cfg, blocks)
	lm, err := store.LoadBlockLastMainSequence()
	if err != nil {
		lm = -1
	}
	out.LastMain = lm
	out.Ranges = askRanges(chain, ids, in.Ranges)
	return out
}

// ---------- Gallina rendering ----------

func renderTree(blocks []*types.Block, t treeSpec) string {
	items := make([]string, len(blocks))
	for i, b := range blocks {
		par := uint64(unknownID + 1) // the genesis block's parent hash is no block
		if i > 0 {
			par = uint64(t.Par[i])
		}
		items[i] = hlib.App("mkB", hlib.N(uint64(i)), hlib.N(par), hlib.Z(b.Height), hlib.Z(work(b.Difficulty)))
	}
	return hlib.List(items)
}

func renderLog(lg [][2]int) string {
	s := make([]string, len(lg))
	for i, e := range lg {
		s[i] = hlib.Pair(hlib.N(uint64(e[0])), hlib.Z(int64(e[1])))
	}
	return hlib.List(s)
}

func renderReplies(rs []reply) string {
	s := make([]string, len(rs))
	for i, e := range rs {
		s[i] = hlib.Pair(hlib.Z(e.V), hlib.N(uint64(e.E)))
	}
	return hlib.List(s)
}

func renderRanges(rs []rangeOut) string {
	s := make([]string, len(rs))
	for i, e := range rs {
		s[i] = fmt.Sprintf("(%s, %s, (%s, %s))", hlib.Z(e.Start), hlib.Z(e.End), hlib.N(uint64(e.Err)), renderLog(e.Items))
	}
	return hlib.List(s)
}

func renderCase(blocks []*types.Block, in runIn, out runOut) string {
	ord := make([]string, len(in.Order))
	for i, v := range in.Order {
		ord[i] = hlib.N(uint64(v))
	}
	obs := make([]string, len(out.Steps))
	sobs := make([]string, len(out.Steps))
	for i, s := range out.Steps {
		obs[i] = fmt.Sprintf("(%s, %s, %s, %s, (%s)%%Z)", hlib.Bool(s.Main), hlib.Bool(s.Orphan), hlib.N(uint64(s.Err)), hlib.N(uint64(s.Tip)), s.TipTd)
		sobs[i] = hlib.Pair(hlib.Z(s.Last), hlib.Z(s.Idx))
	}
	fm := make([]string, len(out.Main))
	for i, v := range out.Main {
		fm[i] = hlib.N(uint64(v))
	}
	dels := make([]string, len(out.Dels))
	for i, e := range out.Dels {
		dels[i] = hlib.Pair(hlib.N(uint64(e[0])), hlib.N(uint64(e[1])))
	}
	return hlib.App("CSeqX", hlib.Bool(!in.NoRec), hlib.Z(0), renderTree(blocks, in.Tree), hlib.List(ord), hlib.List(obs),
		hlib.List(fm), hlib.List(sobs), renderLog(out.Log), hlib.Z(out.LastSeq), renderReplies(out.Idx), renderReplies(out.MIdx),
		renderReplies(out.NilQ), hlib.Z(out.LastMain), renderRanges(out.Ranges), hlib.List(dels))
}

// ---------- jobs ----------

type job struct {
	blocks []*types.Block
	in     runIn
	pt     *paraTree
}

type result struct {
	kind       string
	nontrivial bool
	term       string
	out        interface{}
}

func runJob(cfg *types.Chain33Config, j job) result {
	if j.in.Para != nil {
		return runPara(j)
	}
	in := j.in
	out := runOrder(cfg, j.blocks, in)
	if out.Panic != "" {
		fmt.Fprintln(os.Stderr, "hC26: ProcessBlock panicked:", out.Panic)
	}
	nontrivial := false
	prevTip := 0
	for _, s := range out.Steps {
		if s.Orphan {
			nontrivial = true
		}
		if s.Tip != prevTip && s.Tip < len(in.Tree.Par) && in.Tree.Par[s.Tip] != prevTip {
			nontrivial = true // reorganisation or orphan cascade
		}
		prevTip = s.Tip
	}
	kind := in.Kind
	if in.NoRec {
		kind = "norec/" + kind
	} else if guardHolds(in.Tree, in.Order) {
		kind = "guarded/" + kind
	} else {
		kind = "unguarded/" + kind
	}
	// how often did a block come back to the best chain: add records beyond the first per hash
	seen := map[int]int{}
	re := 0
	for _, e := range out.Log {
		if e[1] == 1 {
			seen[e[0]]++
			if seen[e[0]] > 1 {
				re++
			}
		}
	}
	if re > 0 {
		kind += "+readd"
	}
	return result{kind, nontrivial, renderCase(j.blocks, in, out), out}
}

// ---------- main ----------

func main() {
	// several nodes start while others run: every start resets the log level, so the node
	// logs (all on stdout) are dropped at the file descriptor
	if null, err := os.OpenFile(os.DevNull, os.O_WRONLY, 0); err == nil {
		_ = syscall.Dup2(int(null.Fd()), 1)
	}
	quiet()
	opts := hlib.ParseFlags()
	o := hlib.NewOut(opts.OutDir)
	defer o.Close()
	f := newFactory()
	defer f.node.Close()
	start := time.Now()

	if opts.Replay != "" {
		var in runIn
		if err := hlib.ReplayInput(opts.Replay, &in); err != nil {
			panic(err)
		}
		var j job
		if in.Para != nil {
			j = paraJob(in)
		} else {
			j = job{blocks: f.build(in.Tree), in: in}
		}
		res := runJob(f.cfg, j)
		o.Emit(res.kind, res.nontrivial, res.term, j.in, res.out)
		return
	}

	r := hlib.NewRng(opts.Seed)
	budget := 55 * time.Second
	nTrees, nOrders, nFlip, nNoRec, nPara, exhaustOff := 6, 36, 24, 8, 64, 4
	if opts.Thorough() {
		budget = 40 * time.Minute
		nTrees, nOrders, nFlip, nNoRec, nPara, exhaustOff = 40, 300, 300, 60, 1500, 6
	}
	var jobs []job
	count := 0
	addJob := func(blocks []*types.Block, in runIn) {
		// expected last sequence is not known before the run: ranges are drawn around the number of deliveries
		in.Ranges = genRanges(r, int64(len(in.Order)), 3)
		if in.NoRec {
			in.Ranges = append(in.Ranges, [2]int64{-1, -1}, [2]int64{0, 0})
		}
		jobs = append(jobs, job{blocks: blocks, in: in})
		count++
	}

	// 0. flips: X -> Y -> X ... reorganisations (small ones first)
	for k := 0; k < nFlip; k++ {
		t, order := genFlip(r, 2+k%3, k%2 == 1)
		addJob(f.build(t), runIn{Tree: t, Order: order, LevelDB: k%7 == 3, Kind: "flip"})
	}

	// 3. isRecordBlockSequence = false
	for k := 0; k < nNoRec; k++ {
		if k%2 == 0 {
			t, order := genFlip(r, 2, false)
			addJob(f.build(t), runIn{Tree: t, Order: order, Kind: "flip", NoRec: true})
		} else {
			t := genTree(r, r.Range(12, 14), 3, 6, true)
			addJob(f.build(t), runIn{Tree: t, Order: orderGens[3].f(r, t), Kind: "shuffle", NoRec: true})
		}
	}

	// 1. exhaustive stream: trunk in order, then every order of a few off-trunk blocks
	{
		trunk := 13
		t := treeSpec{Par: []int{-1}, Dbits: []uint32{0}}
		for i := 0; i < trunk; i++ {
			t.Par = append(t.Par, i)
			t.Dbits = append(t.Dbits, diffChoices[0])
		}
		p := 10
		for i := 0; i < exhaustOff; i++ {
			t.Par = append(t.Par, p)
			t.Dbits = append(t.Dbits, diffChoices[0])
			if i == exhaustOff-2 && exhaustOff > 4 {
				p = 12
			} else {
				p = len(t.Par) - 1
			}
		}
		blocks := f.build(t)
		off := make([]int, exhaustOff)
		for i := range off {
			off[i] = trunk + 1 + i
		}
		perms(off, func(p []int) {
			order := append(seqOrder(trunk+1), p...)
			addJob(blocks, runIn{Tree: t, Order: order, LevelDB: count%6 == 0, Kind: "exhaustive-offtrunk"})
		})
	}

	// 2. random trees, generated orders; every tree also once without sequence recording
	for ti := 0; ti < nTrees; ti++ {
		var t treeSpec
		switch ti % 4 {
		case 0:
			t = genTree(r, r.Range(13, 16), 3, 6, false)
		case 1:
			t = genTree(r, r.Range(12, 15), 4, 7, true)
		case 2:
			t = genTree(r, r.Range(8, 11), 4, 8, true)
		default:
			t = genTree(r, r.Range(14, 18), 5, 5, true)
		}
		blocks := f.build(t)
		for k := 0; k < nOrders; k++ {
			g := orderGens[k%len(orderGens)]
			if k < len(orderGens) {
				g = orderGens[k]
			} else if k%3 != 0 {
				g = orderGens[3+k%4]
			}
			addJob(blocks, runIn{Tree: t, Order: g.f(r, t), LevelDB: count%6 == 0, Kind: g.name})
		}
	}

	// 4. para-chain nodes
	jobs = append(paraJobs(hlib.NewRng(opts.Seed+2626), nPara), jobs...)

	// run: a few nodes at a time, results emitted in job order
	results := make([]*result, len(jobs))
	var wg sync.WaitGroup
	next := 0
	var mu sync.Mutex
	workers := 4
	for w := 0; w < workers; w++ {
		wg.Add(1)
		go func() {
			defer wg.Done()
			for {
				mu.Lock()
				i := next
				next++
				mu.Unlock()
				if i >= len(jobs) || time.Since(start) > budget {
					return
				}
				res := runJob(f.cfg, jobs[i])
				results[i] = &res
			}
		}()
	}
	wg.Wait()
	done := 0
	for i, res := range results {
		if res == nil {
			continue
		}
		o.Emit(res.kind, res.nontrivial, res.term, jobs[i].in, res.out)
		done++
	}
	if done < len(jobs) {
		fmt.Fprintln(os.Stderr, "hC26: time budget reached after", done, "of", len(jobs), "runs")
	}
}
