// hC26, stream "para": para-chain nodes (Title "user.p.b.", isParaChain = true, with and
// without isRecordBlockSequence) driven the way the para consensus module drives them:
// ProcAddParaChainBlockMsg / ProcDelParaChainBlockMsg with pid "self" and the main chain's
// sequence number.  Blocks come from a small tree built on a para factory node; operations
// add a child of the tip, delete the tip, or are refused (parent is not the tip, block is not
// the tip, wrong height, no block).  "guarded" runs hand in strictly increasing sequence
// numbers; "unrestricted" runs also repeat or lower them (a delete under the add's own number
// is what BlockChain.Rollback does on a para chain).
package main

import (
	"fmt"
	"os"
	"strings"
	"sync"

	"github.com/33cn/chain33/types"
	"github.com/33cn/chain33/util"
	"github.com/33cn/chain33/util/testnode"
	"verifharness/hlib"
)

const paraTitle = "user.p.b."

type paraIn struct {
	Save    bool       `json:"save"`
	Par     []int      `json:"par"` // tree; Par[0] = -1
	Ht      []int64    `json:"ht"`  // heights (a wrong-height block has Ht != Ht[Par]+1)
	Ops     [][3]int64 `json:"ops"` // kind (0 add, 1 delete, 2 add without block, 3 delete without block), block, sequence
	Guarded bool       `json:"guarded"`
	Witness bool       `json:"witness,omitempty"`
}

type paraStep struct {
	Err      int   `json:"err"`
	Tip      int   `json:"tip"`
	LastMain int64 `json:"lastmain"`
	Last     int64 `json:"last"`
}

type mrec struct {
	Seq int64
	ID  int
	Ty  int
}

type paraOut struct {
	Steps  []paraStep `json:"steps"`
	Main   []int      `json:"main"`
	Lo     int64      `json:"lo"`
	N      int        `json:"n"`
	MLog   []mrec     `json:"mlog"`
	OLog   [][2]int   `json:"olog"`
	OLast  int64      `json:"olast"`
	Idx    []reply    `json:"idx"`
	MIdx   []reply    `json:"midx"`
	NilQ   []reply    `json:"nilq"`
	Ranges []rangeOut `json:"ranges"`
	Panic  string     `json:"panic,omitempty"`
}

type paraTree struct {
	par    []int
	ht     []int64
	blocks []*types.Block
	cfg    *types.Chain33Config
}

func newParaNode(save bool) *testnode.Chain33Mock {
	cs := strings.Replace(types.GetDefaultCfgstring(), `Title="local"`, `Title="`+paraTitle+`"`, 1)
	cfg := types.NewChain33Config(cs)
	if !cfg.IsPara() {
		panic("para title not applied")
	}
	mc := cfg.GetModuleConfig()
	mc.BlockChain.IsParaChain = true
	mc.BlockChain.IsRecordBlockSequence = save
	mc.BlockChain.EnablePushSubscribe = false
	mc.Consensus.Minerstart = false
	mc.BlockChain.Driver = "memdb"
	mc.Store.Driver = "memdb"
	mc.Wallet.Driver = "memdb"
	return startNode(cfg)
}

var (
	paraFactoryOnce sync.Once
	paraFactoryNode *testnode.Chain33Mock
)

// buildParaTree executes the tree on the para factory node
func buildParaTree(par []int, ht []int64) *paraTree {
	paraFactoryOnce.Do(func() { paraFactoryNode = newParaNode(false) })
	f := paraFactoryNode
	cfg := f.GetClient().GetConfig()
	pt := &paraTree{par: par, ht: ht, cfg: cfg, blocks: make([]*types.Block, len(par))}
	pt.blocks[0] = f.GetBlock(0)
	for i := 1; i < len(par); i++ {
		parent := pt.blocks[par[i]]
		tx := util.CreateTxWithExecer(cfg, f.GetGenesisKey(), paraTitle+"none")
		b := &types.Block{Height: ht[i], ParentHash: parent.Hash(cfg), Txs: []*types.Transaction{tx},
			Difficulty: 0x1f2fffff, MainHeight: ht[i] + 100, BlockTime: parent.BlockTime}
		if ht[i] != ht[par[i]]+1 {
			// refused before it is executed: any content will do
			b.TxHash = []byte("wrong height")
			pt.blocks[i] = b
			continue
		}
		d, _, err := util.ExecBlock(f.GetClient(), parent.StateHash, b, false, true, false)
		if err != nil {
			panic(fmt.Sprintf("para factory: exec block %d: %v", i, err))
		}
		if len(d.Block.Txs) != 1 {
			panic("para factory: transaction dropped")
		}
		pt.blocks[i] = d.Block
	}
	return pt
}

// ---------- one run ----------

func runPara(j job) result {
	in := j.in.Para
	pt := j.pt
	cfg := pt.cfg
	ids := newIDs(cfg, pt.blocks)
	r := newParaNode(in.Save)
	defer r.Close()
	chain := r.GetBlockChain()
	store := chain.GetStore()
	var out paraOut
	if string(r.GetBlock(0).Hash(cfg)) != string(pt.blocks[0].Hash(cfg)) {
		panic("para receiver has a different genesis block")
	}
	do := func(op [3]int64) (err error, pan string) {
		defer func() {
			if e := recover(); e != nil {
				pan = fmt.Sprint(e)
			}
		}()
		switch op[0] {
		case 2:
			_, err = chain.ProcAddParaChainBlockMsg(false, &types.ParaChainBlockDetail{Sequence: op[2]}, "self")
		case 3:
			err = chain.ProcDelParaChainBlockMsg(false, &types.ParaChainBlockDetail{Blockdetail: &types.BlockDetail{}, Sequence: op[2]}, "self")
		case 0:
			b := types.Clone(pt.blocks[op[1]]).(*types.Block)
			_, err = chain.ProcAddParaChainBlockMsg(false, &types.ParaChainBlockDetail{Blockdetail: &types.BlockDetail{Block: b}, Sequence: op[2]}, "self")
		case 1:
			b := pt.blocks[op[1]]
			// the stored detail (with receipts) when the block is there, as the consensus module sends it
			d := &types.BlockDetail{Block: types.Clone(b).(*types.Block)}
			if sd, e := chain.GetBlock(b.Height); e == nil && sd != nil && string(sd.Block.Hash(cfg)) == string(b.Hash(cfg)) {
				d = sd
			}
			err = chain.ProcDelParaChainBlockMsg(false, &types.ParaChainBlockDetail{Blockdetail: d, Sequence: op[2]}, "self")
		}
		return
	}
	maxSeq := int64(0)
	for _, op := range in.Ops {
		err, pan := do(op)
		if pan != "" {
			out.Panic = pan
			fmt.Fprintln(os.Stderr, "hC26: para operation panicked:", pan)
			break
		}
		if op[2] > maxSeq {
			maxSeq = op[2]
		}
		st := paraStep{Err: errClass(err), Tip: ids.of(store.LastHeader().Hash)}
		var e error
		if st.LastMain, e = store.LoadBlockLastMainSequence(); e != nil {
			st.LastMain = -1
		}
		if st.Last, e = store.LoadBlockLastSequence(); e != nil {
			st.Last = -1
		}
		out.Steps = append(out.Steps, st)
	}
	h := store.Height()
	for k := int64(0); k <= h; k++ {
		hash, err := store.GetBlockHashByHeight(k)
		id := unknownID
		if err == nil {
			id = ids.of(hash)
		}
		out.Main = append(out.Main, id)
	}
	if last := store.LastHeader(); len(out.Main) == 0 || ids.of(last.Hash) != out.Main[len(out.Main)-1] || last.Height != h {
		out.Main = append(out.Main, unknownID)
	}
	// the main-sequence records
	out.Lo = -3
	out.N = int(maxSeq + 3 - out.Lo)
	for k := 0; k < out.N; k++ {
		s := out.Lo + int64(k)
		rec, err := store.GetBlockByMainSequence(s)
		if err == nil && rec != nil {
			out.MLog = append(out.MLog, mrec{s, ids.of(rec.Hash), int(rec.Type)})
		}
	}
	out.OLast, out.OLog = readLog(store, ids)
	out.Idx, out.MIdx, out.NilQ = byHash(chain, cfg, pt.blocks)
	out.Ranges = askRanges(chain, ids, j.in.Ranges)

	// rendering
	tb := make([]string, len(pt.blocks))
	for i := range pt.blocks {
		par := uint64(unknownID + 1)
		if i > 0 {
			par = uint64(pt.par[i])
		}
		tb[i] = hlib.App("mkB", hlib.N(uint64(i)), hlib.N(par), hlib.Z(pt.ht[i]), hlib.Z(1))
	}
	ops := make([]string, len(out.Steps))
	pobs := make([]string, len(out.Steps))
	executed := 0
	refused := 0
	for i, s := range out.Steps {
		op := in.Ops[i]
		ops[i] = fmt.Sprintf("(%s, %s, %s)", hlib.N(uint64(op[0])), hlib.N(uint64(op[1])), hlib.Z(op[2]))
		pobs[i] = fmt.Sprintf("(%s, %s, %s, %s)", hlib.N(uint64(s.Err)), hlib.N(uint64(s.Tip)), hlib.Z(s.LastMain), hlib.Z(s.Last))
		if s.Err == 0 {
			executed++
		} else {
			refused++
		}
	}
	fm := make([]string, len(out.Main))
	for i, v := range out.Main {
		fm[i] = hlib.N(uint64(v))
	}
	ml := make([]string, len(out.MLog))
	for i, e := range out.MLog {
		ml[i] = hlib.Pair(hlib.Z(e.Seq), hlib.Pair(hlib.N(uint64(e.ID)), hlib.Z(int64(e.Ty))))
	}
	term := hlib.App("CPara", hlib.Bool(in.Save), hlib.List(tb), hlib.List(ops), hlib.List(pobs), hlib.List(fm),
		hlib.Z(out.Lo), hlib.Nat(out.N), hlib.List(ml), renderLog(out.OLog), hlib.Z(out.OLast),
		renderReplies(out.Idx), renderReplies(out.MIdx), renderReplies(out.NilQ), renderRanges(out.Ranges))
	kind := "para/"
	if in.Witness {
		kind += "witness"
	} else if in.Guarded {
		kind += "guarded"
	} else {
		kind += "unrestricted"
	}
	if in.Save {
		kind += "+ownlog"
	}
	return result{kind, executed >= 3 && refused >= 1, term, out}
}

// ---------- generation ----------

// genParaTree: a main line of 4-6 blocks, alternatives at several heights, two wrong-height blocks
func genParaTree(r *hlib.Rng) ([]int, []int64) {
	par := []int{-1}
	ht := []int64{0}
	add := func(p int, h int64) int {
		par = append(par, p)
		ht = append(ht, h)
		return len(par) - 1
	}
	p := 0
	n := r.Range(4, 6)
	var line []int
	for i := 0; i < n; i++ {
		p = add(p, ht[p]+1)
		line = append(line, p)
	}
	for k := r.Range(3, 6); k > 0; k-- {
		q := r.Intn(len(par)) // a second (third) child, sometimes with a child of its own
		c := add(q, ht[q]+1)
		if r.Chance(1, 2) {
			add(c, ht[c]+1)
		}
	}
	for k := 0; k < 2; k++ {
		q := r.Intn(len(par))
		add(q, ht[q]+int64(r.Range(2, 3))-int64(4*r.Intn(2))) // +2, +3, -2 or -1 ...
	}
	for i := range ht { // keep heights of wrong-height blocks above 0 (the model's range)
		if i > 0 && ht[i] <= 0 {
			ht[i] = ht[par[i]] + 2
		}
	}
	return par, ht
}

func genParaOps(r *hlib.Rng, par []int, ht []int64, n int, guarded bool) [][3]int64 {
	children := make([][]int, len(par))
	for i := 1; i < len(par); i++ {
		children[par[i]] = append(children[par[i]], i)
	}
	chain := []int{0}
	addSeq := map[int]int64{}
	seq := int64(r.Range(-1, 2)) // the first number may be 0 (above the genesis record's -1)
	var ops [][3]int64
	nextSeq := func(del bool, blk int) int64 {
		if guarded || r.Chance(3, 4) {
			seq += int64(r.Range(1, 3))
			return seq
		}
		switch r.Intn(3) {
		case 0:
			if del { // Rollback's choice: the number of the block's add record
				if s, ok := addSeq[blk]; ok {
					return s
				}
			}
			return seq // the last number again
		case 1:
			return seq - int64(r.Range(1, 3)) // lower (may be an earlier record's number or a free one)
		}
		return seq
	}
	for len(ops) < n {
		tip := chain[len(chain)-1]
		c := r.Intn(100)
		switch {
		case c < 45: // add a child of the tip
			if len(children[tip]) == 0 {
				continue
			}
			b := hlib.Pick(r, children[tip])
			s := nextSeq(false, b)
			ops = append(ops, [3]int64{0, int64(b), s})
			if ht[b] == ht[tip]+1 {
				chain = append(chain, b)
				addSeq[b] = s
			}
		case c < 75: // delete the tip
			if len(chain) < 2 {
				continue
			}
			s := nextSeq(true, tip)
			ops = append(ops, [3]int64{1, int64(tip), s})
			chain = chain[:len(chain)-1]
		case c < 83: // add a block whose parent is not the tip
			b := r.Range(1, len(par)-1)
			if par[b] == tip {
				continue
			}
			ops = append(ops, [3]int64{0, int64(b), seq + 1})
		case c < 91: // delete a block that is not the tip (on the chain below it, or elsewhere)
			b := r.Range(1, len(par)-1)
			if b == tip {
				continue
			}
			ops = append(ops, [3]int64{1, int64(b), seq + 1})
		case c < 96:
			ops = append(ops, [3]int64{2, 0, seq + 1})
		default:
			ops = append(ops, [3]int64{3, 0, seq + 1})
		}
	}
	return ops
}

func paraJob(in runIn) job {
	return job{in: in, pt: buildParaTree(in.Para.Par, in.Para.Ht)}
}

func paraJobs(r *hlib.Rng, n int) []job {
	var jobs []job
	var pt *paraTree
	// the refutation witnesses of C26_para_main_seq_replay_refuted on real nodes: a delete under
	// the number of the add record (what BlockChain.Rollback passes), and a lower number
	wt := buildParaTree([]int{-1, 0, 1}, []int64{0, 1, 2})
	for k, ops := range [][][3]int64{{{0, 1, 5}, {1, 1, 5}}, {{0, 1, 5}, {0, 2, 3}}, {{0, 1, 5}, {0, 2, 6}, {1, 2, 6}, {1, 1, 5}}} {
		in := &paraIn{Save: k == 1, Par: wt.par, Ht: wt.ht, Ops: ops, Witness: true}
		jobs = append(jobs, job{pt: wt, in: runIn{Kind: "para", Para: in, Ranges: [][2]int64{{0, 5}, {-1, 0}}}})
	}
	for k := 0; k < n; k++ {
		if k%8 == 0 {
			par, ht := genParaTree(r)
			pt = buildParaTree(par, ht)
		}
		guarded := k%2 == 0
		nops := r.Range(6, 14)
		if k%5 == 4 {
			nops = r.Range(20, 36)
		}
		in := &paraIn{Save: k%4 >= 2, Par: pt.par, Ht: pt.ht, Guarded: guarded}
		in.Ops = genParaOps(r, pt.par, pt.ht, nops, guarded)
		jobs = append(jobs, job{pt: pt, in: runIn{Kind: "para", Para: in, Ranges: genRanges(r, int64(nops/2), 2)}})
	}
	return jobs
}
