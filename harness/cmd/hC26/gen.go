// hC26 generators: block trees and delivery orders (the generator of hC25, unchanged, so that
// C26 keeps running on "the same generated block trees and delivery orders as C25").
package main

import (
	"github.com/33cn/chain33/common/difficulty"
	"verifharness/hlib"
)

var diffChoices = []uint32{0x1f2fffff, 0x1f27ffff, 0x1f1fffff, 0x1f17ffff}

func work(bits uint32) int64 { return difficulty.CalcWork(bits).Int64() }

// ---------- generators ----------

// genTree: a trunk of trunkLen blocks plus nb side branches.
func genTree(r *hlib.Rng, trunkLen, nb, maxLen int, varied bool) treeSpec {
	t := treeSpec{Par: []int{-1}, Dbits: []uint32{0}}
	heights := []int{0}
	pickD := func() uint32 {
		if varied && r.Chance(1, 3) {
			return hlib.Pick(r, diffChoices)
		}
		return diffChoices[0]
	}
	add := func(p int) int {
		t.Par = append(t.Par, p)
		t.Dbits = append(t.Dbits, pickD())
		heights = append(heights, heights[p]+1)
		return len(t.Par) - 1
	}
	p := 0
	for i := 0; i < trunkLen; i++ {
		p = add(p)
	}
	if trunkLen >= 12 {
		// a branch that ends level with the trunk tip (a tie above the margin when difficulties are equal)
		q := trunkLen - 2
		q = add(q)
		add(q)
	}
	for k := 0; k < nb; k++ {
		// fork point: any existing block, biased to the trunk
		fp := r.Intn(len(t.Par))
		if r.Chance(1, 2) {
			fp = r.Intn(trunkLen + 1)
		}
		n := r.Range(1, maxLen)
		if r.Chance(1, 3) {
			// long enough to overtake the trunk
			n = trunkLen - heights[fp] + r.Range(0, 2)
			if n < 1 {
				n = 1
			}
		}
		q := fp
		for i := 0; i < n && len(t.Par) < 34; i++ {
			q = add(q)
		}
	}
	return t
}

func heightsOf(t treeSpec) []int {
	h := make([]int, len(t.Par))
	for i := 1; i < len(t.Par); i++ {
		h[i] = h[t.Par[i]] + 1
	}
	return h
}

// guardHolds: among the blocks connected to the genesis through delivered blocks the one of
// greatest total difficulty is unique and at height >= 12.
func guardHolds(t treeSpec, order []int) bool {
	del := map[int]bool{0: true}
	for _, i := range order {
		del[i] = true
	}
	hs := heightsOf(t)
	td := make([]int64, len(t.Par))
	conn := make([]bool, len(t.Par))
	conn[0] = true
	td[0] = work(diffChoices[0])
	best, cnt, bi := td[0], 1, 0
	for i := 1; i < len(t.Par); i++ {
		if del[i] && conn[t.Par[i]] {
			conn[i] = true
			td[i] = td[t.Par[i]] + work(t.Dbits[i])
			if td[i] > best {
				best, cnt, bi = td[i], 1, i
			} else if td[i] == best {
				cnt++
			}
		}
	}
	return cnt == 1 && hs[bi] >= 12
}

func seqOrder(n int) []int {
	o := make([]int, n-1)
	for i := range o {
		o[i] = i + 1
	}
	return o
}

type orderGen struct {
	name string
	f    func(r *hlib.Rng, t treeSpec) []int
}

func withDups(r *hlib.Rng, o []int) []int {
	var res []int
	for i, v := range o {
		res = append(res, v)
		if i > 0 && r.Chance(1, 4) {
			res = append(res, o[r.Intn(i+1)]) // re-deliver something delivered before
		}
	}
	return res
}

var orderGens = []orderGen{
	{"creation", func(r *hlib.Rng, t treeSpec) []int { return seqOrder(len(t.Par)) }},
	{"reverse", func(r *hlib.Rng, t treeSpec) []int {
		o := seqOrder(len(t.Par))
		for i, j := 0, len(o)-1; i < j; i, j = i+1, j-1 {
			o[i], o[j] = o[j], o[i]
		}
		return o
	}},
	{"byheight", func(r *hlib.Rng, t treeSpec) []int {
		hs := heightsOf(t)
		var o []int
		for h := 1; h < 64; h++ {
			var lvl []int
			for i := 1; i < len(t.Par); i++ {
				if hs[i] == h {
					lvl = append(lvl, i)
				}
			}
			hlib.Shuffle(r, lvl)
			o = append(o, lvl...)
		}
		return o
	}},
	{"shuffle", func(r *hlib.Rng, t treeSpec) []int {
		o := seqOrder(len(t.Par))
		hlib.Shuffle(r, o)
		return o
	}},
	{"shuffle-dups", func(r *hlib.Rng, t treeSpec) []int {
		o := seqOrder(len(t.Par))
		hlib.Shuffle(r, o)
		return withDups(r, o)
	}},
	{"local-swaps", func(r *hlib.Rng, t treeSpec) []int {
		// nearly in order: what gossip produces
		o := seqOrder(len(t.Par))
		for k := 0; k < len(o); k++ {
			i := r.Intn(len(o))
			j := i + r.Range(-3, 3)
			if j >= 0 && j < len(o) {
				o[i], o[j] = o[j], o[i]
			}
		}
		return withDups(r, o)
	}},
	{"missing", func(r *hlib.Rng, t treeSpec) []int {
		// some blocks never arrive: their descendants stay orphans
		o := seqOrder(len(t.Par))
		hlib.Shuffle(r, o)
		drop := r.Range(1, 3)
		return withDups(r, o[drop:])
	}},
}

// permutations of xs (Heap's algorithm)
func perms(xs []int, f func([]int)) {
	var rec func(k int)
	rec = func(k int) {
		if k == 1 {
			f(xs)
			return
		}
		for i := 0; i < k; i++ {
			rec(k - 1)
			if k%2 == 0 {
				xs[i], xs[k-1] = xs[k-1], xs[i]
			} else {
				xs[0], xs[k-1] = xs[k-1], xs[0]
			}
		}
	}
	if len(xs) > 0 {
		rec(len(xs))
	}
}


// genFlip: two branches X and Y from a common prefix, extended in turns so that the node
// reorganises X -> Y -> X -> ... : blocks leave the best chain and come back (each return
// writes a new add record for a hash that already has index entry).  Returns the tree and
// the delivery order.
func genFlip(r *hlib.Rng, flips int, varied bool) (treeSpec, []int) {
	t := treeSpec{Par: []int{-1}, Dbits: []uint32{0}}
	td := []int64{work(diffChoices[0])}
	ht := []int{0}
	pick := func() uint32 {
		if varied && r.Chance(1, 4) {
			return hlib.Pick(r, diffChoices)
		}
		return diffChoices[0]
	}
	add := func(p int) int {
		d := pick()
		t.Par = append(t.Par, p)
		t.Dbits = append(t.Dbits, d)
		td = append(td, td[p]+work(d))
		ht = append(ht, ht[p]+1)
		return len(t.Par) - 1
	}
	var order []int
	p := 0
	for i := r.Range(0, 3); i > 0; i-- {
		p = add(p)
		order = append(order, p)
	}
	tips := [2]int{p, p}
	// X up to height 12 first
	for ht[tips[0]] < 12 {
		tips[0] = add(tips[0])
		order = append(order, tips[0])
	}
	cur := 0
	for f := 0; f < flips && len(t.Par) < 60; f++ {
		oth := 1 - cur
		// extend the other branch until it is heavier than the current one and at height >= 12
		for (td[tips[oth]] <= td[tips[cur]] || ht[tips[oth]] < 12) && len(t.Par) < 64 {
			tips[oth] = add(tips[oth])
			order = append(order, tips[oth])
		}
		if r.Chance(1, 3) { // one more on top: a plain tip extension after the reorganisation
			tips[oth] = add(tips[oth])
			order = append(order, tips[oth])
		}
		cur = oth
	}
	if r.Chance(1, 2) { // a late duplicate of a block that has left and re-entered the chain
		order = append(order, order[r.Intn(len(order))])
	}
	return t, order
}
