// Signature stage of util.PreExecBlock alone (case constructor CSig): one block on top of the genesis block
// of a fresh receiver; chosen transaction signatures altered (the block declares the root of what it ships,
// as a malicious producer would), a block signature (none / valid / altered / truncated / other key), chosen
// genuine transactions of the block offered to the receiver's mempool before.  The harness verifies every
// signature one by one and asks the mempool what it holds; the model says what PreExecBlock does with that.
package main

import (
	"bytes"
	"fmt"

	"github.com/33cn/chain33/common/merkle"
	"github.com/33cn/chain33/types"
	"github.com/33cn/chain33/util"
	"verifharness/hlib"
)

type sigIn struct {
	Bad     []int  `json:"bad"`     // indices of the transactions whose signature is altered
	Bsig    int    `json:"bsig"`    // 0 none, 1 valid, 2 altered, 3 truncated, 4 made by another key, 5 garbage
	Pool    []int  `json:"pool"`    // indices of the block's genuine transactions offered to the mempool before
	Foreign bool   `json:"foreign"` // plus a transaction that is not in the block
	NoTxs   bool   `json:"notxs"`   // the block carries no transactions (roots right)
	After   string `json:"after"`   // "" or "statehash": a check after the signature stage fails as well
	Path    int    `json:"path"`
}

type sigOut struct {
	TxOK   []bool `json:"txok"`   // per transaction of the block: its signature verifies
	BsigOK bool   `json:"bsigok"` // no block signature, or it verifies
	Pool   []int  `json:"pool"`   // indices of the block's transactions the mempool held just before the delivery
	After  int    `json:"after"`  // class of the first failing check after the signature stage
	Err    int    `json:"err"`
	ErrS   string `json:"errs,omitempty"`
	Main   bool   `json:"main"`
	Moved  bool   `json:"moved"` // the best-chain tip is no longer the genesis block
	Served bool   `json:"served"`
}

const foreignTxID = 9

func (w *world) runSig(in *sigIn) *sigOut {
	G := w.gblk[1]
	b := clone(G)
	if in.NoTxs {
		b.Txs = nil
		d, _, err := util.ExecBlock(w.f.node.GetClient(), w.gblk[0].StateHash, clone(b), false, true, false)
		if err != nil {
			panic(fmt.Sprint("factory: exec of the empty block: ", err))
		}
		b.TxHash, b.StateHash = d.Block.TxHash, d.Block.StateHash
	}
	for _, i := range in.Bad {
		s := b.Txs[i].Signature.Signature
		s[len(s)-1] ^= 1
	}
	if len(in.Bad) > 0 {
		b.TxHash = merkle.CalcMerkleRoot(w.cfg, b.Height, b.Txs)
	}
	if in.After == "statehash" {
		b.StateHash[0] ^= 1
	}
	hash := b.Hash(w.cfg)
	key := w.f.node.GetGenesisKey()
	if in.Bsig != 0 {
		sig := key.Sign(hash).Bytes()
		switch in.Bsig {
		case 2:
			sig[len(sig)-1] ^= 1
		case 3:
			sig = sig[:len(sig)-3]
		case 4:
			_, other := util.Genaddress()
			sig = other.Sign(hash).Bytes()
		case 5:
			sig = []byte("not a signature")
		}
		b.Signature = &types.Signature{Ty: types.SECP256K1, Pubkey: key.PubKey().Bytes(), Signature: sig}
	}
	out := &sigOut{BsigOK: b.Signature == nil || types.CheckSign(hash, "", b.Signature, b.Height)}
	for _, tx := range b.Txs {
		out.TxOK = append(out.TxOK, tx.CheckSign(b.Height))
	}
	out.After = w.oracleX(b, 0, true)

	n := newRnode(false)
	defer n.close()
	gh := w.gblk[0].Hash(w.cfg)
	if !bytes.Equal(n.m.GetBlock(0).Hash(w.cfg), gh) {
		panic("receiver has a different genesis block")
	}
	var offer []*types.Transaction
	for _, i := range in.Pool {
		offer = append(offer, G.Txs[i])
	}
	if in.Foreign {
		offer = append(offer, w.freshTx())
	}
	poolTxs(n.m, offer)
	for i, f := range poolFlags(n.m, b.Txs) {
		if f {
			out.Pool = append(out.Pool, i)
		}
	}
	func() {
		defer func() {
			if e := recover(); e != nil {
				out.Err, out.ErrS = 7, fmt.Sprint("panic: ", e)
			}
		}()
		pid := []string{"peer-a", "peer-b", "download"}[in.Path%3]
		_, m, _, err := n.chain.ProcessBlock(in.Path%3 == 0, &types.BlockDetail{Block: clone(b)}, pid, true, -1)
		out.Main, out.Err = m, errClass(err)
		if err != nil {
			out.ErrS = err.Error()
		}
	}()
	out.Moved = !bytes.Equal(n.store.LastHeader().Hash, gh)
	if d, err := n.chain.LoadBlockByHash(hash); err == nil && d != nil && d.Block != nil {
		out.Served = true
	}
	return out
}

func renderSig(in *sigIn, out *sigOut) string {
	txs := make([]string, len(out.TxOK))
	for i, ok := range out.TxOK {
		txs[i] = hlib.Pair(hlib.N(uint64(i)), hlib.Bool(ok))
	}
	pool := make([]string, 0, len(out.Pool)+1)
	for _, i := range out.Pool {
		pool = append(pool, hlib.N(uint64(i)))
	}
	if in.Foreign {
		pool = append(pool, hlib.N(foreignTxID))
	}
	return hlib.App("CSig", hlib.Bool(out.BsigOK), hlib.List(txs), hlib.List(pool), hlib.N(uint64(out.After)),
		hlib.N(uint64(out.Err)), hlib.Bool(out.Moved))
}

// a transaction with an altered signature whose hash the mempool is asked to hold: the shortcut of
// util.PreExecBlock (open finding 6) can apply
func shortcut(in *sigIn) bool {
	for _, b := range in.Bad {
		for _, p := range in.Pool {
			if b == p {
				return true
			}
		}
	}
	return false
}

func sigCases(r *hlib.Rng, round int) []sigIn {
	all := []int{0, 1, 2}
	var cs []sigIn
	if round == 0 {
		// block signature x transactions unknown / pooled / none
		for bs := 0; bs <= 5; bs++ {
			cs = append(cs, sigIn{Bsig: bs, Path: bs})
			cs = append(cs, sigIn{Bsig: bs, Pool: all, Path: bs + 1})
			if bs == 0 || bs == 1 || bs == 2 || bs == 5 {
				cs = append(cs, sigIn{Bsig: bs, NoTxs: true, Path: bs})
			}
		}
		cs = append(cs,
			sigIn{Bsig: 2, Pool: []int{0, 2}},
			sigIn{Bsig: 4, Pool: all, Foreign: true, Path: 1},
			sigIn{Foreign: true},
			// transaction signatures x pool
			sigIn{Bad: []int{1}},
			sigIn{Bad: []int{1}, Pool: []int{0, 2}, Path: 1},
			sigIn{Bad: []int{0, 2}, Pool: []int{0}},
			sigIn{Bad: []int{1}, Pool: []int{1}}, // the witness of finding 6
			sigIn{Bad: all, Pool: all, Path: 1},
			sigIn{Bad: []int{1}, Pool: []int{1}, Bsig: 1},
			sigIn{Bad: []int{1}, Pool: []int{1}, Bsig: 2},
			sigIn{Bad: []int{2}, Pool: all, After: "statehash"},
			sigIn{Pool: all, After: "statehash", Path: 2},
			sigIn{Bsig: 3, Pool: all, After: "statehash"},
		)
		return cs
	}
	sub := func() []int {
		var s []int
		for _, i := range all {
			if r.Chance(1, 2) {
				s = append(s, i)
			}
		}
		return s
	}
	for k := 0; k < 40; k++ {
		c := sigIn{Bsig: r.Intn(6), Path: r.Intn(3), Foreign: r.Chance(1, 4)}
		if r.Chance(1, 6) {
			c.NoTxs = true
		} else {
			if r.Chance(1, 2) {
				c.Bad = sub()
			}
			c.Pool = sub()
			if r.Chance(1, 6) {
				c.After = "statehash"
			}
		}
		cs = append(cs, c)
	}
	return cs
}
