// hC27: valid blocks and mutated versions of them delivered to fresh chain33 nodes (C27).
//
// A factory test node builds a tree of real, executed blocks (3 transactions each) rooted at the
// genesis block.  For some target blocks every header-field and body mutation is produced
// (same-hash bodies: altered / reordered / duplicated transactions, broken or foreign
// transaction signatures, a block signature; new-hash blocks: state root, transaction root, height,
// parent, time, difficulty, version, dropped / added / duplicated-tail / no transactions; every header
// field at its EMPTY value: nil transaction root / state root / parent hash, all-zero parent hash,
// height 0, a second genesis block, time 0, difficulty 0; block signatures - garbage, one bit altered,
// truncated, made by another key, and a valid one - on the block as it is and on a copy without
// transactions whose roots are right).  Block-signature bodies are delivered to receivers that do not
// know the block's transactions, that hold all of them in the mempool (history entries with path 3
// offer a variant's transactions to the receiver's mempool), and as blocks without transactions.  The
// validity class of every (header, body) pair is computed by the harness independently of the
// checks in util.PreExecBlock (signatures verified one by one, duplicate search in the body and the
// ancestor bodies, re-execution on the factory WITHOUT checks and comparison of the roots).
// Histories of deliveries (broadcast / sync / download path) go to a fresh node each through
// BlockChain.ProcessBlock; after every delivery the tip, its total difficulty and the body served
// under the delivered hash are read back; at the end the hash at every height, the body served
// under every hash, the transaction index and an account read at the tip's state.
package main

import (
	"bytes"
	"crypto/sha256"
	"fmt"
	"os"
	"sort"
	"strings"
	"syscall"
	"time"

	"github.com/33cn/chain33/blockchain"
	"github.com/33cn/chain33/common/difficulty"
	"github.com/33cn/chain33/common/log"
	_ "github.com/33cn/chain33/system"
	"github.com/33cn/chain33/types"
	"github.com/33cn/chain33/util"
	"github.com/33cn/chain33/util/testnode"
	"verifharness/hlib"
)

const unknownID = 999999

// header ids given to the all-zero parent hash and to the empty one (Model.v zero_par, empty_par)
const zeroParID = unknownID + 2
const emptyParID = unknownID + 3

// path code of a history entry that is no delivery: the transactions of the variant are offered to the
// receiver's mempool
const pathPool = 3

func quiet() { log.SetLogLevel("crit") }

// the block producer is configured off; ask it all the same until it has answered "not started"
func stopMiner(m *testnode.Chain33Mock) {
	cl := m.GetClient()
	answers := 0
	for try := 0; try < 40 && answers < 1; try++ {
		msg := cl.NewMessage("consensus", types.EventMinerStop, nil)
		if err := cl.Send(msg, true); err != nil {
			time.Sleep(50 * time.Millisecond)
			continue
		}
		if _, err := cl.WaitTimeout(msg, 15*time.Second); err == nil || err.Error() == types.ErrMinerNotStared.Error() {
			answers++
		}
	}
	if answers < 1 {
		panic("block producer did not answer the stop request")
	}
}

func newNode(leveldb bool) *testnode.Chain33Mock {
	cfg := types.NewChain33Config(types.GetDefaultCfgstring())
	if !leveldb {
		cfg.GetModuleConfig().BlockChain.Driver = "memdb"
		cfg.GetModuleConfig().Store.Driver = "memdb"
		cfg.GetModuleConfig().Wallet.Driver = "memdb"
	}
	// no block producer: a round of solo's CreateBlock that passed its "is mining" test before a stop
	// request arrived would still pack the transactions offered to the mempool
	cfg.GetModuleConfig().Consensus.Minerstart = false
	m := testnode.NewWithConfig(cfg, nil)
	quiet()
	stopMiner(m)
	deadline := time.Now().Add(20 * time.Second)
	for m.GetBlockChain().GetBlockHeight() < 0 {
		if time.Now().After(deadline) {
			panic("genesis block not created")
		}
		time.Sleep(2 * time.Millisecond)
	}
	return m
}

type factory struct {
	node *testnode.Chain33Mock
	cfg  *types.Chain33Config
	gen  *types.Block
}

func newFactory() *factory {
	n := newNode(false)
	return &factory{node: n, cfg: n.GetClient().GetConfig(), gen: n.GetBlock(0)}
}

type rnode struct {
	m     *testnode.Chain33Mock
	chain *blockchain.BlockChain
	store *blockchain.BlockStore
}

func newRnode(leveldb bool) *rnode {
	m := newNode(leveldb)
	return &rnode{m: m, chain: m.GetBlockChain(), store: m.GetBlockChain().GetStore()}
}
func (n *rnode) close() { n.m.Close() }

// ---------- the world: headers, bodies, validity classes ----------

type hdr struct {
	ID     int
	Par    int // header id of the parent hash, unknownID+1 if it is no known block
	Ht     int64
	Work   int64
	Hash   []byte
	Bodies []string // body keys; index = body id
}

type variant struct {
	Name   string
	H, B   int
	Blk    *types.Block
	Class  int
	Target int
}

type world struct {
	f      *factory
	cfg    *types.Chain33Config
	hdrs   []*hdr
	byHash map[string]int
	vars   []*variant
	byPair map[[2]int]int
	nGen   int            // header ids < nGen are the genuine tree
	gpar   []int          // parent of genuine block i
	gblk   []*types.Block // genuine blocks
	gvar   []int          // variant index of genuine block i
	named  map[string]int // "target/name" -> variant index
}

func bodyKey(b *types.Block) string {
	h := sha256.New()
	for _, tx := range b.Txs {
		e := types.Encode(tx)
		fmt.Fprintf(h, "%d:", len(e))
		h.Write(e)
	}
	if b.Signature != nil {
		h.Write([]byte("|sig|"))
		h.Write(types.Encode(b.Signature))
	}
	return string(h.Sum(nil))
}

func clone(b *types.Block) *types.Block { return types.Clone(b).(*types.Block) }

func work(bits uint32) int64 { return difficulty.CalcWork(bits).Int64() }

func (w *world) ancTx(i int) map[string]bool {
	m := map[string]bool{}
	for ; i >= 0; i = w.gpar[i] {
		for _, tx := range w.gblk[i].Txs {
			m[string(tx.Hash())] = true
		}
	}
	return m
}

// oracle: validity class of block b on top of the genuine block par, computed without the node's checks.
// 0 valid, 1 signature, 2 duplicate transaction, 3 failing transaction, 4 transaction root, 5 state root, 6 consensus rule.
func (w *world) oracle(b *types.Block, par int) int { return w.oracleX(b, par, false) }

// skipSig: the class of the first failing check AFTER the signature stage
func (w *world) oracleX(b *types.Block, par int, skipSig bool) int {
	if par < 0 || par >= w.nGen || w.gblk[par] == nil {
		return 0 // never executed: the parent is unknown
	}
	P := w.gblk[par]
	if b.Height != P.Height+1 {
		return 0 // never executed: refused by the height test
	}
	if !skipSig {
		if b.Signature != nil && !types.CheckSign(b.Hash(w.cfg), "", b.Signature, b.Height) {
			return 1
		}
		for _, tx := range b.Txs {
			if !tx.CheckSign(b.Height) {
				return 1
			}
		}
	}
	seen := w.ancTx(par)
	for _, tx := range b.Txs {
		k := string(tx.Hash())
		if seen[k] {
			return 2
		}
		seen[k] = true
	}
	c := clone(b)
	d, _, err := util.ExecBlock(w.f.node.GetClient(), P.StateHash, c, false, true, false)
	if err != nil {
		panic(fmt.Sprint("oracle: execution failed: ", err))
	}
	if len(d.Block.Txs) != len(b.Txs) {
		return 3
	}
	if !bytes.Equal(d.Block.TxHash, b.TxHash) {
		return 4
	}
	if !bytes.Equal(d.Block.StateHash, b.StateHash) {
		return 5
	}
	if len(b.Txs) == 0 || b.BlockTime < P.BlockTime {
		return 6
	}
	return 0
}

func (w *world) register(b *types.Block, name string, target int) int {
	hash := b.Hash(w.cfg)
	hi, ok := w.byHash[string(hash)]
	if !ok {
		par := unknownID + 1
		if p, ok := w.byHash[string(b.ParentHash)]; ok {
			par = p
		} else if bytes.Equal(b.ParentHash, make([]byte, 32)) {
			par = zeroParID
		} else if len(b.ParentHash) == 0 {
			par = emptyParID
		}
		hi = len(w.hdrs)
		w.hdrs = append(w.hdrs, &hdr{ID: hi, Par: par, Ht: b.Height, Work: work(b.Difficulty), Hash: hash})
		w.byHash[string(hash)] = hi
	}
	h := w.hdrs[hi]
	key := bodyKey(b)
	bi := -1
	for k, x := range h.Bodies {
		if x == key {
			bi = k
		}
	}
	if bi < 0 {
		bi = len(h.Bodies)
		h.Bodies = append(h.Bodies, key)
	}
	if vi, ok := w.byPair[[2]int{hi, bi}]; ok {
		return vi
	}
	v := &variant{Name: name, H: hi, B: bi, Blk: b, Target: target}
	if hi != 0 {
		v.Class = w.oracle(b, h.Par)
	}
	w.vars = append(w.vars, v)
	w.byPair[[2]int{hi, bi}] = len(w.vars) - 1
	if name != "" {
		w.named[fmt.Sprintf("%d/%s", target, name)] = len(w.vars) - 1
	}
	return len(w.vars) - 1
}

// genuine tree: ids. trunk t1..t14 = 1..14; S: s12 s13(heavy) s14 = 15..17 off t11; R: r12..r15 = 18..21 off t11;
// U: u3 u4 = 22,23 off t2.
const (
	idS12 = 15
	idS13 = 16
	idS14 = 17
	idR12 = 18
	idR13 = 19
	idR14 = 20
	idR15 = 21
	idU3  = 22
	idU4  = 23
)

func treeSpec() (par []int, bits []uint32) {
	par = []int{-1}
	bits = []uint32{0}
	add := func(p int, d uint32) int {
		par = append(par, p)
		bits = append(bits, d)
		return len(par) - 1
	}
	const d0, dHeavy = 0x1f2fffff, 0x1f17ffff
	p := 0
	for i := 1; i <= 14; i++ {
		p = add(p, d0)
	}
	s := add(11, d0)
	s = add(s, dHeavy)
	add(s, d0)
	r := 11
	for i := 0; i < 4; i++ {
		r = add(r, d0)
	}
	u := add(2, d0)
	add(u, d0)
	return
}

func (w *world) freshTx() *types.Transaction {
	return util.CreateNoneTx(w.cfg, w.f.node.GetGenesisKey())
}

func buildWorld(f *factory) *world {
	w := &world{f: f, cfg: f.cfg, byHash: map[string]int{}, byPair: map[[2]int]int{}, named: map[string]int{}}
	par, bits := treeSpec()
	w.nGen = len(par)
	w.gpar = par
	w.gblk = make([]*types.Block, len(par))
	w.gvar = make([]int, len(par))
	w.gblk[0] = f.gen
	w.gvar[0] = w.register(f.gen, "genuine", 0)
	key := f.node.GetGenesisKey()
	for i := 1; i < len(par); i++ {
		parent := w.gblk[par[i]]
		txs := []*types.Transaction{util.CreateNoneTx(w.cfg, key), util.GenCoinsTxs(w.cfg, key, 1)[0], util.CreateNoneTx(w.cfg, key)}
		b := util.CreateNewBlock(w.cfg, parent, txs)
		b.Difficulty = bits[i]
		d, _, err := util.ExecBlock(f.node.GetClient(), parent.StateHash, b, false, true, false)
		if err != nil {
			panic(fmt.Sprintf("factory: exec block %d: %v", i, err))
		}
		if len(d.Block.Txs) != 3 {
			panic("factory: transactions dropped")
		}
		w.gblk[i] = d.Block
		w.gvar[i] = w.register(d.Block, "genuine", i)
		if v := w.vars[w.gvar[i]]; v.H != i || v.B != 0 || v.Class != 0 {
			panic(fmt.Sprintf("factory: genuine block %d registered as (%d,%d) class %d", i, v.H, v.B, v.Class))
		}
	}
	for _, g := range []int{3, 13, idS13, idR13, idU3} {
		w.mutate(g)
	}
	return w
}

var sameHashKinds = []string{"alter", "reorder", "dupin", "dupanc", "badsig", "blocksig", "resign"}
var newHashBad = []string{"statehash", "txhash", "height", "parent", "timelow", "drop", "add", "duptail", "empty", "heavybad",
	"txhash0", "statehash0", "parent0", "parentzero", "height0", "genesis2", "time0"}
var newHashOK = []string{"timehigh", "heavy", "version", "diff0"}

// header fields set to their empty value (nil / 0; for the parent hash also 32 zero bytes).  Version is 0 in
// every genuine block already, TxCount is derived from the body ("empty").  parent0 / parentzero / height0 /
// genesis2 are never executed: parent0 (nil ParentHash) makes blockExists panic in getHeaderByIndex once the
// header table has two rows (open finding 5); the all-zero hash is the pre-genesis node of a freshly started
// node's index (height -1): parentzero is refused by the height test, genesis2 (Height 0 as well) is stored
// and indexed and then fails with ErrParentTdNoExist; height0 with a real parent goes to the orphan pool.
var emptyFieldKinds = []string{"txhash0", "statehash0", "parent0", "parentzero", "height0", "genesis2", "time0", "diff0"}

// block-signature bodies (same header hash as the block they are put on): garbage, a valid signature with one
// bit altered, truncated, made by another key; "bsig-ok" is a valid block signature (a valid body)
var blockSigBad = []string{"blocksig", "bsig-alt", "bsig-trunc", "bsig-key"}

// never executed on arrival because the header is refused before (or the block waits for ever)
func refusedHdr(name string) bool {
	switch name {
	case "height", "parent", "parent0", "parentzero", "height0", "genesis2":
		return true
	}
	return false
}

func (w *world) mutate(g int) {
	G := w.gblk[g]
	P := w.gblk[w.gpar[g]]
	mut := func(name string, f func(b *types.Block)) {
		c := clone(G)
		f(c)
		w.register(c, name, g)
	}
	flip := func(x []byte) []byte {
		y := append([]byte{}, x...)
		y[0] ^= 1
		return y
	}
	mut("alter", func(b *types.Block) { b.Txs[1] = w.freshTx() })
	mut("reorder", func(b *types.Block) { b.Txs[0], b.Txs[2] = b.Txs[2], b.Txs[0] })
	mut("dupin", func(b *types.Block) { b.Txs[2] = types.CloneTx(b.Txs[0]) })
	if P.Height > 0 {
		mut("dupanc", func(b *types.Block) { b.Txs[1] = types.CloneTx(P.Txs[0]) })
	}
	mut("badsig", func(b *types.Block) {
		s := b.Txs[1].Signature.Signature
		s[len(s)-1] ^= 1
	})
	mut("blocksig", func(b *types.Block) {
		b.Signature = &types.Signature{Ty: types.SECP256K1, Pubkey: w.f.node.GetGenesisKey().PubKey().Bytes(), Signature: []byte("not a signature")}
	})
	mut("resign", func(b *types.Block) {
		_, other := util.Genaddress()
		b.Txs[1].Signature = nil
		b.Txs[1].Sign(types.SECP256K1, other)
	})
	mut("statehash", func(b *types.Block) { b.StateHash = flip(b.StateHash) })
	mut("txhash", func(b *types.Block) { b.TxHash = flip(b.TxHash) })
	mut("height", func(b *types.Block) { b.Height++ })
	mut("parent", func(b *types.Block) { b.ParentHash = flip(b.ParentHash) })
	mut("timelow", func(b *types.Block) { b.BlockTime = P.BlockTime - 1 })
	mut("timehigh", func(b *types.Block) { b.BlockTime += 5 })
	mut("heavy", func(b *types.Block) { b.Difficulty = 0x1f0fffff })
	mut("version", func(b *types.Block) { b.Version = 7 })
	mut("drop", func(b *types.Block) { b.Txs = b.Txs[:2] })
	mut("add", func(b *types.Block) { b.Txs = append(b.Txs, w.freshTx()) })
	mut("duptail", func(b *types.Block) { b.Txs = append(b.Txs, types.CloneTx(b.Txs[2])) })
	mut("empty", func(b *types.Block) { b.Txs = nil })
	mut("heavybad", func(b *types.Block) { b.Difficulty = 0x1f0fffff; b.StateHash = flip(b.StateHash) })
	// every header field at its empty value
	mut("txhash0", func(b *types.Block) { b.TxHash = nil })
	mut("statehash0", func(b *types.Block) { b.StateHash = nil })
	mut("parent0", func(b *types.Block) { b.ParentHash = nil })
	mut("parentzero", func(b *types.Block) { b.ParentHash = make([]byte, 32) })
	mut("height0", func(b *types.Block) { b.Height = 0 })
	mut("genesis2", func(b *types.Block) { b.Height = 0; b.ParentHash = make([]byte, 32) })
	mut("time0", func(b *types.Block) { b.BlockTime = 0 })
	mut("diff0", func(b *types.Block) { b.Difficulty = 0 })
	if G.Version != 0 {
		panic("genuine blocks are expected to have Version 0 (add a version0 mutation)")
	}
	// block signatures on the block as it is (its transactions are unknown to / pooled at the receiver) ...
	w.sigMutants(G, g, "")
	// ... and on a block without transactions whose roots are right (refused by the consensus rule only)
	e := clone(G)
	e.Txs = nil
	d, _, err := util.ExecBlock(w.f.node.GetClient(), P.StateHash, clone(e), false, true, false)
	if err != nil {
		panic(fmt.Sprint("factory: exec of the empty block: ", err))
	}
	e.TxHash, e.StateHash = d.Block.TxHash, d.Block.StateHash
	w.register(e, "emptyok", g)
	w.sigMutants(e, g, "emptyok/")
}

// signed copies of b: the block signature is not covered by the header hash
func (w *world) sigMutants(b *types.Block, g int, prefix string) {
	key := w.f.node.GetGenesisKey()
	_, other := util.Genaddress()
	hash := b.Hash(w.cfg)
	good := key.Sign(hash).Bytes()
	mk := func(name string, pub, sig []byte) {
		c := clone(b)
		c.Signature = &types.Signature{Ty: types.SECP256K1, Pubkey: pub, Signature: sig}
		if !bytes.Equal(c.Hash(w.cfg), hash) {
			panic("block signature changed the header hash")
		}
		w.register(c, prefix+name, g)
	}
	pub := key.PubKey().Bytes()
	if prefix != "" { // the plain block got its "blocksig" body before
		mk("blocksig", pub, []byte("not a signature"))
	}
	alt := append([]byte{}, good...)
	alt[len(alt)-1] ^= 1
	mk("bsig-alt", pub, alt)
	mk("bsig-trunc", pub, good[:len(good)-3])
	mk("bsig-key", pub, other.Sign(hash).Bytes())
	mk("bsig-ok", pub, good)
}

func (w *world) v(target int, name string) int {
	i, ok := w.named[fmt.Sprintf("%d/%s", target, name)]
	if !ok {
		panic("no variant " + name)
	}
	return i
}

// ---------- one history ----------

type histIn struct {
	// (variant index, path 0 broadcast / 1 sync / 2 download); path 3 is no delivery: the variant's
	// transactions are offered to the receiver's mempool
	Dels    [][2]int `json:"dels"`
	Sig     *sigIn   `json:"sig,omitempty"` // a signature-stage case (sig.go) instead of a history
	Kind    string   `json:"kind"`
	LevelDB bool     `json:"leveldb"`
	Names   []string `json:"names,omitempty"`
}

type stepOut struct {
	Main   bool   `json:"main"`
	Orphan bool   `json:"orphan"`
	Err    int    `json:"err"`
	ErrS   string `json:"errs,omitempty"`
	Tip    int    `json:"tip"`
	TipTd  string `json:"tiptd"`
	Served int    `json:"served"`
	NTx    int    `json:"ntx"`    // transactions in the delivered block ...
	Pooled int    `json:"pooled"` // ... and how many of them the receiver's mempool held just before
	NoPar  bool   `json:"nopar,omitempty"` // the delivered block has an empty ParentHash (open finding 5 when it panics)
}

type histOut struct {
	Steps  []stepOut `json:"steps"`
	Main   []int     `json:"main"`
	Served [][2]int  `json:"served"`
	TxOK   bool      `json:"txok"`
	StOK   bool      `json:"stok"`
	Note   string    `json:"note,omitempty"`
	Sig    *sigOut   `json:"sig,omitempty"`
}

// deliveries of a history (pool offers left out)
func deliveries(dels [][2]int) [][2]int {
	var d [][2]int
	for _, dl := range dels {
		if dl[1] != pathPool {
			d = append(d, dl)
		}
	}
	return d
}

// which of the transactions the node's mempool holds (by Hash, as util.PreExecBlock asks)
func poolFlags(m *testnode.Chain33Mock, txs []*types.Transaction) []bool {
	if len(txs) == 0 {
		return nil
	}
	req := &types.ReqCheckTxsExist{TxHashes: make([][]byte, len(txs))}
	for i, tx := range txs {
		req.TxHashes[i] = tx.Hash()
	}
	cl := m.GetClient()
	msg := cl.NewMessage("mempool", types.EventCheckTxsExist, req)
	if err := cl.Send(msg, true); err != nil {
		panic(err)
	}
	rp, err := cl.WaitTimeout(msg, 20*time.Second)
	if err != nil {
		panic(err)
	}
	r := rp.GetData().(*types.ReplyCheckTxsExist)
	fl := make([]bool, len(txs))
	copy(fl, r.ExistFlags)
	return fl
}

func countTrue(fl []bool) int {
	n := 0
	for _, f := range fl {
		if f {
			n++
		}
	}
	return n
}

// offer transactions to the node's mempool; every one must be taken
func poolTxs(m *testnode.Chain33Mock, txs []*types.Transaction) {
	for _, tx := range txs {
		rep, err := m.GetAPI().SendTx(types.Clone(tx).(*types.Transaction))
		if err != nil || rep == nil || !rep.IsOk {
			panic(fmt.Sprint("mempool refused a transaction of a genuine block: ", err))
		}
	}
	if fl := poolFlags(m, txs); countTrue(fl) != len(txs) {
		panic("mempool does not hold the offered transactions")
	}
}

func errClass(err error) int {
	switch err {
	case nil:
		return 0
	case types.ErrBlockExist:
		return 1
	case types.ErrParentBlockNoExist:
		return 2
	case types.ErrBlockHeightNoMatch:
		return 3
	case types.ErrParentTdNoExist:
		return 4
	case types.ErrHashNotExist:
		return 6
	case types.ErrSign:
		return 11
	case types.ErrTxDup:
		return 12
	case types.ErrBlockExec:
		return 13
	case types.ErrCheckTxHash:
		return 14
	case types.ErrCheckStateHash:
		return 15
	}
	// consensus CheckBlock answers cross the queue as text
	switch err.Error() {
	case types.ErrBlockTime.Error(), types.ErrEmptyTx.Error(), types.ErrBlockHeight.Error(), types.ErrParentHash.Error(),
		types.ErrBlockSize.Error(), types.ErrManyTx.Error():
		return 16
	}
	return 99
}

func (w *world) servedCode(n *rnode, h *hdr) int {
	d, err := n.chain.LoadBlockByHash(h.Hash)
	if err != nil || d == nil || d.Block == nil {
		return 0
	}
	key := bodyKey(d.Block)
	for k, x := range h.Bodies {
		if x == key {
			return 1 + k
		}
	}
	return unknownID
}

func (w *world) run(in histIn) (out histOut, panicked string) {
	n := newRnode(in.LevelDB)
	defer n.close()
	cfg := w.cfg
	if !bytes.Equal(n.m.GetBlock(0).Hash(cfg), w.gblk[0].Hash(cfg)) {
		panic("receiver has a different genesis block")
	}
	idOf := func(h []byte) int {
		if i, ok := w.byHash[string(h)]; ok {
			return i
		}
		return unknownID
	}
	process := func(b *types.Block, path int) (m, o bool, err error, pan string) {
		defer func() {
			if e := recover(); e != nil {
				pan = fmt.Sprint(e)
			}
		}()
		d := &types.BlockDetail{Block: clone(b)}
		switch path {
		case 0:
			_, m, o, err = n.chain.ProcessBlock(true, d, "peer-a", true, -1)
		case 1:
			_, m, o, err = n.chain.ProcessBlock(false, d, "peer-b", true, -1)
		default:
			_, m, o, err = n.chain.ProcessBlock(false, d, "download", true, -1)
		}
		return
	}
	used := map[int]bool{0: true}
	for _, dl := range in.Dels {
		v := w.vars[dl[0]]
		if dl[1] == pathPool {
			poolTxs(n.m, v.Blk.Txs)
			continue
		}
		used[v.H] = true
		pooled := countTrue(poolFlags(n.m, v.Blk.Txs))
		m, o, err, pan := process(v.Blk, dl[1])
		st := stepOut{Main: m, Orphan: o, Err: errClass(err), NTx: len(v.Blk.Txs), Pooled: pooled, NoPar: len(v.Blk.ParentHash) == 0}
		if err != nil {
			st.ErrS = err.Error()
		}
		if pan != "" {
			// a panic inside ProcessBlock is an observable (error class 7); the history goes on
			st = stepOut{Err: 7, ErrS: "panic: " + pan, NTx: len(v.Blk.Txs), Pooled: pooled, NoPar: len(v.Blk.ParentHash) == 0}
			panicked = pan
		}
		last := n.store.LastHeader()
		st.Tip = idOf(last.Hash)
		st.TipTd = "-1"
		if td, e := n.store.GetTdByBlockHash(last.Hash); e == nil && td != nil {
			st.TipTd = td.String()
		}
		st.Served = w.servedCode(n, w.hdrs[v.H])
		out.Steps = append(out.Steps, st)
	}
	// final chain
	top := n.store.Height()
	for k := int64(0); k <= top; k++ {
		hash, err := n.store.GetBlockHashByHeight(k)
		id := unknownID
		if err == nil {
			id = idOf(hash)
		}
		out.Main = append(out.Main, id)
	}
	if last := n.store.LastHeader(); len(out.Main) == 0 || idOf(last.Hash) != out.Main[len(out.Main)-1] || last.Height != top {
		out.Main = append(out.Main, unknownID)
	}
	// served bodies of the headers of this case
	for _, hi := range w.closure(used) {
		out.Served = append(out.Served, [2]int{hi, w.servedCode(n, w.hdrs[hi])})
	}
	// transaction index: exactly the transactions of the bodies on the best chain
	out.TxOK = true
	want := map[string]int64{}
	for k, hi := range out.Main {
		if k == 0 || hi >= len(w.hdrs) {
			continue
		}
		sc := w.servedCode(n, w.hdrs[hi])
		vi, ok := w.byPair[[2]int{hi, sc - 1}]
		if !ok {
			out.TxOK = false
			out.Note = "best chain block with an unknown body"
			continue
		}
		for _, tx := range w.vars[vi].Blk.Txs {
			want[string(tx.Hash())] = int64(k)
		}
	}
	for _, v := range w.vars {
		if v.H == 0 {
			continue
		}
		for _, tx := range v.Blk.Txs {
			ht, wanted := want[string(tx.Hash())]
			res, err := n.store.GetTx(tx.Hash())
			found := err == nil && res != nil
			if found != wanted || (found && res.Height != ht) {
				out.TxOK = false
				out.Note = fmt.Sprintf("tx of %d/%s: wanted=%v found=%v", v.Target, v.Name, wanted, found)
			}
		}
	}
	// state at the tip: the genesis account as the factory computed it for that state root
	func() {
		defer func() {
			if e := recover(); e != nil {
				out.StOK = false
				out.Note = fmt.Sprint("state read panicked: ", e)
			}
		}()
		sh := n.store.LastHeader().StateHash
		addr := w.f.node.GetGenesisAddress()
		a := n.m.GetAccount(sh, addr)
		b := w.f.node.GetAccount(sh, addr)
		out.StOK = a != nil && b != nil && a.Balance == b.Balance && a.Balance > 0
		if !out.StOK {
			out.Note = "state at the tip differs from the factory's"
		}
	}()
	return out, panicked
}

// closure: the given header ids plus all their known ancestors, ascending
func (w *world) closure(used map[int]bool) []int {
	all := map[int]bool{}
	for h := range used {
		for x := h; x >= 0 && x < len(w.hdrs) && !all[x]; x = w.hdrs[x].Par {
			all[x] = true
			if x == 0 {
				break
			}
		}
	}
	var ids []int
	for h := range all {
		ids = append(ids, h)
	}
	sort.Ints(ids)
	return ids
}

// ---------- Gallina rendering ----------

func (w *world) render(in histIn, out histOut) string {
	if in.Sig != nil {
		return renderSig(in.Sig, out.Sig)
	}
	in.Dels = deliveries(in.Dels)
	used := map[int]bool{0: true}
	for _, dl := range in.Dels {
		used[w.vars[dl[0]].H] = true
	}
	ids := w.closure(used)
	T := make([]string, len(ids))
	inT := map[int]bool{}
	for i, hi := range ids {
		h := w.hdrs[hi]
		T[i] = hlib.App("mkB", hlib.N(uint64(h.ID)), hlib.N(uint64(h.Par)), hlib.Z(h.Ht), hlib.Z(h.Work))
		inT[hi] = true
	}
	var V []string
	seen := map[[2]int]bool{}
	addV := func(v *variant) {
		k := [2]int{v.H, v.B}
		if v.Class != 0 && !seen[k] {
			seen[k] = true
			V = append(V, fmt.Sprintf("(%s, %s, %s)", hlib.N(uint64(v.H)), hlib.N(uint64(v.B)), hlib.N(uint64(v.Class))))
		}
	}
	for _, dl := range in.Dels {
		addV(w.vars[dl[0]])
	}
	for _, hi := range ids { // body 0 of every header of the case
		if vi, ok := w.byPair[[2]int{hi, 0}]; ok {
			addV(w.vars[vi])
		}
	}
	ord := make([]string, len(in.Dels))
	for i, dl := range in.Dels {
		v := w.vars[dl[0]]
		ord[i] = fmt.Sprintf("(%s, %s, %s)", hlib.N(uint64(v.H)), hlib.N(uint64(v.B)), hlib.N(uint64(dl[1])))
	}
	obs := make([]string, len(out.Steps))
	for i, s := range out.Steps {
		obs[i] = fmt.Sprintf("(%s, %s, %s, %s, (%s)%%Z, %s)", hlib.Bool(s.Main), hlib.Bool(s.Orphan), hlib.N(uint64(s.Err)),
			hlib.N(uint64(s.Tip)), s.TipTd, hlib.N(uint64(s.Served)))
	}
	fm := make([]string, len(out.Main))
	for i, v := range out.Main {
		fm[i] = hlib.N(uint64(v))
	}
	fs := make([]string, len(out.Served))
	for i, e := range out.Served {
		fs[i] = hlib.Pair(hlib.N(uint64(e[0])), hlib.N(uint64(e[1])))
	}
	return hlib.App("CHist", hlib.Z(0), hlib.List(T), hlib.List(V), hlib.List(ord), hlib.List(obs), hlib.List(fm), hlib.List(fs),
		hlib.Bool(out.TxOK && out.StOK))
}

// ---------- generators ----------

type gen struct {
	w *world
	r *hlib.Rng
}

func (g *gen) path() int { return g.r.Intn(3) }

// genuine deliveries of blocks ids (in order) with random paths
func (g *gen) genuine(ids ...int) [][2]int {
	var d [][2]int
	for _, i := range ids {
		d = append(d, [2]int{g.w.gvar[i], g.path()})
	}
	return d
}

func seq(a, b int) []int {
	var s []int
	for i := a; i <= b; i++ {
		s = append(s, i)
	}
	return s
}

func main() {
	// the node's log lines go to stdout: keep it small
	if dn, err := os.OpenFile(os.DevNull, os.O_WRONLY, 0); err == nil {
		_ = syscall.Dup2(int(dn.Fd()), 1)
	}
	quiet()
	opts := hlib.ParseFlags()
	o := hlib.NewOut(opts.OutDir)
	defer o.Close()
	f := newFactory()
	defer f.node.Close()
	w := buildWorld(f)
	start := time.Now()

	emit := func(in histIn) {
		in.Names = nil
		for _, dl := range in.Dels {
			v := w.vars[dl[0]]
			nm := fmt.Sprintf("%d/%s", v.Target, v.Name)
			if dl[1] == pathPool {
				nm = "pool the transactions of " + nm
			}
			in.Names = append(in.Names, nm)
		}
		if in.Sig != nil {
			so := w.runSig(in.Sig)
			out := histOut{Sig: so}
			o.Emit(in.Kind, so.Err >= 10, w.render(in, out), in, out)
			return
		}
		out, pan := w.run(in)
		if pan != "" {
			fmt.Fprintln(os.Stderr, "hC27: ProcessBlock panicked:", pan)
		}
		nontrivial := false
		for _, s := range out.Steps {
			if s.Err >= 10 {
				nontrivial = true // a block was rejected by a validity check
			}
		}
		o.Emit(in.Kind, nontrivial, w.render(in, out), in, out)
	}

	if opts.Replay != "" {
		var in histIn
		if err := hlib.ReplayInput(opts.Replay, &in); err != nil {
			panic(err)
		}
		emit(in)
		return
	}

	g := &gen{w: w, r: hlib.NewRng(opts.Seed)}
	budget := 75 * time.Second
	if opts.Thorough() {
		budget = 45 * time.Minute
	}
	over := func() bool { return time.Since(start) > budget }
	count := 0
	run := func(kind string, dels [][2]int) {
		if over() {
			return
		}
		// a delivered block with an empty ParentHash makes ProcessBlock panic (open finding 5)
		for _, dl := range dels {
			if dl[1] != pathPool && len(w.vars[dl[0]].Blk.ParentHash) == 0 && strings.HasPrefix(kind, "guarded/") {
				kind = "unrestricted/" + strings.TrimPrefix(kind, "guarded/")
			}
		}
		emit(histIn{Dels: dels, Kind: kind, LevelDB: count%8 == 7})
		count++
	}
	cat := func(parts ...[][2]int) [][2]int {
		var d [][2]int
		for _, p := range parts {
			d = append(d, p...)
		}
		return d
	}
	allKinds := append(append(append([]string{}, sameHashKinds...), newHashBad...), newHashOK...)
	pathPairs := [][2]int{{0, 0}, {0, 1}, {0, 2}, {1, 0}, {2, 0}, {2, 2}, {1, 2}, {2, 1}, {1, 1}}
	rounds := 1
	if opts.Thorough() {
		rounds = 9
	}

	for round := 0; round < rounds && !over(); round++ {
		// A. mutated block at the tip, then the genuine block, then its child
		for ti, tgt := range []int{3, 13} {
			for ki, name := range allKinds {
				if tgt == 3 && name == "dupanc" && w.gblk[w.gpar[tgt]].Height == 0 {
					continue
				}
				pp := pathPairs[(ki+ti+round)%len(pathPairs)]
				vi := w.v(tgt, name)
				kind := "unrestricted/tip-mutant-then-genuine"
				if w.vars[vi].H != tgt {
					kind = "guarded/tip-newhash-then-genuine"
				}
				run(kind, cat(g.genuine(seq(1, tgt-1)...), [][2]int{{vi, pp[0]}, {w.gvar[tgt], pp[1]}}, g.genuine(tgt+1), [][2]int{{w.gvar[tgt], g.path()}}))
			}
		}
		// S. block signatures (altered / truncated / other key / garbage) on blocks whose transactions are
		// (a) unknown to the receiver, (b) all in the receiver's mempool, (c) none at all; the validity class
		// says "signature" in all three.  Plus valid signed copies and pooled header mutants.
		for ti, tgt := range []int{3, 13} {
			pre := func() [][2]int { return g.genuine(seq(1, tgt-1)...) }
			pool := [][2]int{{w.gvar[tgt], pathPool}}
			for ki, name := range blockSigBad {
				pp := pathPairs[(ki+ti+round)%len(pathPairs)]
				vi := w.v(tgt, name)
				tail := func() [][2]int {
					return cat([][2]int{{vi, pp[0]}, {w.gvar[tgt], pp[1]}}, g.genuine(tgt+1), [][2]int{{w.gvar[tgt], g.path()}})
				}
				if name != "blocksig" { // stream A has that one
					run("unrestricted/blocksig-txs-unknown", cat(pre(), tail()))
				}
				run("unrestricted/blocksig-txs-pooled", cat(pre(), pool, tail()))
				run("guarded/blocksig-no-txs", cat(pre(), [][2]int{{w.v(tgt, "emptyok/"+name), pp[0]}, {w.v(tgt, "emptyok"), pp[1]}}, g.genuine(tgt, tgt+1)))
			}
			run("guarded/signed-valid-txs-unknown", cat(pre(), [][2]int{{w.v(tgt, "bsig-ok"), g.path()}}, g.genuine(tgt+1)))
			run("guarded/signed-valid-txs-pooled", cat(pre(), pool, [][2]int{{w.v(tgt, "bsig-ok"), g.path()}}, g.genuine(tgt+1)))
			run("guarded/signed-no-txs", cat(pre(), [][2]int{{w.v(tgt, "emptyok/bsig-ok"), g.path()}}, g.genuine(tgt, tgt+1)))
			for ki, name := range append([]string{"txhash", "statehash"}, emptyFieldKinds...) {
				if (ki+ti+round)%2 == 0 || name == "txhash0" || name == "statehash0" {
					pp := pathPairs[(ki+ti+round)%len(pathPairs)]
					kind := "guarded/tip-newhash-txs-pooled"
					run(kind, cat(pre(), pool, [][2]int{{w.v(tgt, name), pp[0]}, {w.gvar[tgt], pp[1]}}, g.genuine(tgt+1)))
				}
			}
		}
		// T. the signature stage alone (sig.go)
		for _, si := range sigCases(g.r, round) {
			if over() {
				break
			}
			si := si
			kind := "sig/guarded"
			if shortcut(&si) {
				kind = "sig/unrestricted-pooled-tx-with-bad-signature"
			}
			emit(histIn{Kind: kind, Sig: &si})
			count++
		}
		// B. mutated side block (not executed on arrival), the genuine one, then the branch overtakes
		for ki, name := range allKinds {
			pp := pathPairs[(ki+round)%len(pathPairs)]
			vi := w.v(idR13, name)
			kind := "unrestricted/side-mutant-then-reorg"
			if w.vars[vi].H != idR13 && w.vars[vi].Class == 0 {
				kind = "guarded/side-valid-sibling-then-reorg"
				if refusedHdr(name) {
					kind = "guarded/side-refused-header-then-reorg" // never executed: wrong height / unknown parent
				}
			}
			d := cat(g.genuine(seq(1, 13)...), g.genuine(idR12), [][2]int{{vi, pp[0]}})
			if g.r.Chance(2, 3) {
				d = append(d, [2]int{w.gvar[idR13], pp[1]})
			}
			d = cat(d, g.genuine(idR14, idR15, 14))
			run(kind, d)
		}
		// C. mutated block heavy enough to start a reorganisation
		for ki, name := range allKinds {
			pp := pathPairs[(ki+round)%len(pathPairs)]
			vi := w.v(idS13, name)
			kind := "unrestricted/heavy-side-mutant"
			if w.vars[vi].Class == 0 {
				kind = "guarded/heavy-side-valid-sibling"
				if refusedHdr(name) {
					kind = "guarded/heavy-side-refused-header"
				}
			}
			run(kind, cat(g.genuine(seq(1, 13)...), g.genuine(idS12), [][2]int{{vi, pp[0]}, {w.gvar[idS13], pp[1]}}, g.genuine(idS14, 14)))
		}
		// D. orphans: the mutated block arrives before its parent
		for ki, name := range allKinds {
			pp := pathPairs[(ki+round)%len(pathPairs)]
			tgt := []int{3, idU3}[ki%2]
			if tgt == 3 && name == "dupanc" && w.gblk[w.gpar[tgt]].Height == 0 {
				continue
			}
			vi := w.v(tgt, name)
			kind := "unrestricted/orphan-mutant"
			if w.vars[vi].H != tgt {
				// a new-hash orphan below the margin, refused or not, is inside the guard of
				// C27_rejected_invisible_partial: ProcessOrphans drops it and goes on
				kind = "guarded/orphan-newhash"
				if w.vars[vi].Class == 0 && name != "height" && name != "height0" && name != "genesis2" && name != "parentzero" {
					kind = "guarded/orphan-valid-sibling-or-parentless"
				}
			}
			child := 4
			if tgt == idU3 {
				child = idU4
			}
			d := cat(g.genuine(1), [][2]int{{vi, pp[0]}})
			if g.r.Chance(1, 2) {
				d = append(d, [2]int{w.gvar[tgt], pp[1]})
			}
			if g.r.Chance(1, 2) {
				d = cat(d, g.genuine(child))
			}
			d = cat(d, g.genuine(2), [][2]int{{w.gvar[tgt], g.path()}}, g.genuine(child))
			run(kind, d)
		}
		// E. cascade: children wait in the orphan pool, then the mutated side block arrives
		for ki, name := range sameHashKinds {
			pp := pathPairs[(ki+round)%len(pathPairs)]
			run("unrestricted/side-mutant-orphan-cascade", cat(g.genuine(seq(1, 13)...), g.genuine(idR12, idR14, idR15), [][2]int{{w.v(idR13, name), pp[0]}, {w.gvar[idR13], pp[1]}}, g.genuine(14)))
		}
		// H. download path: the failing node is deleted from the index while its child stays there
		// (later descendants are refused with ErrParentBlockNoExist by the nil-fork guard; they used to panic)
		for ki, name := range sameHashKinds {
			d := cat(g.genuine(seq(1, 13)...), g.genuine(idR12), [][2]int{{w.v(idR13, name), 2}}, g.genuine(idR14))
			if (ki+round)%2 == 0 {
				d = append(d, [2]int{w.v(13, "heavy"), g.path()})
			}
			d = cat(d, g.genuine(idR15), [][2]int{{w.gvar[idR13], g.path()}}, g.genuine(14))
			run("unrestricted/download-deleted-parent", d)
		}
		// F. guarded random histories: genuine blocks in shuffled order plus new-hash mutants below the margin
		nF := 10
		for k := 0; k < nF && !over(); k++ {
			ids := seq(3, w.nGen-1)
			// mostly in order with local swaps, some never delivered
			for s := 0; s < len(ids)/2; s++ {
				i := g.r.Intn(len(ids))
				j := i + g.r.Range(-3, 3)
				if j >= 0 && j < len(ids) {
					ids[i], ids[j] = ids[j], ids[i]
				}
			}
			if g.r.Chance(1, 3) {
				ids = ids[:len(ids)-g.r.Range(1, 4)]
			}
			// t1 first; t2 first as well (the mutants, children of t2, are then never orphans) or
			// somewhere in the history (mutants and genuine blocks wait for it in the orphan pool)
			pre := g.genuine(1, 2)
			late2 := k%2 == 1
			if late2 {
				pre = g.genuine(1)
			}
			d := g.genuine(ids...)
			for m := g.r.Range(2, 6); m > 0; m-- {
				tgt := []int{3, idU3}[g.r.Intn(2)]
				names := append(append([]string{}, newHashBad...), newHashOK...)
				name := hlib.Pick(g.r, names)
				if name == "heavybad" || name == "heavy" {
					name = "statehash"
				}
				pos := g.r.Intn(len(d) + 1)
				e := [2]int{w.v(tgt, name), g.path()}
				d = append(d[:pos], append([][2]int{e}, d[pos:]...)...)
			}
			if late2 {
				pos := g.r.Intn(len(d) + 1)
				d = append(d[:pos], append(g.genuine(2), d[pos:]...)...)
			}
			if g.r.Chance(1, 2) { // re-deliveries
				for m := 0; m < 3; m++ {
					d = append(d, d[g.r.Intn(len(d))])
				}
			}
			run("guarded/random-genuine-plus-newhash", cat(pre, d))
		}
		// G. unrestricted random histories over everything
		nG := 10
		for k := 0; k < nG && !over(); k++ {
			ids := seq(1, w.nGen-1)
			for s := 0; s < len(ids)/3; s++ {
				i := g.r.Intn(len(ids))
				j := i + g.r.Range(-2, 2)
				if j >= 0 && j < len(ids) {
					ids[i], ids[j] = ids[j], ids[i]
				}
			}
			d := g.genuine(ids...)
			for m := g.r.Range(2, 7); m > 0; m-- {
				vi := 1 + g.r.Intn(len(w.vars)-1)
				if v := w.vars[vi]; v.Class == 0 && v.B != 0 {
					// a second valid body under a hash (the validly signed copy): "block exists" is the right
					// answer to it once the unsigned block is there, and the other way round; the spec's clause
					// FExist speaks about one valid body per hash, so the two never meet in one history (the
					// signed copies have their own histories in stream S)
					continue
				}
				pos := g.r.Intn(len(d) + 1)
				e := [2]int{vi, g.path()}
				d = append(d[:pos], append([][2]int{e}, d[pos:]...)...)
			}
			run("unrestricted/random", d)
		}
	}
	if over() {
		fmt.Fprintln(os.Stderr, "hC27: time budget reached after", count, "histories")
	}
}
